"""C12 Extraction regions record every input and output they need.

Monitor: the reference interpreter replays a region (consecutive top-level
statements of a kernel) from a state in which every variable that the real
CallTreeUtils.get_in_out_parameters does NOT report as input is poisoned.
A read of poison is a missing input; a variable modified in the region that
is not reported as output is a missing output; a reported output that still
holds poison (or differs from the real run) after the replay shows that the
recorded inputs do not reproduce the recorded outputs.
"""
import os
import random

from vf import flite, finterp, diffrun, scen, psy
from vf.core import Part

PROPERTY = "C12"
LEVEL = "exploration"


class RegionTracer(finterp.Tracer):
    def __init__(self, first, last, inputs_reported=None):
        self.first, self.last = first, last
        self.inputs = inputs_reported      # None = real run (no poisoning)
        self.interp = None
        self.inside = False
        self.written = {}       # id(cell) -> cell
        self.done = False
        self.frame = None
        self.entry_vals = None

    def stmt(self, s, phase):
        if s is self.first and phase == 0 and not self.done:
            self.inside = True
            rt, fr = self.interp.frames[-1]
            self.frame = fr
            if self.inputs is not None:
                for name, obj in fr.items():
                    if name in self.inputs:
                        continue
                    cells = obj.cells if isinstance(obj, finterp.Arr) \
                        else [obj]
                    for c in cells:
                        c.v = finterp.POISON
        if s is self.last and phase == 1 and self.inside:
            self.inside = False
            self.done = True
            raise RegionDone()

    def write(self, cell):
        if self.inside:
            self.written[id(cell)] = cell


class RegionDone(Exception):
    pass


def frame_values(fr):
    out = {}
    for name, obj in fr.items():
        cells = obj.cells if isinstance(obj, finterp.Arr) else [obj]
        out[name] = [c.v for c in cells]
    return out


def run_region(unit, seed, nn, first, last, inputs_reported):
    tr = RegionTracer(first, last, inputs_reported)
    it = finterp.Interp(unit, tracer=tr)
    tr.interp = it
    poisoned = None
    try:
        it.run_main(seed, nn)
    except RegionDone:
        pass
    except finterp.Poison as p:
        poisoned = p.cell
    except (finterp.Trap, RecursionError):
        return None
    if tr.frame is None:
        return None
    return {"frame": tr.frame, "written": tr.written, "poison": poisoned,
            "completed": tr.done}


def cond_write_fact(stmts, name):
    """AST fact: variable `name` is assigned inside an IF within the region
    (a write that happens on some paths only)."""
    hit = [False]

    def walk(body, in_if):
        for s in body:
            if s[0] == "assign" and s[1][1].lower() == name and in_if:
                hit[0] = True
            if s[0] == "if":
                for _, b in s[1]:
                    walk(b, True)
                if s[2]:
                    walk(s[2], True)
            elif s[0] == "do":
                walk(s[5], True)     # a loop body may execute zero times
    walk(stmts, False)
    return hit[0]


def batch(arg):
    from psyclone.psyir.nodes import Routine
    from psyclone.psyir.tools import CallTreeUtils
    part = Part()
    rnd = random.Random(arg["seed"])
    inputs = diffrun.INPUTS[:arg["ninputs"]]
    for n in range(arg["count"]):
        unit, _ = scen.make("region", rnd.random(), False)
        text = flite.module_text(unit)
        body = unit["routines"][0]["body"]
        try:
            tree = psy.read(text)
        except Exception:
            part.count("reader_failed")
            continue
        kern = tree.walk(Routine)[0]
        if len(kern.children) != len(body):
            part.count("statement_mapping_failed")
            continue
        regions = [(i, j) for i in range(len(body))
                   for j in range(i, min(len(body), i + 6))]
        rnd.shuffle(regions)
        nontrivial = False
        for (i, j) in regions[:arg["regions"]]:
            try:
                rwi = CallTreeUtils().get_in_out_parameters(
                    kern.children[i:j + 1])
                ins = {str(s).lower() for s in rwi.signatures_read}
                outs = {str(s).lower() for s in rwi.signatures_written}
            except Exception as err:
                part.count("in_out_raised:" + type(err).__name__)
                continue
            part.count("regions_analysed")
            rtxt = " ; ".join(l.strip() for l in flite.stmts(body[i:j + 1],
                                                             0))[:300]
            for seed, nn in inputs:
                real = run_region(unit, seed, nn, body[i], body[j], None)
                if real is None or not real["completed"] or real["poison"]:
                    continue            # invalid input for this program
                rep = run_region(unit, seed, nn, body[i], body[j], ins)
                part.count("replays")
                nontrivial = True
                if rep["poison"] is not None:
                    c = rep["poison"]
                    mech = None
                    if c.idx != () and any(w.name == c.name and w is not c
                                           for w in rep["written"].values()):
                        # another element of the same array was written
                        # earlier in the region
                        mech = "written_first.partial_array"
                    elif c.idx == () and cond_write_fact(body[i:j + 1],
                                                         c.name):
                        mech = "written_first.conditional"
                    part.violation({
                        "kind": "upward_exposed_read_not_in_inputs",
                        "mechanism": mech,
                        "what": "region [%s] reads the incoming value of %s%s"
                                " but inputs are %s (input seed=%d n=%d)" % (
                                    rtxt, c.name, list(c.idx) if c.idx else
                                    "", sorted(ins), seed, nn),
                        "source": text, "region": [i, j],
                        "dedupe": ("read", mech, c.idx == ())})
                    break
                bad = False
                for cid, c in real["written"].items():
                    if c.name not in outs and c.name in real["frame"]:
                        part.violation({
                            "kind": "write_not_in_outputs", "mechanism": None,
                            "what": "region [%s] modifies %s but outputs are "
                                    "%s" % (rtxt, c.name, sorted(outs)),
                            "source": text, "region": [i, j],
                            "dedupe": ("write", c.idx == ())})
                        bad = True
                        break
                if bad:
                    break
                rv = frame_values(real["frame"])
                pv = frame_values(rep["frame"])
                for name in sorted(outs):
                    if name not in rv:
                        continue
                    if rv[name] != pv[name]:
                        still = any(v is finterp.POISON for v in pv[name])
                        isarr = len(rv[name]) > 1 or isinstance(
                            real["frame"][name], finterp.Arr)
                        wrote = {c.idx for c in real["written"].values()
                                 if c.name == name}
                        mech = None
                        if still and name not in ins:
                            if isarr and 0 < len(wrote) < len(rv[name]):
                                mech = "written_first.partial_array"
                            elif isarr and not wrote and cond_write_fact(
                                    body[i:j + 1], name):
                                mech = "written_first.conditional"
                            elif not isarr and cond_write_fact(
                                    body[i:j + 1], name):
                                mech = "written_first.conditional"
                        part.violation({
                            "kind": "replay_does_not_reproduce_output",
                            "mechanism": mech,
                            "what": "region [%s]: output %s is not an input "
                                    "(inputs %s) yet keeps %s after a replay "
                                    "from the inputs (seed=%d n=%d)" % (
                                        rtxt, name, sorted(ins),
                                        "undefined elements" if still else
                                        "different values", seed, nn),
                            "source": text, "region": [i, j], "var": name,
                            "dedupe": ("replay", mech, isarr)})
                        bad = True
                        break
                if bad:
                    break
        part.case(key=text, nontrivial=nontrivial,
                  sample=text[:900] if n == 0 else None)
    return part


def main(ctx):
    ctx.rule = ("kernels of 5-9 top-level statements (partial array writes, "
                "conditionally written scalars, loops over half an array, "
                "whole-array updates, SIZE reads); every contiguous region of "
                "<= 6 statements (sampled) is analysed by the real "
                "get_in_out_parameters and replayed by the reference "
                "interpreter from a poisoned state on up to 8 inputs; "
                "non-trivial = at least one replay ran; distinct by module "
                "text")
    rnd = ctx.rng("validate")
    nv = 0
    for k in range(8):
        unit, _ = scen.make("region", rnd.random(), False)
        good = diffrun.valid_inputs(unit, diffrun.INPUTS[:4])
        if not good:
            continue
        c, err, res = diffrun.run_all(os.path.join(ctx.tmp, "v%d" % k),
                                      flite.full_text(unit), sorted(good))
        if not c or any(res[x][0] != 0 or res[x][1] != good[x] for x in good):
            ctx.inconclusive("reference interpreter disagrees with gfortran")
            break
        nv += len(good)
    ctx.extra["traces_validated_against_impl"] = nv
    nb = 32 if ctx.quick else 160
    cnt = 12 if ctx.quick else 60
    jobs = [{"seed": ctx.rng("b", i).random(), "count": cnt,
             "ninputs": 4 if ctx.quick else 8,
             "regions": 8 if ctx.quick else 20} for i in range(nb)]
    for res in ctx.pmap("vf.checks.c12", "batch", jobs, timeout=3400):
        if res:
            ctx.merge(res)
    if ctx.counters.get("replays", 0) == 0:
        ctx.inconclusive("no region was replayed")
    ctx.assumptions += [
        "lists come from CallTreeUtils.get_in_out_parameters (the API the "
        "extraction transformations use); variable-name granularity",
        "poison = 'value not provided'; a variable that the region never "
        "touches keeps poison harmlessly"]
