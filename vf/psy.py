"""Thin helpers around the real PSyclone reader/writer (plane P entry points
used by many checks)."""
import os
import traceback


def reader():
    from psyclone.psyir.frontend.fortran import FortranReader
    return FortranReader()


def writer():
    from psyclone.psyir.backend.fortran import FortranWriter
    return FortranWriter()


def read(text):
    return reader().psyir_from_source(text)


def write(psyir):
    return writer()(psyir)


def roundtrip(text):
    """(written_text, None) or (None, 'ExcType: msg' + short traceback)."""
    try:
        return write(read(text)), None
    except Exception as err:      # every failure is reported by the caller
        tb = traceback.extract_tb(err.__traceback__)
        where = "%s:%d" % (os.path.basename(tb[-1].filename), tb[-1].lineno) \
            if tb else "?"
        return None, "%s: %s [%s]" % (type(err).__name__,
                                      str(err)[:300], where)


def is_psyclone_error(err):
    from psyclone.errors import PSycloneError
    return isinstance(err, PSycloneError)
