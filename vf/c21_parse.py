"""C21 helper: a small reader for the declarations and calls that appear in
PSyclone-generated LFRic PSy layers and kernel stubs, plus a reader of the
derived-type definitions of the LFRic stub infrastructure (for the few
actual arguments that are structure components such as op_proxy%ncell_3d).

Independent of PSyclone and fparser: plain text processing written from the
Fortran standard's declaration syntax (type-spec [, attr-list] [::]
entity-list)."""
import os
import re


class Unresolved(Exception):
    pass


def logical_lines(text):
    """Join free-form continuation lines, drop comments (the generated code
    has no '!' inside character literals on the lines we care about)."""
    out = []
    cur = ""
    for raw in text.split("\n"):
        s = raw
        # strip comments (no string literals containing '!' are generated in
        # declarations or kernel calls)
        if "!" in s:
            q = None
            for i, c in enumerate(s):
                if q:
                    if c == q:
                        q = None
                elif c in "'\"":
                    q = c
                elif c == "!":
                    s = s[:i]
                    break
        s = s.rstrip()
        if not s.strip():
            continue
        st = s.lstrip()
        if cur:
            if st.startswith("&"):
                st = st[1:]
            s = st
        if s.endswith("&"):
            cur += s[:-1]
            continue
        out.append(cur + s)
        cur = ""
    if cur:
        out.append(cur)
    return out


def split_top(s, sep=","):
    """Split at top-level (not inside parentheses / brackets) separators."""
    out = []
    depth = 0
    cur = ""
    i = 0
    while i < len(s):
        c = s[i]
        if c in "([":
            depth += 1
        elif c in ")]":
            depth -= 1
        if depth == 0 and s.startswith(sep, i):
            out.append(cur)
            cur = ""
            i += len(sep)
            continue
        cur += c
        i += 1
    out.append(cur)
    return [x.strip() for x in out]


def balanced(s, start):
    """s[start] == '(' ; return index just after the matching ')'."""
    depth = 0
    for i in range(start, len(s)):
        if s[i] == "(":
            depth += 1
        elif s[i] == ")":
            depth -= 1
            if depth == 0:
                return i + 1
    raise Unresolved("unbalanced parentheses in %r" % s)


DECL_HEAD = re.compile(
    r"^\s*(integer|real|logical|type|class|character|double\s+precision)\b",
    re.I)


def parse_decl_line(line):
    """Returns list of (name, info) for a type declaration statement or None
    if the line is not one.  info = {type, kind, rank, intent, attrs}."""
    m = DECL_HEAD.match(line)
    if not m:
        return None
    base = m.group(1).lower()
    rest = line[m.end():]
    sel = None
    r = rest.lstrip()
    if r.startswith("("):
        end = balanced(r, 0)
        sel = r[1:end - 1].strip()
        r = r[end:]
    elif r.startswith("*"):
        mm = re.match(r"\*\s*(\d+)", r)
        sel = mm.group(1)
        r = r[mm.end():]
    if base in ("type", "class"):
        if sel is None:
            return None        # a derived-type *definition* (type :: x)
        typ = "type:" + sel.lower()
        kind = None
    else:
        typ = "real" if base.startswith("double") else base
        kind = None
        if base.startswith("double"):
            kind = "double"
        if sel is not None:
            parts = split_top(sel)
            for p in parts:
                mm = re.match(r"(?i)\s*kind\s*=\s*(.+)$", p)
                if mm:
                    kind = mm.group(1).strip().lower()
                elif re.match(r"(?i)\s*len\s*=", p):
                    pass
                elif base != "character" and kind is None:
                    kind = p.strip().lower()
    attrs = []
    ents = r
    parts = split_top(r, "::")
    if len(parts) == 2:
        attrs = [a for a in split_top(parts[0]) if a]
        ents = parts[1]
    elif r.lstrip().startswith(","):
        return None            # attributes without '::' is not valid
    rank_attr = 0
    intent = None
    alist = []
    for a in attrs:
        al = a.lower().replace(" ", "")
        mm = re.match(r"dimension\((.*)\)$", al)
        if mm:
            rank_attr = len(split_top(mm.group(1)))
            continue
        mm = re.match(r"intent\((\w+)\)$", al)
        if mm:
            intent = mm.group(1)
            continue
        alist.append(al)
    out = []
    for e in split_top(ents):
        if not e:
            continue
        e = split_top(split_top(e, "=>")[0], "=")[0].strip()
        mm = re.match(r"^(\w+)\s*(\(.*\))?\s*(\*\s*\d+)?$", e)
        if not mm:
            raise Unresolved("cannot read entity %r in %r" % (e, line))
        rank = rank_attr
        if mm.group(2):
            rank = len(split_top(mm.group(2)[1:-1]))
        out.append((mm.group(1).lower(),
                    {"type": typ, "kind": kind, "rank": rank,
                     "intent": intent, "attrs": alist}))
    return out


SUB_RE = re.compile(r"^\s*subroutine\s+(\w+)\s*(\((.*)\))?\s*$", re.I)
ENDSUB_RE = re.compile(r"^\s*end\s*subroutine\b", re.I)


def parse_subroutines(text):
    """Returns list of dicts {name, dummies, decls, lines} for every
    subroutine in the text (nested scoping units are not generated)."""
    subs = []
    cur = None
    for line in logical_lines(text):
        m = SUB_RE.match(line)
        if m and cur is None:
            dummies = [a.lower() for a in split_top(m.group(3) or "") if a]
            cur = {"name": m.group(1).lower(), "dummies": dummies,
                   "decls": {}, "lines": [], "dup_decls": [], "uses": {}}
            continue
        if cur is None:
            continue
        if ENDSUB_RE.match(line):
            subs.append(cur)
            cur = None
            continue
        cur["lines"].append(line)
        mu = re.match(r"^\s*use\s+(\w+)\s*,\s*only\s*:(.*)$", line, re.I)
        if mu:
            for item in split_top(mu.group(2)):
                loc = item.split("=>")[0].strip().lower()
                if loc:
                    cur["uses"].setdefault(loc, mu.group(1).lower())
            continue
        d = parse_decl_line(line)
        if d:
            for name, info in d:
                if name in cur["decls"]:
                    cur["dup_decls"].append(name)
                else:
                    cur["decls"][name] = info
    return subs


def find_calls(sub, callee):
    """Actual-argument lists of every 'CALL callee(...)' in a subroutine."""
    out = []
    rx = re.compile(r"^\s*call\s+%s\s*\(" % re.escape(callee), re.I)
    for line in sub["lines"]:
        m = rx.match(line)
        if not m:
            continue
        start = m.end() - 1
        end = balanced(line, start)
        out.append(split_top(line[start + 1:end - 1]))
    return out


INT_LIT = re.compile(r"^[+-]?\d+(_(\w+))?$")
REAL_LIT = re.compile(
    r"^[+-]?(\d+\.\d*|\.\d+|\d+(?=[ed]))([ed][+-]?\d+)?(_(\w+))?$", re.I)
LOG_LIT = re.compile(r"^\.(true|false)\.(_(\w+))?$", re.I)


class InfraTypes:
    """Components of the derived types defined in the LFRic stub
    infrastructure sources, read from the sources themselves."""

    def __init__(self, root):
        self.types = {}       # name -> {"parent": str|None, "comps": {..}}
        self.renames = {}     # local name -> original name
        self.module_vars = {}  # module -> {name: info} (specification part)
        for dp, _, fns in os.walk(root):
            for fn in sorted(fns):
                if fn.endswith(".f90"):
                    with open(os.path.join(dp, fn), errors="replace") as fh:
                        self._scan(fh.read())

    def _scan(self, text):
        cur = None
        in_contains = False
        module = None         # set while in a module's specification part
        for line in logical_lines(text):
            low = line.strip().lower()
            if cur is None:
                mm = re.match(r"^module\s+(?!procedure\b)(\w+)\s*$", low)
                if mm:
                    module = mm.group(1)
                    self.module_vars.setdefault(module, {})
                    continue
                if low == "contains" or re.match(r"^end\s*module\b", low):
                    module = None
                    continue
                m = re.match(r"^type\s*(,[^:]*)?::\s*(\w+)\s*$", low) or \
                    re.match(r"^type\s+(?!\()(\w+)\s*$", low)
                if m:
                    name = m.group(m.lastindex)
                    parent = None
                    mm = re.search(r"extends\s*\(\s*(\w+)\s*\)", low)
                    if mm:
                        parent = mm.group(1)
                    cur = {"parent": parent, "comps": {}}
                    self.types.setdefault(name, cur)
                    in_contains = False
                    continue
                if low.startswith("use ") and "=>" in low:
                    only = low.split("only", 1)[-1].lstrip(" :")
                    for item in split_top(only):
                        if "=>" in item:
                            loc, orig = [x.strip() for x in item.split("=>")]
                            self.renames.setdefault(loc, orig)
                elif module is not None:
                    try:
                        d = parse_decl_line(line)
                    except Unresolved:
                        d = None
                    for name, info in d or []:
                        self.module_vars[module].setdefault(name, info)
                continue
            if re.match(r"^end\s*type\b", low):
                cur = None
                continue
            if low == "contains":
                in_contains = True
                continue
            if in_contains:
                continue
            try:
                d = parse_decl_line(line)
            except Unresolved:
                d = None
            if d:
                for name, info in d:
                    cur["comps"].setdefault(name, info)

    def component(self, tname, comp):
        seen = set()
        t = tname.lower()
        while t and t not in seen:
            seen.add(t)
            if t in self.types:
                ent = self.types[t]
                if comp in ent["comps"]:
                    return ent["comps"][comp]
                t = ent["parent"]
            elif t in self.renames:
                t = self.renames[t]
            else:
                break
        raise Unresolved("component %s of type %s not found in the "
                         "infrastructure sources" % (comp, tname))


PART_RE = re.compile(r"^(\w+)\s*(\((.*)\))?$")


def resolve_actual(expr, decls, infra=None, uses=None):
    """(type, kind, rank, how) of an actual argument of a generated kernel
    call.  `how` is literal / name / section / element / component."""
    e = expr.strip()
    el = e.lower()
    m = LOG_LIT.match(el)
    if m:
        return ("logical", m.group(3), 0, "literal")
    m = INT_LIT.match(el)
    if m:
        return ("integer", m.group(2), 0, "literal")
    m = REAL_LIT.match(el)
    if m:
        return ("real", m.group(4), 0, "literal")
    parts = split_top(el, "%")
    cur = None
    rank = 0
    how = "name"
    for n, p in enumerate(parts):
        m = PART_RE.match(p)
        if not m:
            raise Unresolved("cannot read actual argument %r" % expr)
        name = m.group(1)
        if n == 0:
            if name not in decls and uses and infra is not None and \
                    name in uses and name in infra.module_vars.get(
                        uses[name], {}) and len(parts) == 1 and \
                    not m.group(2):
                info = infra.module_vars[uses[name]][name]
                return (info["type"], info["kind"], info["rank"],
                        "use_associated")
            if name not in decls:
                raise Unresolved("actual argument %r: %s is not declared in "
                                 "the PSy-layer routine" % (expr, name))
            info = decls[name]
        else:
            if not cur["type"].startswith("type:") or infra is None:
                raise Unresolved("actual argument %r: component of a "
                                 "non-derived type" % expr)
            info = infra.component(cur["type"][5:], name)
            how = "component"
        prank = info["rank"]
        if m.group(2):
            subs = split_top(m.group(3))
            if len(subs) != info["rank"]:
                raise Unresolved("actual argument %r: %d subscripts for a "
                                 "rank-%d entity" % (expr, len(subs),
                                                     info["rank"]))
            prank = sum(1 for s in subs if split_top(s, ":") != [s])
            if n == len(parts) - 1 and how != "component":
                how = "section" if prank else "element"
        rank += prank
        cur = info
    return (cur["type"], cur["kind"], rank, how)
