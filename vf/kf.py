"""Known-finding predicates.  Each takes (witness, params) and returns True
only if the witness shows exactly the recorded mechanism.  Facts used here
are computed by the checks independently of PSyclone (planted hazard id,
dynamic trace facts, minimal operation), never seeds, hashes or values."""


def kind_and_mechanism(w, p):
    """Generic: witness kind and its 'mechanism' fact both match."""
    return (w.get("kind") == p.get("kind")
            and w.get("mechanism") == p.get("mechanism")
            and w.get("mechanism") is not None)


def mechanism_in_kinds(w, p):
    """witness mechanism equals the recorded one and the failing sub-oracle
    is one of the recorded kinds."""
    return (w.get("mechanism") is not None
            and w.get("mechanism") == p.get("mechanism")
            and w.get("kind") in p.get("kinds", []))


import re as _re

_WIDX = _re.compile(r"^\+\s*integer :: widx\d+(_\d+)*\s*$")
_ACCESS = _re.compile(r"^[+-]\s*(public|private)\s*::\s*(.*)$")


def _changed(diff_text):
    return [l for l in diff_text.splitlines()
            if l[:1] in "+-" and l[:3] not in ("+++", "---")]


def c03_where_fallback_symbol_leak(w, p):
    """Second write differs from the first ONLY by additional declarations of
    WHERE loop variables (integer :: widxN[_M]) and the source contains a
    WHERE construct: the WHERE handler created the loop variable and then
    fell back to a CodeBlock, leaving the symbol behind; the next pass
    creates one more."""
    if w.get("kind") != "second_write_differs":
        return False
    if not w.get("source_has_where"):
        return False
    ch = _changed(w.get("diff", ""))
    return bool(ch) and all(_WIDX.match(l) for l in ch)


def c03_access_stmt_reordered(w, p):
    """Only the order of names inside public::/private:: statements differs
    (same set of names)."""
    if w.get("kind") != "second_write_differs":
        return False
    ch = _changed(w.get("diff", ""))
    if not ch:
        return False
    minus, plus = {}, {}
    for l in ch:
        m = _ACCESS.match(l)
        if not m:
            return False
        names = frozenset(n.strip().lower() for n in m.group(2).split(","))
        (minus if l[0] == "-" else plus).setdefault(m.group(1), []).append(
            names)
    return {k: sorted(map(sorted, v)) for k, v in minus.items()} == \
        {k: sorted(map(sorted, v)) for k, v in plus.items()}


_SIGNED_PRODUCT = _re.compile(r"\(\s*[-+]\s*[\w.]+(\([^()]*\))?\s*[*/]")


def c03_brackets_after_leading_sign(w, p):
    """The two writes differ ONLY in parentheses, and the first write
    contains a bracketed product whose left-most factor carries a sign,
    '(-x * y)': the writer does not bracket a signed left-most factor
    (C02.unary_left_of_higher_precedence_op), the reader therefore regroups
    it as -(x*y), and the redundant brackets the first write put around a
    left operand that equals its right sibling are not produced again."""
    if w.get("kind") != "second_write_differs":
        return False
    ch = _changed(w.get("diff", ""))
    minus = [l[1:] for l in ch if l[0] == "-"]
    plus = [l[1:] for l in ch if l[0] == "+"]
    if not minus or len(minus) != len(plus):
        return False
    strip = lambda t: _re.sub(r"[()\s]", "", t)
    for a, b in zip(minus, plus):
        if strip(a) != strip(b):
            return False
        if not _SIGNED_PRODUCT.search(a):
            return False
    return True


def mechanism_prefix_in_kinds(w, p):
    m = w.get("mechanism")
    return (isinstance(m, str) and m.startswith(p.get("prefix", "\0"))
            and w.get("kind") in p.get("kinds", []))


def c28_region_left_by_transfer(w, p):
    """mechanism 'region_left_by_<kinds>:<Transformation>': the profiling /
    NaN-test / read-only-verify transformations accept a region that holds an
    EXIT or CYCLE of an enclosing loop (a CodeBlock) or a RETURN; the
    extraction transformation excludes CodeBlocks, so for it only RETURN is
    the known mechanism."""
    m = w.get("mechanism")
    if not isinstance(m, str) or not m.startswith("region_left_by_") or \
            w.get("kind") not in p.get("kinds", []):
        return False
    kinds, _, tname = m[len("region_left_by_"):].partition(":")
    if tname == "ExtractTrans":
        return kinds == "return"
    return tname in ("ProfileTrans", "NanTestTrans", "ReadOnlyVerifyTrans")
