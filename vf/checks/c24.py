"""C24 - Generated algorithm and PSy layers agree on invoke arguments.

Runtime monitoring (plane G): generated LFRic algorithm *programs* whose
invokes mix built-ins and hand-written data-flow probe kernels, with repeated,
case-varied, array-element, structure-component and literal arguments, named
and unnamed, are put through the real `psyclone` command (distributed memory
off and on).  Both generated layers are compiled together with gfortran
(-fimplicit-none -fcheck=all) against the stub LFRic infrastructure and run.

Oracles
  * compile oracle: the PSy routine is a module procedure, so an argument
    count / type mismatch between the generated call and the generated routine
    is a compile error ("alg_psy_do_not_compile_together", only after the
    PSy module compiled on its own and a reference algorithm layer without
    the invokes compiled, i.e. the failure is not the harness's);
  * data oracle: vf.c24_interp - my own sequential interpretation of the
    invoke TEXT over the dumped initial data; after every invoke the dumped
    data of every field / scalar must equal it exactly
    ("final_data_differs_from_invoke_text");
  * static monitor on the two generated texts: same number of actual and
    dummy arguments, no dummy twice, one routine per generated call name,
    type-compatible, and every kernel argument of the PSy routine (incl. the
    stencil extent of a stencil field) maps back (dummy -> actual -> program
    variable) to the variable the invoke text names at that position.

Known defects of the pinned tree found by this check are exercised on purpose
by `danger_anchors()` and by one random program in nine (ONE planted class
per program, see vf.c24_gen.DANGEROUS); their witnesses carry a mechanism
string computed from the invoke text alone (hazards_of / label_clashes), the
proposed KNOWN_FINDINGS entries are in vf/c24_known_findings_proposed.json.
VF_C24_SELFTEST=alg|psy|drop plants an argument confusion in a scratch copy
of the generated text (the check must then fire); VF_C24_NPROG=<n> overrides
the number of random programs.
"""
import os
import re
import shutil
import subprocess
import tempfile
import time

from vf.core import Part
from vf import lfric
from vf import c24_gen as G
from vf import c24_interp as I

PROPERTY = "C24"
LEVEL = "exploration"
SELFTEST = os.environ.get("VF_C24_SELFTEST", "")  # alg | psy | drop | ""

FFLAGS = ["-O0", "-g", "-fimplicit-none", "-fcheck=all",
          "-ffree-line-length-none", "-fmax-errors=5"]


# ------------------------------------------------------------------- hazards
def _flat(d):
    """PSy-layer style flattening of a designator: the name a naive
    generator would give the dummy argument"""
    d = re.sub(r"\([^)]*\)", "", d)
    return d.replace("%", "_")


_INTERNAL = re.compile(r"^(df|cell|nlayers|mesh|colour|.*_data|.*_proxy|"
                       r"ndf_.*|undf_.*|map_.*|loop\d+_.*)$")


def hazards_of(parsed, ints):
    """facts about ONE invoke computed from its text only (mechanism keys)"""
    hz = set()
    texts = {}          # designator -> set of normalised texts
    flats = {}          # flattened name -> set of designators
    written_sc, read_sc = set(), set()
    for kc in parsed["calls"]:
        roles = I.roles_of(kc["kern"])
        seen_here = []
        for a, r in zip(kc["args"], roles):
            res = I.resolve(a, ints)
            if res[0] != "var":
                continue
            norm = re.sub(r"\s+", "", a).lower()
            texts.setdefault(res[1], set()).add(norm)
            flats.setdefault(_flat(res[1]), set()).add(res[1])
            if _INTERNAL.match(_flat(res[1])):
                hz.add("variable_named_like_psy_internal")
            if r == "R":
                written_sc.add(res[1])
            elif r in "ri":
                read_sc.add(res[1])
            if r in "Ff":
                if res[1] in seen_here:
                    hz.add("same_field_twice_in_one_kernel_call")
                seen_here.append(res[1])
    if any(len(v) > 1 for v in texts.values()):
        hz.add("one_variable_two_texts")
    if any(len(v) > 1 for v in flats.values()):
        hz.add("two_variables_one_flattened_name")
    if written_sc & read_sc:
        hz.add("scalar_reduced_and_read")
    # stencil extents (role "e")
    iargs, extents = set(), []
    for kc in parsed["calls"]:
        for a, r in zip(kc["args"], I.roles_of(kc["kern"])):
            res = I.resolve(a, ints)
            if res[0] != "var":
                continue
            norm = re.sub(r"\s+", "", a).lower()
            if r == "e":
                extents.append(norm)
            elif r in "ir":
                iargs.add(norm)
    for e in extents:
        if "%" in e:
            hz.add("stencil_extent_is_structure_component")
        if "(" in e:
            hz.add("stencil_extent_is_array_element")
        if e in iargs:
            hz.add("stencil_extent_text_is_also_a_kernel_argument")
    return sorted(hz)


DANGEROUS = ("stencil_extent_is_structure_component",
             "stencil_extent_is_array_element",
             "stencil_extent_text_is_also_a_kernel_argument",
             "invoke_label_equals_generated_routine_name")


def label_clashes(parsed_list):
    """routine names that the naming rule of the user guide gives to two
    invokes of the program: a label `invoke_<k>...` chosen by the user
    equals the generated name of an unnamed invoke"""
    names = []
    for k, p in enumerate(parsed_list):
        if p["name"]:
            lab = p["name"].lower()
            names.append(lab if lab.startswith("invoke_") else "invoke_" + lab)
        else:
            names.append(G.generated_name(k, [c["kern"] for c in p["calls"]]))
    return sorted({n for n in names if names.count(n) > 1})


def mechanism(hz):
    """the dangerous hazard classes if any is present (the generator plants
    at most one class per program), else the benign facts"""
    d = [h for h in hz if h in DANGEROUS]
    return "+".join(sorted(d)) if d else ("+".join(sorted(hz)) or "none")


# --------------------------------------------------------------- build steps
def _run(cmd, cwd, timeout=300):
    try:
        p = subprocess.run(cmd, cwd=cwd, capture_output=True, text=True,
                           timeout=timeout, errors="replace")
    except subprocess.TimeoutExpired:
        return None, "", "watchdog"
    return p.returncode, p.stdout, p.stderr


def prepare_kernels(tmp, infra):
    """write the probe kernels (for `psyclone -d`) and compile them and the
    utility module once; returns {"kdir", "odir", "objs"}"""
    kdir = os.path.join(tmp, "c24_kern")
    odir = os.path.join(tmp, "c24_obj")
    os.makedirs(kdir, exist_ok=True)
    os.makedirs(odir, exist_ok=True)
    objs = []
    for fn, tx in G.kernel_sources():
        with open(os.path.join(kdir, fn), "w") as fh:
            fh.write(tx)
    for fn, tx in G.kernel_sources() + [("c24_util_mod.f90", G.UTIL)]:
        src = os.path.join(odir, fn)
        with open(src, "w") as fh:
            fh.write(tx)
        rc, _, err = _run(["gfortran"] + FFLAGS + infra["inc"] +
                          ["-c", fn], odir)
        if rc != 0:
            raise lfric.HarnessError("probe kernel %s does not compile: %s"
                                     % (fn, err[-600:]))
        objs.append(os.path.join(odir, fn[:-4] + ".o"))
    return {"kdir": kdir, "odir": odir, "objs": objs}


def reference_alg(x90):
    """the program without its invokes and kernel imports: must compile if
    the harness's own program text is sound"""
    txt = I.join_continuations(x90)
    out = []
    for ln in txt.splitlines():
        if re.match(r"(?i)^\s*call\s+invoke\s*\(", ln):
            out.append("  continue")
        elif re.match(r"(?i)^\s*use\s+c24_\w+_mod\s*,\s*only\s*:\s*c24_\w+_type",
                      ln):
            continue
        else:
            out.append(ln)
    return "\n".join(out) + "\n"


# ----------------------------------------------------------------- selftest
def selftest_mutate(alg, psy):
    """plant an argument confusion in a scratch copy of a generated text"""
    n = 0
    if SELFTEST == "alg":
        lines = alg.splitlines()
        for i, ln in enumerate(lines):
            m = re.match(r"(?i)^(\s*call\s+invoke[a-z0-9_]+\s*\()(.*)(\)\s*)$",
                         ln)
            if not m:
                continue
            acts = I._split_top(m.group(2))
            fpos = [k for k, a in enumerate(acts)
                    if I.resolve(a, {"idx": 1, "i1": 1, "i2": 2})[0] == "var"
                    and I.resolve(a, {"idx": 1, "i1": 1, "i2": 2})[1]
                    in G.SPACE_OF]
            # swap the first two field actuals of the same space
            done = False
            for a in range(len(fpos)):
                for b in range(a + 1, len(fpos)):
                    ra = I.resolve(acts[fpos[a]], {"idx": 1, "i1": 1,
                                                   "i2": 2})[1]
                    rb = I.resolve(acts[fpos[b]], {"idx": 1, "i1": 1,
                                                   "i2": 2})[1]
                    if G.SPACE_OF[ra] == G.SPACE_OF[rb] and ra != rb:
                        acts[fpos[a]], acts[fpos[b]] = \
                            acts[fpos[b]], acts[fpos[a]]
                        done = True
                        break
                if done:
                    break
            if done:
                lines[i] = m.group(1) + ",".join(acts) + m.group(3)
                n += 1
                break
        alg = "\n".join(lines) + "\n"
    elif SELFTEST == "drop":
        lines = alg.splitlines()
        for i, ln in enumerate(lines):
            m = re.match(r"(?i)^(\s*call\s+invoke[a-z0-9_]+\s*\()(.*)(\)\s*)$",
                         ln)
            if m and len(I._split_top(m.group(2))) > 1:
                lines[i] = m.group(1) + ",".join(
                    I._split_top(m.group(2))[:-1]) + m.group(3)
                n += 1
                break
        alg = "\n".join(lines) + "\n"
    elif SELFTEST == "psy":
        lines = psy.splitlines()
        for i, ln in enumerate(lines):
            m = re.match(r"(?i)^(\s*call\s+c24_\w+_code\s*\()(.*)(\)\s*)$", ln)
            if not m:
                continue
            args = I._split_top(m.group(2))
            dpos = [k for k, a in enumerate(args)
                    if a.strip().lower().endswith("_data")]
            if len(dpos) >= 2 and args[dpos[0]].strip() != \
                    args[dpos[1]].strip():
                args[dpos[0]], args[dpos[1]] = args[dpos[1]], args[dpos[0]]
                lines[i] = m.group(1) + ",".join(args) + m.group(3)
                n += 1
                break
        psy = "\n".join(lines) + "\n"
    return alg, psy, n


# ---------------------------------------------------------------- one program
def _short(msg, n=400):
    return " ".join(str(msg).split())[:n]


def _refusal_class(msg):
    last = [l for l in msg.strip().splitlines() if l.strip()]
    txt = " ".join(last[-3:]) if last else msg
    m = re.search(r"(Generation Error|Parse Error|Error|NotImplementedError|"
                  r"InternalError)[:\s].*", txt)
    s = m.group(0) if m else txt
    s = re.sub(r"'[^']*'", "'*'", s)
    return _short(s, 140)


def run_program(part, desc, cfg, env):
    """the whole pipeline for one program; returns nothing, records into
    `part`"""
    x90 = G.program_text(desc)
    invokes = [s["invoke"] for s in desc["steps"] if "invoke" in s]
    key = [desc["steps"], cfg["dm"], cfg["ranks"], cfg["annexed"]]
    cname = "dm=%d,ranks=%d,annexed=%d" % (cfg["dm"], cfg["ranks"],
                                           cfg["annexed"])
    part.count("programs")
    part.count("programs[%s]" % cname)
    part.count("invokes", len(invokes))
    wd = tempfile.mkdtemp(prefix="vf_c24_")
    try:
        # ------------------------------------------------ what the text says
        parsed = []
        ints = dict(G.INDEX_PARAMS)
        ints.update(G.INDEX_VARS)
        ints_at = []
        try:
            for st in desc["steps"]:
                if "assign" in st:
                    ints[st["assign"][0]] = st["assign"][1]
                else:
                    p = I.parse_invoke(st["invoke"])
                    for kc in p["calls"]:
                        I.roles_of(kc["kern"])
                    parsed.append(p)
                    ints_at.append(dict(ints))
        except I.TextError as err:
            part.inconclusive("harness: invoke text unreadable: %s" % err)
            part.case(key=key, nontrivial=False)
            return
        for p in parsed:
            part.count("named_invokes" if p["name"] else "unnamed_invokes")
            for kc in p["calls"]:
                k = kc["kern"].lower()
                part.count("kernel_calls")
                part.count("kernel_calls:user_kernel" if k.startswith("c24_")
                           else "kernel_calls:builtin")
                if "R" in I.roles_of(k):
                    part.count("kernel_calls:builtin_reduction")
                if "e" in I.roles_of(k):
                    part.count("kernel_calls:user_kernel_with_stencil_extent")
        for f in desc.get("forms", []):
            part.count("programs_with_form:" + f)
        clashes = label_clashes(parsed)
        prog_hz = set()
        for p, ia in zip(parsed, ints_at):
            prog_hz |= set(hazards_of(p, ia))
        if clashes:
            prog_hz.add("invoke_label_equals_generated_routine_name")
        if [h for h in prog_hz if h in DANGEROUS]:
            part.count("programs_with_a_planted_dangerous_form")
            for h in prog_hz:
                if h in DANGEROUS:
                    part.count("programs_with_dangerous_form:" + h)
        # ------------------------------------------------------- generation
        try:
            alg, psy = lfric.generate(x90, env["kdir"], bool(cfg["dm"]),
                                      bool(cfg["annexed"]),
                                      workdir=os.path.join(wd, "gen"),
                                      name=desc["name"])
            part.count("psyclone_accepted")
        except lfric.HarnessError as err:
            part.count("psyclone_refused")
            part.count("refused: " + _refusal_class(str(err)))
            if "same_text_twice_in_kernel_call" not in desc.get(
                    "forms", []) and "more than once" in str(err):
                part.count("refused_as_duplicate_although_texts_differ")
            part.case(key=key, nontrivial=False)
            return
        nmut = 0
        if SELFTEST:
            alg, psy, nmut = selftest_mutate(alg, psy)
            part.count("selftest_mutations", nmut)
        witness_base = {
            "config": cname, "x90": x90, "alg": alg, "psy": psy,
            "invokes": invokes, "desc": desc, "cfg": cfg,
            "reproduce": (
                "python -m vf.run C24 --replay <this file>; or by hand: write "
                "'x90' to prog.x90 and the files of vf.c24_gen."
                "kernel_sources() to ./kern, then PSYCLONE_CONFIG=/repo/"
                "config/psyclone.cfg psyclone -api lfric %s -d kern -oalg "
                "alg.f90 -opsy psy.f90 prog.x90 and compare the generated "
                "CALL invoke...(...) with SUBROUTINE invoke...(...); compile "
                "kernels, vf.c24_gen.UTIL, psy.f90, alg.f90 with gfortran "
                "-fimplicit-none -fcheck=all against liblfric.a" % (
                    "-dm" if cfg["dm"] else "-nodm"))}
        # --------------------------------------------------- static monitor
        calls = I.alg_calls(alg)
        routines = I.psy_routines(psy)
        static_bad = False
        if len(calls) != len(invokes):
            part.violation(dict(witness_base, **{
                "kind": "alg_layer_call_count_differs", "mechanism": None,
                "what": "%d invoke statements, %d generated calls (%s)" % (
                    len(invokes), len(calls), cname),
                "dedupe": ["callcount", desc["name"]]}))
            static_bad = True
        else:
            for k, (cl, p) in enumerate(zip(calls, parsed)):
                part.count("static_calls_checked")
                if cl[0] not in routines:
                    part.violation(dict(witness_base, **{
                        "kind": "alg_call_has_no_psy_routine",
                        "mechanism": None,
                        "what": "generated call %s has no SUBROUTINE in the "
                                "PSy layer (%s); invoke: %s" % (
                                    cl[0], cname, _short(invokes[k], 200)),
                        "dedupe": ["noroutine", p["name"] is None]}))
                    static_bad = True
                    continue
                if p["name"]:
                    want = "invoke_" + p["name"].lower()
                    if p["name"].lower().startswith("invoke_"):
                        want = p["name"].lower()
                    if cl[0] != want:
                        part.count("named_invoke_routine_name_unexpected")
                hz = hazards_of(p, ints_at[k])
                if cl[0] in clashes:
                    hz = sorted(set(hz) | {
                        "invoke_label_equals_generated_routine_name"})
                if routines[cl[0]]["copies"] > 1:
                    static_bad = True
                    part.violation(dict(witness_base, **{
                        "kind": "psy_routines_share_one_name",
                        "mechanism": mechanism(hz),
                        "what": "the PSy layer contains %d routines called "
                                "%s; generated calls: %s [%s]; invokes: %s"
                                % (routines[cl[0]]["copies"], cl[0],
                                   "; ".join("CALL %s(%s)" % (c[0], ", ".join(
                                       a.strip() for a in c[1]))
                                       for c in calls if c[0] == cl[0]),
                                   cname, " | ".join(
                                       _short(t, 150) for t, c in
                                       zip(invokes, calls) if c[0] == cl[0])),
                        "hazards": hz,
                        "dedupe": ["sharedname", hz]}))
                    continue
                try:
                    probs, stats = I.static_check(invokes[k], ints_at[k], cl,
                                                  routines[cl[0]])
                except I.TextError as err:
                    part.count("static_monitor_could_not_read")
                    part.count("static_unreadable: " + _short(err, 100))
                    continue
                part.count("static_actual_arguments_checked",
                           stats["actuals"])
                part.count("static_kernel_arguments_mapped",
                           stats["kernel_args_mapped"])
                for kind, msg in probs:
                    static_bad = True
                    part.violation(dict(witness_base, **{
                        "kind": kind,
                        "mechanism": mechanism(hz),
                        "what": "%s [%s]; invoke: %s" % (
                            msg, cname, _short(invokes[k], 300)),
                        "invoke": invokes[k], "hazards": hz,
                        "dedupe": [kind, hz]}))
        # ----------------------------------------------------- compile both
        rd = os.path.join(wd, "run")
        os.makedirs(rd)
        for fn, tx in (("psy.f90", psy), ("alg.f90", alg)):
            with open(os.path.join(rd, fn), "w") as fh:
                fh.write(tx)
        inc = list(env["inc"]) + ["-I", env["odir"]]
        rc, _, err = _run(["gfortran"] + FFLAGS + inc + ["-c", "psy.f90"], rd)
        if rc is None:
            part.inconclusive("compile watchdog")
            part.case(key=key, nontrivial=False)
            return
        if rc != 0:
            first = [l for l in err.splitlines() if "Error:" in l][:1]
            if static_bad:
                # the static monitor has already reported why (duplicate
                # dummy argument / two routines of one name)
                part.count("psy_layer_alone_does_not_compile_after_static_"
                           "violation")
            else:
                # the PSy module alone is not valid Fortran for a reason
                # that is not the call/routine agreement: counted only
                part.count("psy_layer_alone_does_not_compile_not_judged")
                part.count("psy_alone[%s]: %s" % (
                    "+".join(sorted(prog_hz)) or "none",
                    _short(" ".join(first), 120)))
            part.case(key=key, nontrivial=False)
            return
        rc, _, err = _run(["gfortran"] + FFLAGS + inc + ["-c", "alg.f90"], rd)
        if rc is None:
            part.inconclusive("compile watchdog")
            part.case(key=key, nontrivial=False)
            return
        if rc != 0:
            with open(os.path.join(rd, "ref.f90"), "w") as fh:
                fh.write(reference_alg(x90))
            rc2, _, err2 = _run(["gfortran"] + FFLAGS + inc +
                                ["-c", "ref.f90"], rd)
            if rc2 != 0:
                part.inconclusive("harness: the program without its invokes "
                                  "does not compile: " + _short(err2, 300))
                part.case(key=key, nontrivial=False)
                return
            hz = prog_hz
            part.count("alg_psy_compile_failures")
            part.violation(dict(witness_base, **{
                "kind": "alg_psy_do_not_compile_together",
                "mechanism": mechanism(hz),
                "what": "the generated algorithm layer does not compile "
                        "against the generated PSy module (%s) although the "
                        "same program without its invokes compiles: %s" % (
                            cname, _short(err, 600)),
                "stderr": err[-3000:], "hazards": sorted(hz),
                "dedupe": ["together", sorted(hz)]}))
            part.case(key=key, nontrivial=False)
            return
        part.count("programs_compiled")
        rc, _, err = _run(["gfortran"] + FFLAGS + ["psy.o", "alg.o"] +
                          list(env["objs"]) + list(env["lib"]) +
                          ["-o", "prog.exe"], rd)
        if rc != 0:
            part.inconclusive("harness: link failed: " + _short(err, 300))
            part.case(key=key, nontrivial=False)
            return
        rc, out, err = _run([os.path.join(rd, "prog.exe")], rd, timeout=180)
        if rc is None:
            part.inconclusive("run watchdog")
            part.case(key=key, nontrivial=False)
            return
        if rc != 0:
            part.count("run_failures")
            part.violation(dict(witness_base, **{
                "kind": "generated_program_fails_at_run_time",
                "mechanism": None,
                "what": "program ends with rc=%s (%s): %s" % (
                    rc, cname, _short(err, 500)),
                "stderr": err[-3000:],
                "dedupe": ["run", _short(re.sub(r"\d+", "N", err), 80)]}))
            part.case(key=key, nontrivial=False)
            return
        part.count("programs_run")
        dump = lfric.parse_dump(out)
        ntags = len(invokes) + 1
        if any(("d%d" % k) not in dump["complete"] for k in range(ntags)):
            part.inconclusive("harness: program output incomplete")
            part.case(key=key, nontrivial=False)
            return
        # ------------------------------------------------- data-flow oracle
        compared = evaluate(part, desc, cfg, dump, parsed, ints_at,
                            witness_base, nmut)
        part.case(key=key, nontrivial=compared > 0 and not static_bad,
                  sample={"config": cname, "invokes": invokes,
                          "generated_calls": [
                              "CALL %s(%s)" % (c[0], ", ".join(
                                  a.strip() for a in c[1])) for c in calls],
                          "fields_compared": compared})
    finally:
        shutil.rmtree(wd, ignore_errors=True)


def evaluate(part, desc, cfg, dump, parsed, ints_at, witness_base, nmut):
    """interpret invoke after invoke, compare with the dump after it"""
    cname = witness_base["config"]
    spaces = dump["spaces"]
    ncmp = {}
    for sp in ("W3", "W0"):
        ncmp[sp] = spaces[sp]["owned"] if cfg["dm"] else spaces[sp]["undf"]

    def load(tag):
        d = dump["dumps"][tag]
        fields = {}
        for st, sp in G.FIELDS:
            data = d["fields"][st]["data"]
            if len(data) != spaces[sp]["undf"] or any(v is None
                                                      for v in data):
                raise I.TextError("dump of %s incomplete / non-finite" % st)
            fields[st] = list(data[:ncmp[sp]])
        reals = {st: d["scalars"][st] for st in G.REALS}
        ints_ = {st: d["scalars"][st] for st in G.INTS}
        return fields, reals, ints_
    try:
        fields, reals, ints_ = load("d0")
        d0 = dump["dumps"]["d0"]["fields"]
        mult = [int(v) for v in d0["mult_w0"]["data"][:ncmp["W0"]]]
        ssz = {e: [int(v) for v in d0["ssz%d" % e]["data"][:ncmp["W3"]]]
               for e in (1, 2)}
    except (I.TextError, KeyError, TypeError) as err:
        part.inconclusive("harness: initial dump unusable: %s" % err)
        return 0
    if any(v < 1 for e in ssz for v in ssz[e]):
        part.inconclusive("harness: a compared W3 DoF has no stencil size")
        return 0
    if any(m < 1 for m in mult):
        part.inconclusive("harness: a compared W0 DoF belongs to no cell")
        return 0
    # the initial data is what the harness wrote
    for st, sp in G.FIELDS:
        p = G.PRIME_OF[st]
        for d in (0, ncmp[sp] - 1):
            df = d + 1
            if fields[st][d] != p * (df % 5 + 1) + df % 3:
                part.inconclusive("harness: initial data of %s unexpected"
                                  % st)
                return 0
    compared = 0
    for k, p in enumerate(parsed):
        text = [s["invoke"] for s in desc["steps"] if "invoke" in s][k]
        state = I.State(fields, reals, ints_, ints_at[k], mult, ssz)
        # reductions: owned DoFs with dm, every DoF without
        try:
            # nred is per space; a reduction uses the space of its field
            I.run_invoke(state, text, max(ncmp.values()))
        except I.Inexact:
            part.count("invokes_left_exact_domain_not_judged")
            try:
                fields, reals, ints_ = load("d%d" % (k + 1))
            except I.TextError:
                part.count("stopped_after_nonfinite_data")
                return compared
            continue
        except I.TextError as err:
            part.inconclusive("harness: interpreter refused its own text: %s"
                              % err)
            return compared
        try:
            ofields, oreals, oints = load("d%d" % (k + 1))
        except I.TextError:
            part.count("stopped_after_nonfinite_data")
            return compared
        hz = hazards_of(p, ints_at[k])
        bad = None
        for st, sp in G.FIELDS:
            exp, obs = state.fields[st], ofields[st]
            compared += 1
            part.count("fields_compared")
            part.count("dofs_compared", len(exp))
            if st in state.written:
                part.count("written_fields_compared")
            if exp != obs and bad is None:
                d = next(i for i in range(len(exp)) if exp[i] != obs[i])
                bad = ("field %s differs first at DoF %d of %d compared: "
                       "expected %s, observed %s" % (
                           st, d + 1, len(exp), float(exp[d]), float(obs[d])),
                       st)
        for st in G.REALS:
            part.count("scalars_compared")
            if state.reals[st] != oreals[st] and bad is None:
                bad = ("real scalar %s: expected %s, observed %s" % (
                    st, float(state.reals[st]), oreals[st] if oreals[st] is
                    None else float(oreals[st])), st)
        for st in G.INTS:
            part.count("scalars_compared")
            if state.ints[st] != oints[st] and bad is None:
                bad = ("integer scalar %s: expected %s, observed %s" % (
                    st, state.ints[st], oints[st]), st)
        part.count("invokes_compared")
        if hz:
            for h in hz:
                part.count("invokes_compared_with:" + h)
        if bad is not None:
            part.count("data_mismatches")
            part.violation(dict(witness_base, **{
                "kind": "final_data_differs_from_invoke_text",
                "mechanism": mechanism(hz),
                "what": "after invoke %d of %s (%s): %s; invoke text: %s" % (
                    k + 1, desc["name"], cname, bad[0], _short(text, 400)),
                "invoke": text, "variable": bad[1], "hazards": hz,
                "index_values": ints_at[k],
                "dedupe": ["data", hz, cfg["dm"]]}))
        # continue from what was observed so that one difference is
        # reported once
        fields, reals, ints_ = ofields, oreals, oints
    return compared


# --------------------------------------------------------------------- worker
def batch(job):
    part = Part()
    for desc in job["programs"]:
        try:
            run_program(part, desc, job["cfg"], job["env"])
        except lfric.HarnessError as err:
            part.inconclusive("harness: %s" % _short(err, 300))
    return part


def replay(ctx, witness):
    infra = lfric.build_infrastructure(ctx.tmp, jobs=8)
    env = prepare_kernels(ctx.tmp, infra)
    env.update({"inc": infra["inc"], "lib": infra["lib"]})
    part = Part()
    run_program(part, witness["desc"], witness["cfg"], env)
    ctx.merge(part.to_json())


# ------------------------------------------------------------- anchor corpus
def _inv(text, **meta):
    return {"invoke": text, "meta": meta}


def anchors():
    """hand-written programs that reach every monitor"""
    A = []
    A.append({"name": "c24_anchor_plain", "forms": ["unnamed_invoke"],
              "steps": [_inv("call invoke(X_plus_Y(f3, f1, f2))"),
                        _inv("call invoke(c24_probe_w3_type(f1, f2, f3, a),"
                             " &\n   setval_c(g1, 2.0_r_def))")]})
    A.append({"name": "c24_anchor_case",
              "forms": ["case_varied", "extra_blanks", "named_invoke",
                        "repeated_across_kernel_calls", "literal"],
              "steps": [_inv("call invoke(name=\"Mixed_Case\", &\n"
                             "   c24_probe_w3_type(F1, f2,  F3 , 1.0_r_def),"
                             " &\n   inc_X_plus_Y( f1, F2), &\n"
                             "   C24_AXPN_W3_TYPE(A, f3, F1, 2_i_def), &\n"
                             "   a_times_X(f2, a, f3))")]})
    A.append({"name": "c24_anchor_elems",
              "forms": ["array_element", "index_by_variable",
                        "index_by_parameter", "derived_type_component",
                        "named_invoke"],
              "steps": [{"assign": ["idx", 2]},
                        _inv("call invoke(setval_X(fa(idx), fa(1)), &\n"
                             "   X_plus_Y(state%f, fa(2), FA( i1 )), &\n"
                             "   c24_probe_w3_type(state%fa(2), state % f, "
                             "fa_1, state%s), &\n   name='elems')"),
                        {"assign": ["idx", 1]},
                        _inv("call invoke(inc_aX_plus_Y(sa(2), fa(idx), "
                             "state_f), &\n   X_minus_Y(cols(2)%f, "
                             "cols(1)%f, state%fa(i2)))")]})
    A.append({"name": "c24_anchor_w0",
              "forms": ["derived_type_component", "literal",
                        "unnamed_invoke"],
              "steps": [_inv("call invoke(c24_inc_w0_type(g1, g2, "
                             "1.0_r_def), &\n   c24_inc_w0_type(ga(2), G1, "
                             "b), &\n   sum_X(a, g1), &\n"
                             "   X_minus_Y(cols(1)%g, state%g, ga(1)))"),
                        _inv("call invoke(a_plus_X(g3, a, cell))")]})
    A.append({"name": "c24_anchor_stencil",
              "forms": ["stencil_extent", "literal", "named_invoke"],
              "steps": [_inv("call invoke(c24_sten_w3_type(f1, f2, e2, n), &\n"
                             "   c24_sten_w3_type(f3, f1, 1, state%e), &\n"
                             "   c24_sten_w3_type(fa(1), F2, E2, 2_i_def), "
                             "&\n   name='stencils')"),
                        _inv("call invoke(c24_sten_w3_type(state%f, f3, e1, "
                             "ea(2)))")]})
    return A


def danger_anchors():
    """one minimal program per argument form that the pinned PSyclone is
    known (by this check) to mishandle; their hazard-free twin is
    c24_anchor_stencil / c24_anchor_plain"""
    D = []
    D.append({"name": "c24_danger_extent_struct",
              "forms": ["stencil_extent_struct"], "danger": "extent_struct",
              "steps": [_inv("call invoke(c24_sten_w3_type(f1, f2, state%e, "
                             "n))")]})
    D.append({"name": "c24_danger_extent_struct2",
              "forms": ["stencil_extent_struct"], "danger": "extent_struct",
              "steps": [_inv("call invoke(c24_sten_w3_type(f1, f2, state%n, "
                             "n))")]})
    D.append({"name": "c24_danger_extent_array",
              "forms": ["stencil_extent_array"], "danger": "extent_array",
              "steps": [_inv("call invoke(c24_sten_w3_type(f1, f2, ea(2), "
                             "n))")]})
    D.append({"name": "c24_danger_extent_dup",
              "forms": ["stencil_extent_dup"], "danger": "extent_dup",
              "steps": [_inv("call invoke(c24_sten_w3_type(f1, f2, e2, "
                             "e2))")]})
    D.append({"name": "c24_danger_label",
              "forms": ["label_equals_generated_name"],
              "danger": "label_clash",
              "steps": [_inv("call invoke(setval_c(f1, 1.0_r_def), "
                             "setval_c(f2, 2.0_r_def))"),
                        _inv("call invoke(setval_c(f3, a), "
                             "name=\"invoke_0\")")]})
    return D


# ----------------------------------------------------------------------- main
def main(ctx):
    import random
    ctx.rule = (
        "case = one generated LFRic algorithm program (1-4 invokes of 1-4 "
        "built-ins / probe kernels incl. a stencil kernel whose extent is an "
        "extra invoke argument, arguments repeated across kernel calls and, "
        "under different spellings, within one call, case- and blank-varied, "
        "array elements indexed by literal / parameter / variable, "
        "derived-type components, literals, named and unnamed invokes; one "
        "program in nine carries one planted known-dangerous form) under one "
        "configuration (distributed memory off / "
        "on as rank 0 of 2 / on as 1 rank; COMPUTE_ANNEXED_DOFS); "
        "non-trivial = both generated layers compiled together, the program "
        "ran and at least one field was compared with the interpretation of "
        "the invoke text; distinct = distinct (program steps, configuration)")
    t0 = time.time()
    try:
        infra = lfric.build_infrastructure(ctx.tmp, jobs=16)
        env = prepare_kernels(ctx.tmp, infra)
    except lfric.HarnessError as err:
        ctx.inconclusive("LFRic infrastructure / probe kernels did not "
                         "build: %s" % err)
        return
    env.update({"inc": infra["inc"], "lib": infra["lib"]})
    ctx.extra["infrastructure_build_s"] = round(time.time() - t0, 1)
    cfgs = [{"dm": 0, "ranks": 1, "annexed": 0},
            {"dm": 1, "ranks": 2, "annexed": 0},
            {"dm": 1, "ranks": 2, "annexed": 1},
            {"dm": 1, "ranks": 1, "annexed": 0}]
    nprog = 44 if ctx.quick else 1040
    per_job = 3 if ctx.quick else 13
    if SELFTEST:
        nprog, per_job = 12, 2
    if os.environ.get("VF_C24_NPROG"):          # development aid
        nprog = int(os.environ["VF_C24_NPROG"])
    jobs = []
    # anchors: two configurations
    anc = anchors()
    for ci in (0, 1):
        for a0 in range(0, len(anc), 2):
            progs = []
            for a in anc[a0:a0 + 2]:
                d = dict(a)
                d["ranks"] = cfgs[ci]["ranks"]
                progs.append(d)
            jobs.append({"cfg": cfgs[ci], "programs": progs, "env": env})
    dan = danger_anchors()
    for a0 in range(0, len(dan), 2):
        progs = []
        for a in dan[a0:a0 + 2]:
            d = dict(a)
            d["ranks"] = cfgs[a0 // 2]["ranks"]
            progs.append(d)
        jobs.append({"cfg": cfgs[a0 // 2], "programs": progs, "env": env})
    k = 0
    while k < nprog:
        ji = len(jobs)
        cfg = cfgs[[0, 1, 0, 2, 1, 3][ji % 6]]
        progs = []
        for _ in range(min(per_job, nprog - k)):
            rnd = random.Random(ctx.rng("prog", k).random())
            style = "plain" if k % 11 == 10 else None
            # one program in nine carries ONE planted dangerous form
            danger = G.DANGEROUS[(k // 9) % len(G.DANGEROUS)] \
                if (k % 9 == 4 and style is None) else None
            d = G.random_program(rnd, name="c24_p%04d" % k,
                                 ranks=cfg["ranks"], style=style,
                                 danger=danger)
            progs.append(d)
            k += 1
        jobs.append({"cfg": cfg, "programs": progs, "env": env})
    ctx.count("jobs", len(jobs))
    for res in ctx.pmap("vf.checks.c24", "batch", jobs,
                        timeout=1500 if ctx.quick else 3400):
        if res:
            ctx.merge(res)
    c = ctx.counters
    if c.get("fields_compared", 0) == 0:
        ctx.inconclusive("no field was ever compared with the interpretation")
    if c.get("static_calls_checked", 0) == 0:
        ctx.inconclusive("the static call/routine monitor was never reached")
    if c.get("written_fields_compared", 0) == 0:
        ctx.inconclusive("no field written by an invoke was compared")
    ctx.assumptions += [
        "the stub LFRic infrastructure of the repository (test support code) "
        "and gfortran 12 are trusted; halo exchange / global sum are no-ops "
        "there, so with distributed memory only owned DoFs of one rank are "
        "compared (reductions: that rank's contribution)",
        "the interpreter of the invoke text (vf/c24_interp.py) encodes the "
        "user-guide formula of each built-in used and the hand-written probe "
        "kernels' formulas; all data stay exactly representable (each "
        "arithmetic step is checked; an invoke that leaves the exact domain "
        "is counted and not judged)",
        "a program PSyclone refuses (e.g. the same argument text twice in "
        "one kernel call) is counted, not judged",
        "a PSy module that is not valid Fortran on its own (seen: a field "
        "named f2_proxy next to f2) says nothing about call/routine "
        "agreement: counted (psy_layer_alone_does_not_compile_not_judged), "
        "not judged here",
    ]
