"""C19 helper: generator of tangent-linear kernels inside PSyAD's documented
subset, their Fortran text, a Fortran driver that tabulates the matrices of
the TL and adjoint kernels, and a small static model of the loops (trip
counts, the documented reversal formula) used to label hazards.

A kernel spec is a JSON-able dict:

  {"kind": "r_def" | "dp" | "star8",
   "arrays":  [{"name", "lb", "active"}...],          all arguments
   "scalars": [{"name", "active", "local"}...],
   "pre":  [[name, text]...]        passive assignments at routine start
   "body": [stmt...],
   "invalid": None | "reason"       deliberately outside the subset}

  stmt = ["assign", ref, [term...]]       empty term list == zero
       | ["if", cond_text, [stmt...], [stmt...] | None]
       | ["do", var, bexpr, bexpr, step | None, [stmt...]]
       | ["raw", text]                    only for deliberately invalid cases
  ref  = ["s", name] | ["v", name, var, off] | ["c", name, k]
  term = ["t", sign, coef, ref, form] | ["g", sign, coef, [[sign, ref]...]]
  coef = None | ["lit", text, value] | ["p", name] | ["w", name, var, off]
       | ["mul", coef, coef]
  bexpr= ["lit", k] | ["n"] | ["add", bexpr, k] | ["sub", bexpr, k]
       | ["div", bexpr, k]
"""

MOD_NAME = "tl_k_mod"
SUB_NAME = "tl_k_code"
ADJ_MOD = "adj_k_mod"
ADJ_SUB = "adj_k_code"

GEN_SIZES = [0, 1, 2, 3, 4, 5, 6, 20]
STEPS = [None] * 7 + [1, -1, -1, -1, -1, 2, 2, 2, -2, -2, 3, 3, -3, -3]


# ------------------------------------------------------------ integer model
def tdiv(a, b):
    q = abs(a) // abs(b)
    return q if (a >= 0) == (b >= 0) else -q


def fmod(a, p):
    return a - tdiv(a, p) * p


def beval(e, n):
    k = e[0]
    if k == "lit":
        return e[1]
    if k == "n":
        return n
    if k == "add":
        return beval(e[1], n) + e[2]
    if k == "sub":
        return beval(e[1], n) - e[2]
    if k == "div":
        return tdiv(beval(e[1], n), e[2])
    raise ValueError(e)


def btext(e):
    k = e[0]
    if k == "lit":
        return str(e[1])
    if k == "n":
        return "n"
    if k == "add":
        return "%s + %d" % (btext(e[1]), e[2])
    if k == "sub":
        return "%s - %d" % (btext(e[1]), e[2])
    if k == "div":
        inner = btext(e[1])
        if e[1][0] in ("add", "sub"):
            inner = "(" + inner + ")"
        return "%s / %d" % (inner, e[2])
    raise ValueError(e)


def trips(lo, hi, step):
    return max(0, tdiv(hi - lo + step, step))


def iterations(lo, hi, step):
    return [lo + k * step for k in range(trips(lo, hi, step))]


def walk(body):
    for s in body:
        yield s
        if s[0] == "if":
            yield from walk(s[2])
            if s[3]:
                yield from walk(s[3])
        elif s[0] == "do":
            yield from walk(s[5])


def loop_hazards(spec, n):
    """Facts about the loops of the SOURCE kernel at size n, computed from
    the source AST and the reversal rule in the PSyAD user guide
    (start' = stop - MOD(stop - start, step), stop' = start, step' = -step).
    Nothing here looks at PSyAD's output.

    zero_trip_nonunit_step: a loop with |step| > 1 that runs zero times at
        this n although the documented reversed loop would run (the
        documented formula itself is only right for loops that run).
    start_is_sum_nonunit_step: a loop with |step| > 1 whose start expression
        is a top-level sum/difference 'x +- c' and for which
        MOD(stop - x +- c, step) (the expression read without brackets
        around start) differs from MOD(stop - (x +- c), step).
    """
    out = set()
    for s in walk(spec["body"]):
        if s[0] != "do":
            continue
        step = 1 if s[4] is None else s[4]
        if abs(step) <= 1:
            continue
        lo, hi = beval(s[2], n), beval(s[3], n)
        t = trips(lo, hi, step)
        lo2 = hi - fmod(hi - lo, step)
        if t == 0 and trips(lo2, lo, -step) > 0:
            out.add("zero_trip_nonunit_step")
        if s[2][0] in ("add", "sub"):
            x = beval(s[2][1], n)
            c = s[2][2]
            wrong = hi - x + c if s[2][0] == "add" else hi - x - c
            if fmod(wrong, step) != fmod(hi - lo, step):
                out.add("start_is_sum_nonunit_step")
    return sorted(out)


def term_refs(terms):
    for t in terms:
        if t[0] == "t":
            yield t[3]
        else:
            for _, r in t[3]:
                yield r


def _alias_in(st, env):
    refs = [st[1]] + list(term_refs(st[2]))
    for nm in set(r[1] for r in refs if r[0] in ("v", "c")):
        vs = [r for r in refs if r[0] == "v" and r[1] == nm]
        cs = [r for r in refs if r[0] == "c" and r[1] == nm]
        for v in vs:
            for c in cs:
                if any(i + v[3] == c[2] for i in env.get(v[2], [])):
                    return True
    return False


def coef_parts(c):
    """(numeric factor, sorted tuple of passive factors) of a coefficient."""
    if c is None:
        return 1.0, ()
    if c[0] == "lit":
        return c[2], ()
    if c[0] == "p":
        return 1.0, (c[1],)
    if c[0] == "w":
        return 1.0, (ref_text(["v", c[1], c[2], c[3]]),)
    if c[0] == "mul":
        a, ka = coef_parts(c[1])
        b, kb = coef_parts(c[2])
        return a * b, tuple(sorted(ka + kb))
    raise ValueError(c)


def self_coefficient(st):
    """Net coefficient of the LHS element on the RHS of an assignment, as a
    map passive-factor-tuple -> number (zero sums dropped)."""
    net = {}
    for t in st[2]:
        val, key = coef_parts(t[2])
        if t[0] == "t":
            if t[3] == st[1]:
                net[key] = net.get(key, 0.0) + t[1] * val
        else:
            for sg, r in t[3]:
                if r == st[1]:
                    net[key] = net.get(key, 0.0) + t[1] * sg * val
    return {k: v for k, v in net.items() if v != 0.0}


def negated_self(st):
    """AST fact: once like terms are collected, the RHS of the assignment
    contains the LHS element with a negative coefficient (A = ... - x*A ...,
    x a positive literal possibly times passive factors) next to at least one
    other term."""
    if st[0] != "assign":
        return False
    if not any(v < 0 for v in self_coefficient(st).values()):
        return False
    others = [r for r in term_refs(st[2]) if r != st[1]]
    return bool(others)


def flip_negative_self(st):
    """Neutralise negated_self: flip the sign of every self term belonging
    to a passive-factor class whose collected coefficient is negative."""
    neg = set(k for k, v in self_coefficient(st).items() if v < 0)
    for t in st[2]:
        _, key = coef_parts(t[2])
        if key not in neg:
            continue
        if t[0] == "t":
            if t[3] == st[1]:
                t[1] = -t[1]
        else:
            for pair in t[3]:
                if pair[1] == st[1]:
                    pair[0] = -pair[0]


def hazards(spec, n):
    """All hazard facts of the source kernel that are live at size n (sorted
    list of names); computed from the source AST only."""
    out = set(loop_hazards(spec, n))

    def rec(body, env):
        for s in body:
            if s[0] == "do":
                if s[4] not in (None, 1) and s[2][0] == "lit" and s[2][1] < 0:
                    # start is a negative literal and the step is not the
                    # literal 1: the reversal needs MOD(stop - start, step)
                    out.add("negative_literal_loop_start")
                step = 1 if s[4] is None else s[4]
                e2 = dict(env)
                e2[s[1]] = iterations(beval(s[2], n), beval(s[3], n), step)
                rec(s[5], e2)
            elif s[0] == "if":
                rec(s[2], env)
                if s[3]:
                    rec(s[3], env)
            elif s[0] == "assign":
                if negated_self(s):
                    out.add("negative_self_coefficient")
                if _alias_in(s, env):
                    out.add("alias_const_vs_loop_subscript")
    rec(spec["body"], {})
    # repaired in /repo (fix: commits 79f0ec7, 7045abb): these shapes are
    # still generated but are no longer excuses for a failure
    out -= FIXED_HAZARDS
    return sorted(out)


FIXED_HAZARDS = {"start_is_sum_nonunit_step", "negative_literal_loop_start",
                 "negative_self_coefficient"}


def hazard_families(spec, sizes):
    fam = set()
    for n in sizes:
        for h in hazards(spec, n):
            fam.add({"zero_trip_nonunit_step": "L",
                     "start_is_sum_nonunit_step": "L",
                     "negative_self_coefficient": "S",
                     "negative_literal_loop_start": "N",
                     "alias_const_vs_loop_subscript": "A"}[h])
    return fam


def neutralise(spec, families, sizes):
    """Returns a copy of spec in which the hazards of the given families are
    removed: L -> hazardous loops get step +-1; S -> self terms with a negative
    collected coefficient get their sign flipped; A -> the offending constant-subscript
    terms are dropped; N -> a negative literal loop start becomes 0."""
    import copy
    sp = copy.deepcopy(spec)
    for s in walk(sp["body"]):
        if "L" in families and s[0] == "do" and s[4] is not None \
                and abs(s[4]) > 1:
            probe = dict(sp, body=[["do", s[1], s[2], s[3], s[4], []]])
            if any(loop_hazards(probe, n) for n in sizes):
                s[4] = -1 if s[4] < 0 else None
        if "N" in families and s[0] == "do" and s[2][0] == "lit" \
                and s[2][1] < 0:
            s[2] = ["lit", 0]
        if "S" in families and negated_self(s):
            flip_negative_self(s)
        if "A" in families and s[0] == "assign":
            arrs = set(r[1] for r in [s[1]] + list(term_refs(s[2]))
                       if r[0] == "v")
            if s[1][0] == "v":
                s[2][:] = [t for t in s[2] if not (
                    t[0] == "t" and t[3][0] == "c" and t[3][1] in arrs)]
    if "A" in families:
        sp.pop("planted", None)
    return sp


# ------------------------------------------------------------------ printing
def ref_text(r):
    if r[0] == "s":
        return r[1]
    if r[0] == "c":
        return "%s(%d)" % (r[1], r[2])
    var, off = r[2], r[3]
    if off == 0:
        return "%s(%s)" % (r[1], var)
    return "%s(%s %s %d)" % (r[1], var, "+" if off > 0 else "-", abs(off))


def coef_text(c):
    if c[0] == "lit":
        return c[1]
    if c[0] == "p":
        return c[1]
    if c[0] == "w":
        return ref_text(["v", c[1], c[2], c[3]])
    if c[0] == "mul":
        return coef_text(c[1]) + " * " + coef_text(c[2])
    raise ValueError(c)


def term_text(t):
    """Returns (sign, text-without-sign)."""
    if t[0] == "t":
        _, sign, coef, ref, form = t
        x = ref_text(ref)
        if coef is None:
            return sign, x
        c = coef_text(coef)
        if form == "xc":
            return sign, "%s * %s" % (x, c)
        if form == "x/c":
            # coef must be a literal power of two; c here is its inverse text
            return sign, "%s / %s" % (x, coef[3])
        return sign, "%s * %s" % (c, x)
    _, sign, coef, inner = t
    txt = ""
    for k, (sg, r) in enumerate(inner):
        if k == 0:
            txt += ("-" if sg < 0 else "") + ref_text(r)
        else:
            txt += (" - " if sg < 0 else " + ") + ref_text(r)
    if coef is None:
        return sign, "(%s)" % txt
    return sign, "%s * (%s)" % (coef_text(coef), txt)


def rhs_text(terms, zero):
    if not terms:
        return zero
    out = ""
    for k, t in enumerate(terms):
        sg, txt = term_text(t)
        if k == 0:
            out = ("-" if sg < 0 else "") + txt
        else:
            out += (" - " if sg < 0 else " + ") + txt
    return out


def body_text(body, ind, zero):
    lines = []
    pad = "  " * ind
    for s in body:
        if s[0] == "assign":
            lines.append("%s%s = %s" % (pad, ref_text(s[1]),
                                        rhs_text(s[2], zero)))
        elif s[0] == "raw":
            lines.append(pad + s[1])
        elif s[0] == "if":
            lines.append("%sif (%s) then" % (pad, s[1]))
            lines += body_text(s[2], ind + 1, zero)
            if s[3]:
                lines.append(pad + "else")
                lines += body_text(s[3], ind + 1, zero)
            lines.append(pad + "end if")
        elif s[0] == "do":
            hdr = "%sdo %s = %s, %s" % (pad, s[1], btext(s[2]), btext(s[3]))
            if s[4] is not None:
                hdr += ", %d" % s[4]
            lines.append(hdr)
            lines += body_text(s[5], ind + 1, zero)
            lines.append(pad + "end do")
    return lines


def real_decl(spec):
    return {"r_def": "real(kind=r_def)", "dp": "double precision",
            "star8": "real*8"}[spec["kind"]]


def arg_names(spec):
    """Argument order: n, arrays and scalars as listed (locals excluded)."""
    names = ["n"]
    names += [a["name"] for a in spec["arrays"]]
    names += [s["name"] for s in spec["scalars"] if not s.get("local")]
    return names


def active_names(spec):
    return ([a["name"] for a in spec["arrays"] if a["active"]] +
            [s["name"] for s in spec["scalars"] if s["active"]])


def loop_vars(spec):
    return sorted(set(s[1] for s in walk(spec["body"]) if s[0] == "do"))


def kernel_text(spec):
    rd = real_decl(spec)
    zero = {"r_def": "0.0_r_def", "dp": "0.0d0", "star8": "0.0d0"}[
        spec["kind"]]
    L = ["module " + MOD_NAME, "  implicit none"]
    if spec["kind"] == "r_def":
        L.append("  integer, parameter :: r_def = 8")
    L += ["contains",
          "subroutine %s(%s)" % (SUB_NAME, ", ".join(arg_names(spec))),
          "  integer, intent(in) :: n"]
    for a in spec["arrays"]:
        dim = "n" if a["lb"] == 1 else "%d:n" % a["lb"]
        L.append("  %s, dimension(%s), intent(%s) :: %s" % (
            rd, dim, "inout" if a["active"] else "in", a["name"]))
    for s in spec["scalars"]:
        if s.get("local"):
            continue
        L.append("  %s, intent(%s) :: %s" % (
            rd, "inout" if s["active"] else "in", s["name"]))
    for s in spec["scalars"]:
        if s.get("local"):
            L.append("  %s :: %s" % (rd, s["name"]))
    for v in loop_vars(spec) or ["i"]:
        L.append("  integer :: %s" % v)
    for name, text in spec.get("pre", []):
        L.append("  %s = %s" % (name, text))
    L += body_text(spec["body"], 1, zero)
    L += ["end subroutine " + SUB_NAME, "end module " + MOD_NAME]
    return "\n".join(L) + "\n"


# ----------------------------------------------------------------- generator
LITS = [("2.0", 2.0, "0.5"), ("2.0", 2.0, "0.5"), ("0.5", 0.5, "2.0"),
        ("4.0", 4.0, "0.25"), ("3.0", 3.0, None), ("0.25", 0.25, "4.0"),
        ("1.0", 1.0, "1.0")]


class Gen:
    def __init__(self, rnd, plant=None):
        self.rnd = rnd
        self.plant = plant
        self.feat = set()

    def lit_coef(self, spec):
        text, val, inv = self.rnd.choice(LITS)
        style = self.rnd.choice(["d0", "d0", "kind", "plain"])
        if style == "kind" and spec["kind"] != "r_def":
            style = "d0"

        def sp(t):
            return {"d0": t + "d0", "kind": t + "_r_def", "plain": t}[style]
        return ["lit", sp(text), val, sp(inv) if inv else None]

    def coef(self, spec, ctx):
        r = self.rnd.random()
        if r < 0.30:
            return None
        if r < 0.62:
            return self.lit_coef(spec)
        pas = [["p", s["name"]] for s in spec["scalars"]
               if not s["active"] and
               (not s.get("local") or s["name"] in ctx["pdefined"])]
        if ctx["vars"]:
            for a in spec["arrays"]:
                if not a["active"]:
                    v = self.rnd.choice(ctx["vars"])
                    pas.append(["w", a["name"], v,
                                self.rnd.choice([0, 0, 0, 1, -1])])
        if not pas:
            return self.lit_coef(spec)
        c = self.rnd.choice(pas)
        if c[0] == "w":
            self.feat.add("passive_array_coef")
            ctx["uses"].append((c[1], c[2], c[3]))
        if r < 0.72:
            return ["mul", self.lit_coef(spec), c]
        return c

    def pick_ref(self, spec, ctx, mode):
        """mode: dict array-name -> ('v', var) | ('c',) chosen per statement
        so that two textually different subscripts of one array in one
        statement never denote the same element."""
        cands = []
        for s in spec["scalars"]:
            if s["active"] and (not s.get("local") or ctx["tmp_defined"]):
                cands.append(["s", s["name"]])
        arrs = [a for a in spec["arrays"] if a["active"]]
        # arrays are preferred inside loops
        reps = 3 if ctx["vars"] else 1
        for a in arrs:
            for _ in range(reps):
                cands.append(["a", a["name"]])
        pick = self.rnd.choice(cands)
        if pick[0] == "s":
            return pick
        name = pick[1]
        if name not in mode:
            if ctx["vars"] and self.rnd.random() < 0.92:
                mode[name] = ("v", self.rnd.choice(ctx["vars"][-2:]))
            else:
                mode[name] = ("c",)
        if mode[name][0] == "v":
            off = self.rnd.choice([0, 0, 0, 0, 1, -1, 1, -1, 2, -2])
            if off:
                self.feat.add("offset_subscript")
            ctx["uses"].append((name, mode[name][1], off))
            return ["v", name, mode[name][1], off]
        lb = [a["lb"] for a in spec["arrays"] if a["name"] == name][0]
        self.feat.add("constant_subscript")
        return ["c", name, self.rnd.choice([lb, lb, 1, 1, 2, 3])]

    def assign(self, spec, ctx, lhs=None, allow_self=True):
        mode = {}
        if lhs is None:
            lhs = self.pick_ref(spec, ctx, mode)
        elif lhs[0] == "v":
            mode[lhs[1]] = ("v", lhs[2])
        elif lhs[0] == "c":
            mode[lhs[1]] = ("c",)
        r = self.rnd.random()
        nterms = 0 if r < 0.08 else self.rnd.choice([1, 1, 2, 2, 2, 3, 4])
        terms = []
        if nterms == 0:
            self.feat.add("zeroing")
        have_self = False
        for k in range(nterms):
            sign = -1 if self.rnd.random() < 0.3 else 1
            if sign < 0:
                self.feat.add("subtraction")
            if allow_self and self.rnd.random() < (0.45 if k == 0 else 0.15):
                ref = list(lhs)
                have_self = True
            else:
                for _ in range(6):
                    ref = self.pick_ref(spec, ctx, mode)
                    if not (not allow_self and ref == lhs):
                        break
                if not allow_self and ref == lhs:
                    continue
                if ref == lhs:
                    have_self = True
            if self.rnd.random() < 0.08 and nterms <= 3:
                # grouped term c*(x + y): needs PSyAD's expansion step
                other = self.pick_ref(spec, ctx, mode)
                if not allow_self and other == lhs:
                    other = ref
                if other == lhs:
                    have_self = True
                self.feat.add("bracketed_sum")
                terms.append(["g", sign, self.coef(spec, ctx),
                              [[1, ref], [self.rnd.choice([1, -1]), other]]])
                continue
            coef = self.coef(spec, ctx)
            form = "cx"
            if coef is not None:
                form = self.rnd.choice(["cx", "cx", "xc"])
                if coef[0] == "lit" and coef[3] and self.rnd.random() < 0.25:
                    form = "x/c"
                    self.feat.add("division_by_literal")
            terms.append(["t", sign, coef, ref, form])
        self.rnd.shuffle(terms)
        self.feat.add("increment" if have_self else "overwrite")
        if any(t[0] == "t" and t[3] == lhs and t[1] < 0 for t in terms):
            self.feat.add("negated_self_term")
        return ["assign", lhs, terms]

    def cond(self, spec, ctx):
        pool = ["p > 0.5d0", "p > 0.5d0", "n > 3", "mod(n, 2) == 0",
                ".not. (p > 0.5d0)", "p > 0.5d0 .and. n > 2"]
        names = [s["name"] for s in spec["scalars"]]
        if "q" in names:
            pool += ["q < 0.5d0", "p < q", "q < 0.5d0 .or. n < 2"]
        for v in ctx["vars"]:
            pool += ["%s > 2" % v, "mod(%s, 2) == 1" % v, "%s < n" % v]
            for a in spec["arrays"]:
                if not a["active"]:
                    pool.append("%s(%s) > 0.5d0" % (a["name"], v))
        c = self.rnd.choice(pool)
        for a in spec["arrays"]:
            if not a["active"] and c.startswith(a["name"] + "("):
                v = c[len(a["name"]) + 1:].split(")")[0]
                ctx["uses"].append((a["name"], v, 0))
        if any(c.startswith(v + " ") or c.startswith("mod(%s," % v)
               for v in ctx["vars"]):
            self.feat.add("if_on_loop_variable")
        return c

    def block(self, spec, ctx, nst, depth):
        body = []
        ctx = dict(ctx)   # tmp_defined set here is local to this block
        for _ in range(nst):
            r = self.rnd.random()
            tmp = [s for s in spec["scalars"]
                   if s.get("local") and s["active"]]
            if tmp and r < 0.18:
                # define the local active temporary, then it may be read
                lhs = ["s", tmp[0]["name"]]
                was = ctx["tmp_defined"]
                ctx["tmp_defined"] = False
                st = self.assign(spec, ctx, lhs=lhs, allow_self=False)
                if not st[2]:
                    ctx["tmp_defined"] = was
                    continue
                body.append(st)
                ctx["tmp_defined"] = True
                self.feat.add("local_active_scalar")
                continue
            if depth > 0 and r < 0.40 and len(ctx["vars"]) < 2:
                body.append(self.loop(spec, ctx, depth))
            elif depth > 0 and r < 0.55:
                self.feat.add("if_block")
                cnd = self.cond(spec, ctx)
                then = self.block(spec, ctx, self.rnd.choice([1, 1, 2, 3]),
                                  depth - 1)
                els = None
                if self.rnd.random() < 0.5:
                    self.feat.add("else_branch")
                    els = self.block(spec, ctx, self.rnd.choice([1, 1, 2]),
                                     depth - 1)
                if then:
                    body.append(["if", cnd, then, els])
            else:
                body.append(self.assign(spec, ctx))
        return body

    def loop(self, spec, ctx, depth):
        var = "i" if not ctx["vars"] else "j"
        if ctx["vars"]:
            self.feat.add("nested_loop")
        sub = dict(ctx)
        sub["vars"] = ctx["vars"] + [var]
        sub["uses"] = []
        body = self.block(spec, sub, self.rnd.choice([1, 1, 2, 2, 3]),
                          depth - 1)
        if not body:
            body = [self.assign(spec, sub)]
        lbs = {a["name"]: a["lb"] for a in spec["arrays"]}
        lo_min, maxoff = None, 0
        for name, v, off in sub["uses"]:
            if v == var:
                need = lbs[name] - off
                lo_min = need if lo_min is None else max(lo_min, need)
                maxoff = max(maxoff, off)
            else:
                ctx["uses"].append((name, v, off))
        if lo_min is None:
            lo_min = 1
        step = self.rnd.choice(STEPS)
        r = self.rnd.random()
        if r < 0.70:
            low = ["lit", lo_min + self.rnd.choice([0, 0, 0, 0, 1, 2])]
        elif r < 0.85 and lo_min <= 1:
            low = ["add", ["div", ["n"], 2], 1]
            self.feat.add("bound_n_div_2")
        elif r < 0.93 and lo_min <= 1:
            low = ["lit", lo_min + 1]
        else:
            low = ["add", ["lit", lo_min], 1] if self.rnd.random() < 0.5 \
                else ["lit", lo_min]
        r = self.rnd.random()
        c = maxoff + self.rnd.choice([0, 0, 0, 0, 1])
        if r < 0.72:
            high = ["sub", ["n"], c] if c else ["n"]
        elif r < 0.82:
            high = ["lit", self.rnd.choice([3, 4, 5])]
            self.feat.add("literal_upper_bound")
        elif r < 0.92:
            high = ["div", ["n"], 2] if self.rnd.random() < 0.5 else \
                ["div", ["add", ["n"], 1], 2]
            self.feat.add("bound_n_div_2")
        else:
            high = ["sub", ["n"], c + 1]
        if step is not None and step < 0:
            start, stop = high, low
            self.feat.add("negative_step")
        else:
            start, stop = low, high
        if step is not None and abs(step) > 1:
            self.feat.add("step_%d" % step)
        if step == 1:
            self.feat.add("explicit_unit_step")
        return ["do", var, start, stop, step, body]

    def kernel(self):
        rnd = self.rnd
        spec = {"kind": rnd.choice(["r_def"] * 3 + ["dp", "star8"]),
                "arrays": [], "scalars": [], "pre": [], "body": [],
                "invalid": None}
        for name in ["a", "b", "c"][:rnd.choice([1, 2, 2, 2, 3])]:
            spec["arrays"].append({"name": name, "active": True,
                                   "lb": rnd.choice([1, 1, 1, 0])})
        if any(a["lb"] == 0 for a in spec["arrays"]):
            self.feat.add("array_lower_bound_0")
        if rnd.random() < 0.5:
            spec["arrays"].append({"name": "w", "active": False, "lb": 1})
        for name in ["s", "t"][:rnd.choice([0, 1, 1, 2])]:
            spec["scalars"].append({"name": name, "active": True,
                                    "local": False})
            self.feat.add("active_scalar")
        spec["scalars"].append({"name": "p", "active": False, "local": False})
        if rnd.random() < 0.5:
            spec["scalars"].append({"name": "q", "active": False,
                                    "local": False})
        if rnd.random() < 0.3:
            spec["scalars"].append({"name": "tmp", "active": True,
                                    "local": True})
        pdefined = set()
        if rnd.random() < 0.15:
            spec["scalars"].append({"name": "r", "active": False,
                                    "local": True})
            spec["pre"].append(["r", rnd.choice(
                ["2.0d0 * p", "p + p", "p * p", "p - 1.0d0"])])
            pdefined.add("r")
            self.feat.add("passive_local_coefficient")
        ctx = {"vars": [], "uses": [], "tmp_defined": False,
               "pdefined": pdefined}
        for _ in range(20):
            spec["body"] = self.block(spec, ctx, rnd.choice([2, 3, 3, 4, 5]),
                                      3)
            if any(s[0] == "assign" for s in walk(spec["body"])):
                break
        return spec


def make_invalid(rnd, spec):
    """Deliberately leave PSyAD's subset: PSyAD is expected to refuse.  These
    cases exercise the refusal path; an acceptance is counted, never judged
    (the property only speaks about linear kernels)."""
    arr = [a["name"] for a in spec["arrays"] if a["active"]]
    a0 = arr[0]
    a1 = arr[-1]
    which = rnd.choice(["product", "constant", "active_condition",
                        "passive_lhs", "denominator", "active_bound"])
    if which == "product":
        st = ["raw", "%s(1) = %s(1) * %s(2)" % (a0, a0, a1)]
    elif which == "constant":
        st = ["raw", "%s(1) = %s(2) + 1.0d0" % (a0, a1)]
    elif which == "active_condition":
        st = ["raw", "if (%s(1) > 0.0d0) %s(2) = 0.0d0" % (a0, a0)]
    elif which == "passive_lhs":
        spec["scalars"].append({"name": "z", "active": False, "local": True})
        st = ["raw", "z = %s(1)" % a0]
    elif which == "denominator":
        st = ["raw", "%s(1) = p / %s(2)" % (a0, a1)]
    else:
        if not any(s["name"] == "s" for s in spec["scalars"]):
            spec["scalars"].append({"name": "s", "active": True,
                                    "local": False})
        st = ["raw", "do i = 1, int(s)\n    %s(i) = 0.0d0\n  end do" % a0]
    spec["body"].insert(rnd.randrange(len(spec["body"]) + 1), st)
    spec["invalid"] = which
    return spec


def plant_alias(rnd, spec):
    """Plant one statement inside a unit-step loop whose LHS a(i) and a RHS
    term a(k) (constant k) coincide at iteration i == k."""
    arr = [a for a in spec["arrays"] if a["active"]][0]
    k = rnd.choice([2, 3])
    coefs = [["lit", "2.0d0", 2.0, "0.5d0"], None, ["lit", "0.5d0", 0.5,
                                                  "2.0d0"]]
    terms = [["t", 1, rnd.choice(coefs), ["c", arr["name"], k], "cx"]]
    if rnd.random() < 0.5:
        terms.insert(0, ["t", 1, ["lit", "2.0d0", 2.0, "0.5d0"],
                         ["v", arr["name"], "i", 0], "cx"])
    st = ["do", "i", ["lit", max(1, arr["lb"])], ["n"], None,
          [["assign", ["v", arr["name"], "i", 0], terms]]]
    spec["body"].insert(rnd.randrange(len(spec["body"]) + 1), st)
    spec["planted"] = "alias_const_vs_loop_subscript"
    return spec


def generate(rnd):
    """Returns (spec, sorted feature list)."""
    g = Gen(rnd)
    spec = g.kernel()
    r = rnd.random()
    fam = sorted(hazard_families(spec, GEN_SIZES))
    if r < 0.06:
        make_invalid(rnd, spec)
        return spec, sorted(g.feat)
    if r < 0.10 and not fam:
        plant_alias(rnd, spec)
        fam = ["A"]
    elif len(fam) > 1:
        # at most one hazard family per kernel (keeps known findings precise)
        keep = rnd.choice(fam)
        spec = neutralise(spec, [f for f in fam if f != keep], GEN_SIZES)
        fam = sorted(hazard_families(spec, GEN_SIZES))
    for f in fam:
        g.feat.add("hazard_family_" + f)
    if not fam:
        g.feat.add("hazard_free")
    return spec, sorted(g.feat)


# -------------------------------------------------------------------- driver
def to_quad(text):
    """Same kernel text with every real(8) declaration widened to real(16)
    (used only to confirm that a mismatch seen in real(8) is not rounding)."""
    return (text.replace("r_def = 8", "r_def = 16")
            .replace("double precision", "real(kind=16)")
            .replace("DOUBLE PRECISION", "real(kind=16)")
            .replace("real*8", "real(kind=16)")
            .replace("REAL*8", "real(kind=16)"))


def driver_text(spec, rk=8):
    return _driver_text(spec).replace("real(kind=8)", "real(kind=%d)" % rk)


def _driver_text(spec):
    """Fortran program: reads lines 'n variant' until EOF; for each it
    prints 'BEGIN n variant', tabulates the matrix of the TL
    kernel (MA, column = image of a unit vector of the flattened active
    argument space) and of the adjoint kernel (MB) and compares MB with
    transpose(MA); checks that passive arguments keep their values."""
    arrays = spec["arrays"]
    scal = [s for s in spec["scalars"] if not s.get("local")]
    act = [("a", a) for a in arrays if a["active"]] + \
          [("s", s) for s in scal if s["active"]]
    L = ["module c19_drv_mod",
         "  use %s, only : %s" % (MOD_NAME, SUB_NAME),
         "  use %s, only : %s" % (ADJ_MOD, ADJ_SUB),
         "  implicit none",
         "  integer :: n, nk, variant, nact, col, i, k, nbad, nshown",
         "  integer :: pch_tl, pch_ad",
         "  logical :: exact",
         "  real(kind=8) :: d, mscale",
         "  real(kind=8), parameter :: one = 1.0d0",
         "  real(kind=8), allocatable :: ma(:,:), mb(:,:), x(:), y(:)"]
    for a in arrays:
        L.append("  real(kind=8), allocatable :: %s(:)" % a["name"])
        if not a["active"]:
            L.append("  real(kind=8), allocatable :: %s_0(:)" % a["name"])
    for s in scal:
        L.append("  real(kind=8) :: %s" % s["name"])
        if not s["active"]:
            L.append("  real(kind=8) :: %s_0" % s["name"])
    L += ["contains", "  subroutine run_case()"]
    dealloc = ["ma", "mb", "x", "y"]
    for a in arrays:
        dealloc.append(a["name"])
        if not a["active"]:
            dealloc.append(a["name"] + "_0")
    sizes = []
    for a in arrays:
        L.append("  allocate(%s(%d:n))" % (a["name"], a["lb"]))
        if not a["active"]:
            L.append("  allocate(%s_0(%d:n))" % (a["name"], a["lb"]))
    for kind, v in act:
        sizes.append("size(%s)" % v["name"] if kind == "a" else "1")
    L.append("  nact = " + " + ".join(sizes))
    L += ["  allocate(ma(nact,nact), mb(nact,nact), x(nact), y(nact))",
          "  pch_tl = 0", "  pch_ad = 0"]
    call_args = ", ".join(["nk"] + arg_names(spec)[1:])
    for tag, sub, mat, pch in (("TL", SUB_NAME, "ma", "pch_tl"),
                               ("AD", ADJ_SUB, "mb", "pch_ad")):
        L += ["  do col = 1, nact",
              "    x = 0.0d0", "    x(col) = 1.0d0",
              "    call setp()", "    call unpack()",
              "    call %s(%s)" % (sub, call_args),
              "    call pack()",
              "    %s(:, col) = y" % mat,
              "    if (pchanged()) %s = %s + 1" % (pch, pch),
              "  end do",
              "  write(*,'(a)') '%s_DONE'" % tag,
              "  flush(6)"]
    # In the real(16) confirmation run a difference must also exceed 1e-18
    # of the largest entry: generated kernels grow values like 8**(n*n) and
    # an entry that is exactly 0 (or small) in exact arithmetic is then the
    # residue of cancelling terms of that size (observed: 8.5e72 against an
    # exact 0 with entries up to 1e82 in real(8)); a wrong adjoint differs in
    # the leading digits of entries at every size, incl. the small sizes
    # where nothing grows.
    L += ["  nbad = 0", "  exact = .true.", "  nshown = 0",
          "  mscale = one",
          "  if (nact > 0) mscale = max(one, maxval(abs(ma)), "
          "maxval(abs(mb)))",
          "  do i = 1, nact", "    do k = 1, nact",
          "      d = abs(mb(k,i) - ma(i,k))",
          "      if (d /= 0.0d0) then",
          "        exact = .false.",
          "        if (d > 1.0d-9 * max(one, abs(ma(i,k)), abs(mb(k,i))) "
          ".and. (epsilon(one) > 1.0d-20 .or. d > 1.0d-18 * mscale)) "
          "then",
          "          nbad = nbad + 1",
          "          if (nshown < 12) then",
          "            nshown = nshown + 1",
          "            write(*,'(a,i0,a,i0,a,g0,a,i0,a,i0,a,g0)') "
          "'DIFF A(', i, ',', k, ')=', ma(i,k), ' B(', k, ',', i, ')=', "
          "mb(k,i)",
          "          end if", "        end if", "      end if",
          "    end do", "  end do",
          "  write(*,'(a,i0,a,i0,a,i0,a,l1,a,i0,a,i0,a,i0)') 'RESULT n=', n, "
          "' variant=', variant, ' nact=', nact, ' exact=', exact, ' nbad=', "
          "nbad, ' pch_tl=', pch_tl, ' pch_ad=', pch_ad",
          "  if (nbad > 0 .and. nact <= 14) then",
          "    do i = 1, nact",
          "      write(*,'(a,i0,a,*(1x,g0))') 'A row ', i, ':', ma(i,:)",
          "    end do",
          "    do i = 1, nact",
          "      write(*,'(a,i0,a,*(1x,g0))') 'B row ', i, ':', mb(i,:)",
          "    end do",
          "  end if",
          "  flush(6)",
          "  deallocate(%s)" % ", ".join(dealloc),
          "  end subroutine run_case",
          "  subroutine setp()",
          "    integer :: ii",
          "    nk = n"]
    for s in scal:
        if s["active"]:
            continue
        v0, v1 = {"p": ("2.0d0", "0.25d0"), "q": ("-1.0d0", "0.75d0")}.get(
            s["name"], ("2.0d0", "0.5d0"))
        L += ["    %s = merge(%s, %s, variant == 0)" % (s["name"], v0, v1),
              "    %s_0 = %s" % (s["name"], s["name"])]
    for a in arrays:
        if a["active"]:
            continue
        L += ["    do ii = lbound(%s,1), ubound(%s,1)" % (a["name"],
                                                         a["name"]),
              "      if (variant == 0) then",
              "        %s(ii) = 1.0d0 + mod(ii, 3)" % a["name"],
              "      else",
              "        %s(ii) = merge(0.25d0, 2.0d0, mod(ii, 2) == 1)"
              % a["name"],
              "      end if",
              "    end do",
              "    %s_0 = %s" % (a["name"], a["name"])]
    L += ["  end subroutine setp",
          "  logical function pchanged()",
          "    pchanged = (nk /= n)"]
    for s in scal:
        if not s["active"]:
            L.append("    if (%s /= %s_0) pchanged = .true." % (s["name"],
                                                              s["name"]))
    for a in arrays:
        if not a["active"]:
            L.append("    if (any(%s /= %s_0)) pchanged = .true." % (
                a["name"], a["name"]))
    L += ["  end function pchanged",
          "  subroutine unpack()", "    integer :: kk", "    kk = 0"]
    for kind, v in act:
        if kind == "a":
            L += ["    %s = x(kk+1:kk+size(%s))" % (v["name"], v["name"]),
                  "    kk = kk + size(%s)" % v["name"]]
        else:
            L += ["    %s = x(kk+1)" % v["name"], "    kk = kk + 1"]
    L += ["  end subroutine unpack",
          "  subroutine pack()", "    integer :: kk", "    kk = 0"]
    for kind, v in act:
        if kind == "a":
            L += ["    y(kk+1:kk+size(%s)) = %s" % (v["name"], v["name"]),
                  "    kk = kk + size(%s)" % v["name"]]
        else:
            L += ["    y(kk+1) = %s" % v["name"], "    kk = kk + 1"]
    L += ["  end subroutine pack", "end module c19_drv_mod",
          "program c19_drv",
          "  use c19_drv_mod, only : n, variant, run_case",
          "  implicit none",
          "  integer :: ios",
          "  do",
          "    read(*,*,iostat=ios) n, variant",
          "    if (ios /= 0) exit",
          "    write(*,'(a,i0,1x,i0)') 'BEGIN ', n, variant",
          "    flush(6)",
          "    call run_case()",
          "  end do",
          "end program c19_drv"]
    return "\n".join(L) + "\n"
