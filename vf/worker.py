"""Subprocess worker: python -m vf.worker <module> <func>; JSON arg on stdin,
JSON result as last stdout line."""
import importlib
import json
import sys


def main():
    mod = importlib.import_module(sys.argv[1])
    fn = getattr(mod, sys.argv[2])
    arg = json.loads(sys.stdin.read())
    real_stdout = sys.stdout
    sys.stdout = sys.stderr      # anything the subject prints goes to stderr
    res = fn(arg)
    sys.stdout = real_stdout
    if hasattr(res, "to_json"):
        res = res.to_json()
    print()
    print(json.dumps(res, default=str))


if __name__ == "__main__":
    main()
