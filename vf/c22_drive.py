"""C22: drive PSyclone (parse, PSy creation, random accepted transformation
histories, code generation) and hand the generated text + kernel metadata to
the trace reader.  Only this module touches PSyclone objects; the halo logic
classes (HaloReadAccess/HaloWriteAccess/LFRicHaloExchange internals) are
never consulted.
"""
import os

from vf.core import REPO

ALG_DIR = os.path.join(REPO, "src/psyclone/tests/test_files/dynamo0p3")


def set_annexed(flag):
    from psyclone.configuration import Config
    Config.get().api = "lfric"
    Config.get().api_conf("lfric")._compute_annexed_dofs = bool(flag)


def create_psy(path, kernel_paths=None):
    from psyclone.parse.algorithm import parse
    from psyclone.psyGen import PSyFactory
    _, info = parse(path, api="lfric", kernel_paths=kernel_paths or [])
    return info


def new_psy(info):
    from psyclone.psyGen import PSyFactory
    return PSyFactory("lfric", distributed_memory=True).create(info)


def kernel_facts(sched):
    """Metadata facts of the coded kernels of a schedule, in schedule order."""
    from psyclone.domain.lfric import LFRicKern
    out = []
    for k in sched.walk(LFRicKern):
        args = []
        for a in k.arguments.args:
            d = {"type": a.argument_type, "proxy": a.proxy_name,
                 "vsize": getattr(a, "vector_size", 1) or 1,
                 "access": a.access.name, "space": None, "stencil": None}
            if a.argument_type == "gh_field":
                d["space"] = a.function_space.orig_name
                st = a.descriptor.stencil
                if st:
                    ext = st.get("extent")
                    if ext:
                        d["stencil"] = str(int(ext))
                    else:
                        ea = a.stencil.extent_arg
                        if ea.is_literal():
                            d["stencil"] = str(int(ea.text))
                        else:
                            d["stencil"] = ea.varname
                    d["stencil_type"] = st["type"]
            args.append(d)
        out.append({"name": k.name, "iterates_over": k.iterates_over,
                    "intergrid": bool(k.is_intergrid), "args": args})
    return out


# ------------------------------------------------------------ transformations
def _loops(sched):
    from psyclone.psyir.nodes import Loop
    return sched.walk(Loop)


def _hexs(sched):
    from psyclone.dynamo0p3 import (LFRicHaloExchange, LFRicHaloExchangeStart,
                                    LFRicHaloExchangeEnd)
    return [h for h in sched.walk(LFRicHaloExchange)
            if not isinstance(h, (LFRicHaloExchangeStart,
                                  LFRicHaloExchangeEnd))]


def _schedules(sched):
    """Schedules whose children can be moved / enclosed in a region: the
    invoke schedule and the bodies of loops over colours."""
    out = [sched]
    for lp in _loops(sched):
        if getattr(lp, "loop_type", "") == "colours":
            out.append(lp.loop_body)
    return out


def apply_step(sched, step):
    """Apply one recorded step; raises what PSyclone raises."""
    from psyclone import transformations as T
    kind = step["t"]
    if kind == "rc":
        opts = {} if step["depth"] is None else {"depth": step["depth"]}
        T.Dynamo0p3RedundantComputationTrans().apply(
            _loops(sched)[step["loop"]], opts)
    elif kind == "colour":
        T.Dynamo0p3ColourTrans().apply(_loops(sched)[step["loop"]])
    elif kind == "async":
        T.Dynamo0p3AsyncHaloExchangeTrans().apply(_hexs(sched)[step["hex"]])
    elif kind == "move":
        sc = _schedules(sched)[step["sched"]]
        T.MoveTrans().apply(sc.children[step["a"]], sc.children[step["b"]],
                            {"position": step["pos"]})
    elif kind == "omp_pardo":
        T.DynamoOMPParallelLoopTrans().apply(_loops(sched)[step["loop"]])
    elif kind == "omp_do":
        T.Dynamo0p3OMPLoopTrans().apply(_loops(sched)[step["loop"]],
                                        {"reprod": step.get("reprod", False)})
    elif kind == "omp_par":
        sc = _schedules(sched)[step["sched"]]
        T.OMPParallelTrans().apply(
            sc.children[step["a"]:step["a"] + step["n"]])
    else:
        raise ValueError(kind)


def random_step(sched, rnd, maxdepth=3):
    kind = rnd.choices(
        ["rc", "colour", "async", "move", "omp_pardo", "omp_do", "omp_par"],
        [36, 14, 14, 14, 8, 8, 6])[0]
    if kind in ("rc", "colour", "omp_pardo", "omp_do"):
        n = len(_loops(sched))
        if not n:
            return None
        st = {"t": kind, "loop": rnd.randrange(n)}
        if kind == "rc":
            st["depth"] = rnd.choice([None, 1, 2, 2, 3][:maxdepth + 2])
        if kind == "omp_do":
            st["reprod"] = rnd.random() < 0.3
        return st
    if kind == "async":
        n = len(_hexs(sched))
        if not n:
            return None
        return {"t": kind, "hex": rnd.randrange(n)}
    scs = _schedules(sched)
    si = rnd.randrange(len(scs))
    nch = len(scs[si].children)
    if kind == "move":
        if nch < 2:
            return None
        a = rnd.randrange(nch)
        # mostly short moves (long ones are almost always refused)
        b = max(0, min(nch - 1, a + rnd.choice([-3, -2, -1, -1, 1, 1, 2, 3])))
        if a == b:
            return None
        return {"t": kind, "sched": si, "a": a, "b": b,
                "pos": rnd.choice(["before", "after"])}
    a = rnd.randrange(nch)
    return {"t": kind, "sched": si, "a": a,
            "n": rnd.choice([1, 1, 2, 3])}


def close_omp(sched, hist, counts):
    """Enclose every orphan OMP do directive in its own parallel region so
    that the code can be generated (recorded as further history steps)."""
    from psyclone.psyir.nodes import OMPDoDirective, OMPParallelDirective
    from psyclone.errors import PSycloneError
    for _ in range(20):
        orphan = None
        for d in sched.walk(OMPDoDirective):
            if type(d) is OMPDoDirective and \
                    d.ancestor(OMPParallelDirective) is None:
                orphan = d
                break
        if orphan is None:
            return True
        scs = _schedules(sched)
        si = [i for i, s in enumerate(scs) if s is orphan.parent]
        if not si:
            return False
        step = {"t": "omp_par", "sched": si[0], "a": orphan.position, "n": 1}
        try:
            apply_step(sched, step)
        except PSycloneError:
            counts("refused:omp_par")
            return False
        hist.append(step)
        counts("accepted:omp_par")
    return False


def step_str(step):
    t = step["t"]
    if t == "rc":
        return "RedundantComputation(loop %d, depth=%s)" % (step["loop"],
                                                            step["depth"])
    if t == "colour":
        return "Colour(loop %d)" % step["loop"]
    if t == "async":
        return "AsyncHaloExchange(exchange %d)" % step["hex"]
    if t == "move":
        return "Move(child %d %s child %d of schedule %d)" % (
            step["a"], step["pos"], step["b"], step["sched"])
    if t == "omp_pardo":
        return "OMPParallelLoop(loop %d)" % step["loop"]
    if t == "omp_do":
        return "OMPLoop(loop %d, reprod=%s)" % (step["loop"],
                                                step.get("reprod"))
    return "OMPParallel(children %d..%d of schedule %d)" % (
        step["a"], step["a"] + step["n"] - 1, step["sched"])
