"""C29 Transformed-kernel output never clobbers other kernels.

Monitor (E8): 2-3 real `psyclone` CLI processes write transformed kernels
into one output directory.  A sitecustomize on their PYTHONPATH
(vf/c29_site/sitecustomize.py; nothing in /repo is edited) proxies the names
`os` and `open` inside psyclone.psyGen, so every step of
CodedKern.rename_and_write on the shared directory (O_EXCL create attempt,
write, close, read-back) reports to this controller over a pipe and blocks
until released.  Only one run executes at a time, so the controller decides
the interleaving; it enumerates the tree of interleavings by stateless DFS
(the tree is discovered dynamically because a run's pause points depend on
what the others did, e.g. a failed create tries the next index).  After each
schedule an offline checker inspects exit codes, directory content, module /
routine names and each run's PSy layer against what the same run produces
when it runs alone.  strace is used on one schedule per configuration as
ground truth that the proxies saw every access to the directory.

Self-test of the check (off by default, never set by the framework):
  VF_C29_SELFTEST=drop_excl   the *proxy* strips O_EXCL (emulates a broken
      implementation); the 'multiple' configurations must then report
      `multiple.same_file` (observed: all 70 schedules of the then smaller
      tree).
  VF_C29_SELFTEST=slow_write  the proxy writes the kernel in two halves with
      an extra pause `mid_write`; 'single' with identical kernels must then
      also report mechanism `single.read_during_write`.
Other knobs (debugging): VF_C29_ONLY=<substring of a configuration name>,
VF_C29_POOL=<schedules in flight>, VF_C29_CAP3=<cap for the thorough-only
configurations>, VF_C29_WATCHDOG=<seconds>.  VF_C29_ONLY / VF_C29_SELFTEST
switch the `exhaustive` claim off.

Stand-alone reproduction of the finding `single.read_before_write` with the
unmodified CLI (SIGSTOP instead of proxies): vf/c29_byhand.py.
"""
import json
import os
import re
import select
import shutil
import subprocess
import tempfile
import time
from concurrent.futures import ThreadPoolExecutor

from vf.core import NCPU, REPO, ROOT

PROPERTY = "C29"
LEVEL = "exploration"

SITE = os.path.join(ROOT, "vf", "c29_site")
TFILES = os.path.join(REPO, "src", "psyclone", "tests", "test_files",
                      "dynamo0p3")
PSYCLONE = "/venv/bin/psyclone"
PYC = os.path.join(ROOT, ".build", "c29_pyc")
# Wall-clock watchdog (keeps the check finite; a firing is inconclusive, never
# a violation).  It is progress-aware so that a heavily loaded machine does
# not trip it: it fires when the awaited process has consumed no CPU for
# STALL_S seconds, or after WATCHDOG_S seconds in any case.
WATCHDOG_S = float(os.environ.get("VF_C29_WATCHDOG", "1500"))
STALL_S = float(os.environ.get("VF_C29_STALL", "150"))
STRACE_SET = ("openat,open,creat,write,pwrite64,writev,rename,renameat,"
              "renameat2,unlink,unlinkat,close")

# Transformation scripts.  Variant "A" only marks the kernel as an OpenACC
# routine; "L<n>" additionally fixes the number of layers to n, which gives
# a *different* transformed kernel.
SCRIPT = '''\
from psyclone.psyGen import CodedKern
from psyclone.transformations import ACCRoutineTrans, Dynamo0p3KernelConstTrans

NLAYERS = %r


def trans(psy):
    sched = psy.invokes.invoke_list[0].schedule
    for kern in sched.walk(CodedKern):
        if NLAYERS:
            Dynamo0p3KernelConstTrans().apply(
                kern, {"number_of_layers": NLAYERS})
        ACCRoutineTrans().apply(kern)
    return psy
'''
VARIANTS = {"A": None, "L20": 20, "L30": 30}
ALG1 = "1_single_invoke.f90"          # one testkern call
ALG2 = "4_multikernel_invokes.f90"    # two testkern calls in one invoke


class Watchdog(Exception):
    pass


class Diverged(Exception):
    pass


# --------------------------------------------------------------------------
# controller: one schedule
# --------------------------------------------------------------------------
class _Run:
    def __init__(self, idx, variant):
        self.idx = idx
        self.variant = variant
        self.proc = None
        self.ev_r = None
        self.ctl_w = None
        self.buf = b""
        self.pids = set()
        self.state = "running"
        self.cur = None
        self.ops = []
        self.rc = None
        self.dir = None
        self.strace = None


_STRACE_FLAGS = None


def _strace_flags():
    """--seccomp-bpf makes strace stop only at the traced calls (much
    cheaper); probe once whether this strace/kernel supports it."""
    global _STRACE_FLAGS
    if _STRACE_FLAGS is None:
        try:
            p = subprocess.run(
                ["strace", "-f", "-qq", "--seccomp-bpf", "-e", "trace=write",
                 "-o", "/dev/null", "true"], capture_output=True, timeout=60)
            _STRACE_FLAGS = ["--seccomp-bpf"] if p.returncode == 0 else []
        except Exception:
            _STRACE_FLAGS = []
    return _STRACE_FLAGS


def _worker_env(outdir, run, fds):
    env = {k: v for k, v in os.environ.items()
           if k in ("PATH", "HOME", "LANG", "LC_ALL", "TMPDIR",
                    "VF_C29_SELFTEST")}
    env["PSYCLONE_CONFIG"] = os.path.join(REPO, "config", "psyclone.cfg")
    env["SVALAT_PSYCLONE_VERIF"] = "1"
    env["PYTHONHASHSEED"] = "0"
    # /repo has no __pycache__ (and must not get one): keep the workers'
    # byte code in a git-ignored cache under /verif, else every one of the
    # ~600 CLI processes recompiles all of PSyclone (3-5 x slower start-up)
    env["PYTHONPYCACHEPREFIX"] = PYC
    env["PYTHONPATH"] = SITE
    if os.path.realpath(REPO) != "/repo":
        # a scratch worktree selected with VERIF_REPO: its sources must win
        # over the installed (editable) /repo
        env["PYTHONPATH"] = SITE + os.pathsep + os.path.join(REPO, "src")
    env["VF_C29_FDS"] = "%d,%d" % fds
    env["VF_C29_RUN"] = str(run)
    env["VF_C29_OUTDIR"] = outdir
    return env


def _launch(run, cfg, base, outdir, use_strace):
    run.dir = os.path.join(base, "run%d" % run.idx)
    os.makedirs(run.dir)
    script = os.path.join(run.dir, "c29_script_r%d.py" % run.idx)
    with open(script, "w") as fh:
        fh.write(SCRIPT % (VARIANTS[run.variant],))
    ev_r, ev_w = os.pipe()
    ctl_r, ctl_w = os.pipe()
    cmd = [PSYCLONE, "-api", "lfric", "-d", TFILES, "-s", script,
           "-okern", outdir, "--kernel-renaming", cfg["scheme"],
           "-opsy", os.path.join(run.dir, "psy.f90"), "-oalg", "/dev/null",
           os.path.join(TFILES, cfg["alg"])]
    if use_strace:
        run.strace = os.path.join(run.dir, "strace.log")
        cmd = ["strace", "-f", "-qq"] + _strace_flags() + [
            "-e", "trace=" + STRACE_SET, "-o", run.strace] + cmd
    out = open(os.path.join(run.dir, "stdout"), "wb")
    err = open(os.path.join(run.dir, "stderr"), "wb")
    try:
        run.proc = subprocess.Popen(
            cmd, stdin=subprocess.DEVNULL, stdout=out, stderr=err,
            env=_worker_env(outdir, run.idx, (ev_w, ctl_r)),
            pass_fds=(ev_w, ctl_r), cwd=run.dir)
    finally:
        out.close()
        err.close()
        os.close(ev_w)
        os.close(ctl_r)
    run.ev_r, run.ctl_w = ev_r, ctl_w


def _cpu_ticks(pids):
    """utime+stime (clock ticks) of the given processes, None if unknown."""
    total, seen = 0, False
    for pid in pids:
        try:
            with open("/proc/%d/stat" % pid) as fh:
                fields = fh.read().rsplit(")", 1)[1].split()
            total += int(fields[11]) + int(fields[12])
            seen = True
        except (OSError, IndexError, ValueError):
            continue
    return total if seen else None


def _wait_event(run, log, deadline):
    """Read this run's messages until it pauses (returns the message) or
    exits (returns None).  Raises Watchdog after `deadline`, or when the
    process made no CPU progress for STALL_S seconds."""
    last_cpu = None
    last_progress = time.time()
    while True:
        while b"\n" in run.buf:
            line, run.buf = run.buf.split(b"\n", 1)
            msg = json.loads(line)
            if "pid" in msg:
                run.pids.add(msg["pid"])
            msg["run"] = run.idx
            log.append(msg)
            if msg["t"] == "pause":
                run.state = "paused"
                run.cur = msg
                return msg
            run.ops.append(msg)
        now = time.time()
        cpu = _cpu_ticks(run.pids | {run.proc.pid})
        if cpu is None or cpu != last_cpu:
            last_cpu = cpu
            last_progress = now
        left = deadline - now
        if left <= 0:
            raise Watchdog("run %d silent for %.0f s" % (run.idx, WATCHDOG_S))
        if now - last_progress > STALL_S:
            raise Watchdog("run %d silent and without CPU progress for "
                           "%.0f s" % (run.idx, STALL_S))
        ready, _, _ = select.select([run.ev_r], [], [], min(left, 5.0))
        if ready:
            chunk = os.read(run.ev_r, 65536)
            if not chunk:
                try:
                    run.rc = run.proc.wait(timeout=max(1.0, left))
                except subprocess.TimeoutExpired:
                    raise Watchdog("run %d closed its pipe but did not exit"
                                   % run.idx)
                run.state = "done"
                run.cur = None
                return None
            run.buf += chunk


def _read(path, limit=None):
    try:
        with open(path, "rb") as fh:
            data = fh.read()
    except OSError:
        return None
    text = data.decode("utf-8", "replace")
    return text if limit is None else text[-limit:]


def run_schedule(cfg, prefix, policy_seed=0, strace=False):
    """run_schedule_once, repeated once if the wall-clock watchdog fired (the
    schedule is deterministic, so a repeat is the same case).  Every firing
    is counted; the schedule is inconclusive only if the repeat fires too."""
    fired = 0
    for _ in range(2):
        res = run_schedule_once(cfg, prefix, policy_seed, strace)
        if res["status"] != "watchdog":
            break
        fired += 1
    res["watchdog_fired"] = fired
    return res


def run_schedule_once(cfg, prefix, policy_seed=0, strace=False):
    """Execute one schedule of configuration `cfg`.

    cfg: {"name", "scheme", "alg", "variants": [...]}
    prefix: choices (run indices) to follow; afterwards a seeded random
    policy picks among the blocked runs.  Returns a JSON-able dict with the
    observed schedule, the alternative prefixes discovered beyond `prefix`,
    and everything the offline checker needs."""
    import random
    rnd = random.Random(policy_seed)
    base = tempfile.mkdtemp(prefix="vf_c29_")
    outdir = os.path.join(base, "kern")
    os.makedirs(outdir)
    runs = [_Run(i, v) for i, v in enumerate(cfg["variants"])]
    log = []
    res = {"cfg": cfg, "prefix": list(prefix), "choices": [], "schedule": [],
           "alts": [], "status": "ok", "reason": None, "straced": bool(strace)}
    t0 = time.time()
    try:
        for run in runs:
            _launch(run, cfg, base, outdir, strace)
        deadline = time.time() + WATCHDOG_S
        for run in runs:
            _wait_event(run, log, deadline)
        step = 0
        while True:
            enabled = [r.idx for r in runs if r.state == "paused"]
            if not enabled:
                break
            if step < len(prefix):
                pick = prefix[step]
                if pick not in enabled:
                    raise Diverged("step %d: run %d not blocked (blocked: %s)"
                                   % (step, pick, enabled))
            else:
                pick = rnd.choice(enabled)
                for alt in enabled:
                    if alt != pick:
                        res["alts"].append(res["choices"] + [alt])
            run = runs[pick]
            res["choices"].append(pick)
            res["schedule"].append(
                [pick, run.cur["point"], os.path.basename(run.cur["path"])])
            log.append({"t": "release", "run": pick,
                        "point": run.cur["point"],
                        "path": run.cur["path"]})
            run.state = "running"
            os.write(run.ctl_w, b"\n")
            _wait_event(run, log, time.time() + WATCHDOG_S)
            step += 1
    except Watchdog as err:
        res["status"] = "watchdog"
        res["reason"] = str(err)
    except Diverged as err:
        res["status"] = "diverged"
        res["reason"] = str(err)
    except Exception as err:      # harness trouble is never a verdict
        res["status"] = "harness_error"
        res["reason"] = "%s: %s" % (type(err).__name__, err)
    finally:
        for run in runs:
            if run.proc is not None and run.proc.poll() is None:
                run.proc.kill()
                try:
                    run.proc.wait(timeout=30)
                except Exception:
                    pass
            for fd in (run.ev_r, run.ctl_w):
                if fd is not None:
                    try:
                        os.close(fd)
                    except OSError:
                        pass
    # ---- collect ---------------------------------------------------------
    try:
        res["runs"] = []
        for run in runs:
            info = {"run": run.idx, "variant": run.variant, "rc": run.rc,
                    "stderr_tail": _read(os.path.join(run.dir, "stderr"),
                                         1500) if run.dir else None,
                    "psy": _read(os.path.join(run.dir, "psy.f90"))
                    if run.dir else None,
                    "ops": [{k: v for k, v in op.items()
                             if k not in ("pid", "t")} for op in run.ops]}
            for op in info["ops"]:
                if "path" in op:
                    op["path"] = os.path.basename(op["path"])
            res["runs"].append(info)
        res["files"] = {}
        for name in sorted(os.listdir(outdir)):
            res["files"][name] = _read(os.path.join(outdir, name))
        if strace and res["status"] == "ok":
            res["strace"] = [_strace_check(run, outdir) for run in runs]
    except Exception as err:
        res["status"] = "harness_error"
        res["reason"] = "collect: %s: %s" % (type(err).__name__, err)
    finally:
        shutil.rmtree(base, ignore_errors=True)
    res["wall"] = round(time.time() - t0, 2)
    return res


# --------------------------------------------------------------------------
# strace ground truth
# --------------------------------------------------------------------------
_SYS = re.compile(r"^(\d+)\s+(\w+)\((.*)\)\s+=\s+(-?\d+)(.*)$")


def _strace_check(run, outdir):
    """Every create/read-open/write/rename/unlink on a file of the output
    directory that strace saw must have been reported by the proxy."""
    out = {"run": run.idx, "available": False, "matched": 0,
           "unmatched": [], "unparsed": 0}
    text = _read(run.strace) if run.strace else None
    if not text:
        return out
    out["available"] = True
    seen = []
    fdmap = {}
    for line in text.splitlines():
        if "<unfinished" in line or "resumed>" in line:
            out["unparsed"] += 1
            continue
        m = _SYS.match(line)
        if not m:
            continue
        pid, name, args, ret = m.group(1), m.group(2), m.group(3), \
            int(m.group(4))
        key = fdmap.setdefault(pid, {})
        if name in ("openat", "open", "creat"):
            pm = re.search(r'"((?:[^"\\]|\\.)*)"', args)
            if not pm:
                continue
            path = pm.group(1)
            if os.path.dirname(path) != outdir:
                if ret >= 0:
                    key.pop(ret, None)
                continue
            base = os.path.basename(path)
            if "O_CREAT" in args or name == "creat":
                seen.append(("created" if ret >= 0 else "create_failed",
                             base))
            elif "O_DIRECTORY" not in args:
                seen.append(("readback_open" if ret >= 0 else "open_failed",
                             base))
            if ret >= 0:
                key[ret] = base
        elif name == "close":
            fm = re.match(r"(\d+)", args)
            if fm:
                key.pop(int(fm.group(1)), None)
        elif name in ("write", "pwrite64", "writev"):
            fm = re.match(r"(\d+)", args)
            if fm and int(fm.group(1)) in key:
                seen.append(("write", key[int(fm.group(1))], ret))
        elif name in ("rename", "renameat", "renameat2", "unlink",
                      "unlinkat"):
            if outdir in args:
                seen.append((name, args[:200]))
    reported = []
    for op in run.ops:
        if op.get("op") in ("created", "create_failed", "readback_open"):
            reported.append((op["op"], os.path.basename(op["path"])))
        elif op.get("op") == "write":
            reported.append(("write", os.path.basename(op["path"]),
                             op.get("nbytes")))
    pool = list(reported)
    for item in seen:
        if item in pool:
            pool.remove(item)
            out["matched"] += 1
        else:
            out["unmatched"].append(list(item))
    # and the other way round: what the proxy claims must be a real syscall
    out["proxy_only"] = [list(x) for x in pool]
    return out


# --------------------------------------------------------------------------
# offline checker
# --------------------------------------------------------------------------
def _idx_of(name):
    m = re.match(r"^testkern_(\d+)_mod\.f90$", name)
    return int(m.group(1)) if m else None


def _reindex(text, old, new):
    return re.sub(r"\btestkern_%d_(mod|code)\b" % old,
                  lambda m: "testkern_%d_%s" % (new, m.group(1)), text)


def _names_ok(text, k):
    """Module and routine names inside the file match file testkern_<k>."""
    mods = re.findall(r"(?im)^\s*module\s+(\w+)\s*$", text)
    ends = re.findall(r"(?im)^\s*end\s+module\s+(\w+)\s*$", text)
    subs = re.findall(r"(?im)^\s*subroutine\s+(\w+)\s*\(", text)
    esubs = re.findall(r"(?im)^\s*end\s+subroutine\s+(\w+)\s*$", text)
    procs = re.findall(r"(?i)code\s*=>\s*(\w+)", text)
    want_m, want_s = "testkern_%d_mod" % k, "testkern_%d_code" % k
    return (mods == [want_m] and ends == [want_m] and subs == [want_s]
            and esubs == [want_s] and procs == [want_s])


def _psy_refs(text):
    uses = sorted(set(
        (m.lower(), s.lower()) for m, s in re.findall(
            r"(?i)\buse\s+(testkern\w*)\s*,\s*only\s*:\s*(\w+)", text or "")))
    calls = [c.lower() for c in re.findall(
        r"(?i)\bcall\s+(testkern\w*)\s*\(", text or "")]
    return uses, calls


def _err_head(err):
    """Start of the error message proper (skips any traceback lines)."""
    flat = " ".join((err or "").split())
    for mark in ("Generation Error", "Error"):
        if mark in flat:
            flat = flat[flat.index(mark):]
            break
    return flat[:200]


def _created(info):
    return [op["path"] for op in info["ops"] if op.get("op") == "created"]


def _release_index(schedule, run, point, path=None):
    for i, (r, p, pth) in enumerate(schedule):
        if r == run and p == point and (path is None or pth == path):
            return i
    return None


def check_schedule(res, refs):
    """Returns (violations, facts).  Each violation is a dict with 'kind'
    (the checker rule), 'mechanism' and 'what'."""
    cfg = res["cfg"]
    scheme = cfg["scheme"]
    runs = res["runs"]
    files = res["files"]
    sched = res["schedule"]
    viol = []
    facts = {"failed_expected": 0, "failed_unexpected": 0}

    def add(kind, what, mechanism=None):
        viol.append({"kind": kind, "mechanism": mechanism, "what": what})

    nk = refs[(cfg["alg"], "nkern")]
    created = {r["run"]: _created(r) for r in runs}
    if scheme == "multiple":
        owner = {}
        for r in runs:
            ref = refs[(cfg["alg"], r["variant"])]
            if r["rc"] != 0:
                facts["failed_unexpected"] += 1
                add("multiple.run_failed",
                    "run %d (variant %s) exited %s: %s" % (
                        r["run"], r["variant"], r["rc"],
                        (r["stderr_tail"] or "")[-300:]))
                continue
            mine = created[r["run"]]
            if len(mine) != nk:
                add("multiple.file_count",
                    "run %d created %s, expected %d fresh files" % (
                        r["run"], mine, nk))
            for name in mine:
                if name in owner:
                    add("multiple.same_file",
                        "runs %d and %d both ended with %s" % (
                            owner[name], r["run"], name),
                        mechanism=_same_file_mechanism(
                            sched, owner[name], r["run"], name))
                owner.setdefault(name, r["run"])
            ks = []
            for j, name in enumerate(mine[:nk]):
                k = _idx_of(name)
                ks.append(k)
                text = files.get(name)
                if k is None or text is None:
                    add("multiple.file_missing",
                        "run %d created %s but it is not in the directory"
                        % (r["run"], name))
                    continue
                if not _names_ok(text, k):
                    add("multiple.names_mismatch",
                        "module/routine names inside %s (written by run %d) "
                        "do not match the file name" % (name, r["run"]))
                want = _reindex(ref["files"][j], ref["idx"][j], k)
                if text != want:
                    add("multiple.content_differs",
                        "%s is not what run %d (variant %s) writes when run "
                        "alone (%d vs %d bytes): overwritten or partial"
                        % (name, r["run"], r["variant"], len(text),
                           len(want)))
            uses, calls = _psy_refs(r["psy"])
            want_uses = sorted(set(("testkern_%d_mod" % k,
                                    "testkern_%d_code" % k)
                                   for k in ks if k is not None))
            want_calls = ["testkern_%d_code" % k for k in ks if k is not None]
            if uses != want_uses or calls != want_calls:
                add("multiple.psy_layer_mismatch",
                    "run %d wrote %s but its PSy layer uses %s and calls %s"
                    % (r["run"], mine, uses, calls))
        extra = sorted(set(files) - set(owner))
        if extra:
            add("multiple.stray_file", "files nobody owns: %s" % extra)
    else:
        creators = [(r["run"], n) for r in runs for n in created[r["run"]]]
        want_name = "testkern_0_mod.f90"
        if sorted(files) != [want_name]:
            add("single.file_set", "directory holds %s, expected exactly %s"
                % (sorted(files), want_name))
        if len(creators) != 1:
            add("single.creators", "file created %d times: %s" % (
                len(creators), creators))
        crun = creators[0][0] if creators else None
        cvar = runs[crun]["variant"] if crun is not None else None
        if crun is not None:
            ref = refs[(cfg["alg"], cvar)]
            text = files.get(want_name)
            if runs[crun]["rc"] != 0:
                facts["failed_unexpected"] += 1
                add("single.creator_failed", "run %d created the file but "
                    "exited %s: %s" % (crun, runs[crun]["rc"],
                                       (runs[crun]["stderr_tail"] or "")[-300:]))
            elif text != ref["files"][0]:
                add("single.content_differs",
                    "%s is not what its creator run %d (variant %s) writes "
                    "when run alone" % (want_name, crun, cvar))
            elif not _names_ok(text, 0):
                add("single.names_mismatch", "names inside %s" % want_name)
        for r in runs:
            if crun is None:
                break
            same = r["variant"] == cvar
            if r["rc"] == 0:
                uses, calls = _psy_refs(r["psy"])
                if (uses != [("testkern_0_mod", "testkern_0_code")]
                        or calls != ["testkern_0_code"] * nk):
                    add("single.psy_layer_mismatch",
                        "run %d PSy layer uses %s calls %s" % (
                            r["run"], uses, calls))
                if not same:
                    add("single.different_kernel_accepted",
                        "run %d (variant %s) succeeded although %s holds "
                        "run %d's variant %s" % (
                            r["run"], r["variant"], want_name, crun, cvar),
                        mechanism=_single_mechanism(sched, crun, r["run"]))
            else:
                err = r["stderr_tail"] or ""
                if same:
                    facts["failed_unexpected"] += 1
                    add("single.identical_run_failed",
                        "run %d produces the same kernel as run %d (variant "
                        "%s) but exited %s: %s" % (
                            r["run"], crun, cvar, r["rc"], _err_head(err)),
                        mechanism=_single_mechanism(sched, crun, r["run"]))
                else:
                    facts["failed_expected"] += 1
                    if "already exists" in err and "not the same" in \
                            " ".join(err.split()):
                        facts["failed_with_generation_error"] = \
                            facts.get("failed_with_generation_error", 0) + 1
                    else:
                        facts["failed_with_other_error"] = \
                            facts.get("failed_with_other_error", 0) + 1
    return viol, facts


def _single_mechanism(sched, creator, reader):
    """Schedule-shape fact: did `reader`'s read-back execute after the
    creator's O_EXCL create but before the creator's write executed?
    (The read executes when the reader is released from before_readback, the
    write when the creator is released from before_write.)"""
    rb = _release_index(sched, reader, "before_readback")
    cr = _release_index(sched, creator, "before_create")
    wr = _release_index(sched, creator, "before_write")
    if rb is None or cr is None:
        return None
    if cr < rb and (wr is None or rb < wr):
        return "single.read_before_write"
    mid = _release_index(sched, creator, "mid_write")
    if mid is not None and wr is not None and wr < rb < mid:
        return "single.read_during_write"
    return None


def _same_file_mechanism(sched, a, b, name):
    ia = _release_index(sched, a, "before_create", name)
    ib = _release_index(sched, b, "before_create", name)
    if ia is not None and ib is not None:
        return "multiple.create_not_exclusive"
    return None


# --------------------------------------------------------------------------
# exploration driver
# --------------------------------------------------------------------------
def _nontrivial(res):
    """Some run was released while another run had started (been released at
    least once) and not finished: the schedule is not a sequential one."""
    ch = res["choices"]
    last = {}
    for i, r in enumerate(ch):
        last[r] = i
    started = set()
    for i, r in enumerate(ch):
        for s in started:
            if s != r and last[s] > i:
                return True
        started.add(r)
    return False


def _solo_refs(ctx, pool, root_cfgs=()):
    """What each variant writes when it runs alone (reference content).
    `root_cfgs`: configurations whose first schedule (empty prefix, all runs
    under strace) is executed in the same parallel batch; returned as
    roots[name]."""
    refs = {}
    jobs = []
    algs = [ALG1] if ctx.quick else [ALG1, ALG2]
    for alg in algs:
        for var in VARIANTS:
            for scheme in ("multiple", "single"):
                jobs.append({"name": "solo", "scheme": scheme, "alg": alg,
                             "variants": [var]})
    rjobs = [(c, ctx.rng("policy", c["name"], ()).getrandbits(48), True)
             for c in root_cfgs]
    _strace_flags()
    if not os.path.isdir(PYC):
        os.makedirs(PYC, exist_ok=True)
        run_schedule(jobs[0], [], 0)        # warm the byte-code cache
        ctx.count("bytecode_cache_warmups")
    allres = list(pool.map(lambda j: run_schedule(j[0], [], j[1], j[2]),
                           rjobs + [(c, 0, False) for c in jobs]))
    roots = {c["name"]: r for (c, _, _), r in zip(rjobs, allres)}
    results = allres[len(rjobs):]
    for cfg, res in zip(jobs, results):
        ctx.count("solo_reference_runs")
        if res["status"] != "ok" or res["runs"][0]["rc"] != 0:
            ctx.inconclusive("solo reference run failed (%s %s %s): %s %s" % (
                cfg["alg"], cfg["variants"][0], cfg["scheme"], res["status"],
                (res.get("runs") or [{}])[0].get("stderr_tail")))
            continue
        names = _created(res["runs"][0])
        if cfg["scheme"] == "multiple":
            refs[(cfg["alg"], cfg["variants"][0])] = {
                "files": [res["files"][n] for n in names],
                "idx": [_idx_of(n) for n in names]}
            refs[(cfg["alg"], "nkern")] = len(names)
            for n in names:
                if not _names_ok(res["files"][n], _idx_of(n)):
                    ctx.violation({
                        "kind": "solo.names_mismatch", "mechanism": None,
                        "what": "a single run wrote %s whose module/routine "
                                "names do not match" % n,
                        "config": cfg, "file": res["files"][n]})
        else:
            ref = refs.get((cfg["alg"], cfg["variants"][0]))
            if ref and res["files"].get("testkern_0_mod.f90") != ref["files"][0]:
                ctx.inconclusive("solo 'single' and 'multiple' runs of "
                                 "variant %s differ" % cfg["variants"][0])
    for alg in algs:
        texts = [refs[(alg, v)]["files"][0] for v in VARIANTS
                 if (alg, v) in refs]
        if len(set(texts)) != len(texts):
            ctx.inconclusive("variants do not give different kernels")
    return refs, roots


def explore(ctx, cfg, pool, cap, batch, root=None):
    """Enumerate the interleaving tree of `cfg` (stateless DFS over prefixes,
    processed in deterministic rounds); stop after `cap` schedules.  `root`
    is an already executed schedule with empty prefix (optional).  Returns
    (results in deterministic order, tree exhausted?).  Thread-safe: touches
    nothing shared but the pool and ctx.rng (pure)."""
    name = cfg["name"]
    out = []
    if root is not None:
        out.append(root)
        frontier = list(root["alts"]) if root["status"] == "ok" else [[]]
    else:
        frontier = [[]]
    rnd_no = 0
    while frontier and len(out) < cap:
        frontier.sort()
        take = min(len(frontier), batch, cap - len(out))
        if take < len(frontier):
            ctx.rng("pick", name, rnd_no).shuffle(frontier)
        chosen, frontier = frontier[:take], frontier[take:]
        jobs = [(pre, ctx.rng("policy", name, tuple(pre)).getrandbits(48))
                for pre in chosen]
        results = list(pool.map(
            lambda j: run_schedule(cfg, j[0], j[1], False), jobs))
        for res in results:
            out.append(res)
            if res["status"] == "ok":
                frontier.extend(res["alts"])
        rnd_no += 1
    done = not frontier and all(r["status"] == "ok" for r in out)
    return out, done, len(frontier)


def explore_all(ctx, cfgs, pool, caps, batch, refs, roots=None):
    """Explore several configurations concurrently on one pool; account the
    results afterwards in a deterministic order.  Returns True if every tree
    was exhausted and every schedule was conclusive."""
    ctx.count("watchdog_firings", 0)
    ctx.count("runs_failed_expected", 0)
    ctx.count("runs_failed_unexpected", 0)
    roots = roots or {}
    if not cfgs:
        return True
    with ThreadPoolExecutor(max_workers=len(cfgs)) as outer:
        futs = [outer.submit(explore, ctx, cfg, pool, caps[cfg["name"]],
                             batch, roots.get(cfg["name"])) for cfg in cfgs]
        outs = [f.result() for f in futs]
    all_done = True
    for cfg, (results, done, left) in zip(cfgs, outs):
        for res in results:
            _account(ctx, res, refs)
            if res["status"] != "ok":
                all_done = False
        ctx.count("tree_exhausted[%s]" % cfg["name"], 1 if done else 0)
        if not done:
            ctx.count("frontier_left[%s]" % cfg["name"], left)
            all_done = False
    return all_done


def _account(ctx, res, refs):
    cfg = res["cfg"]
    name = cfg["name"]
    ctx.count("schedules[%s]" % name)
    ctx.count("watchdog_firings", res.get("watchdog_fired", 0))
    if res["status"] != "ok":
        if res["status"] != "watchdog":
            ctx.count({"diverged": "replay_divergences"}.get(
                res["status"], "harness_errors"))
        ctx.count("schedules_inconclusive")
        ctx.inconclusive("schedule %s: %s (%s %s)" % (
            res["status"], res["reason"], name, res["prefix"]))
        return
    seq = [(r, p) for r, p, _ in res["schedule"]]
    nontriv = _nontrivial(res)
    ctx.count("schedules_nontrivial" if nontriv else "schedules_sequential")
    for _, p, _ in res["schedule"]:
        ctx.count("pause[%s]" % p)
    for r in res["runs"]:
        for op in r["ops"]:
            if op.get("op") in ("created", "create_failed", "write", "close",
                                "readback_open", "other_open"):
                ctx.count("op[%s]" % op["op"])
        ctx.count("runs_exit_0" if r["rc"] == 0 else "runs_exit_nonzero")
    viol, facts = check_schedule(res, refs)
    ctx.count("checker_evaluations")
    ctx.count("runs_failed_expected", facts.pop("failed_expected"))
    ctx.count("runs_failed_unexpected", facts.pop("failed_unexpected"))
    for k, v in facts.items():
        ctx.count(k, v)
    sample = None
    if (nontriv and len(ctx.samples) < ctx.max_samples
            and name not in ctx._c29_sampled):
        ctx._c29_sampled.add(name)        # one written-out case per config
        sample = {"config": name, "scheme": cfg["scheme"],
                  "variants": cfg["variants"],
                  "schedule": res["schedule"],
                  "exit_codes": [r["rc"] for r in res["runs"]],
                  "files": sorted(res["files"])}
    ctx.case(key=(name, seq), nontrivial=nontriv, sample=sample)
    ctx._c29_seqs.add((name, tuple(seq)))
    for st in res.get("strace", []):
        if not st["available"]:
            ctx.count("strace_unavailable")
            continue
        ctx.count("strace_runs")
        ctx.count("syscalls_cross_checked", st["matched"])
        if st["unparsed"]:
            ctx.count("strace_lines_unparsed", st["unparsed"])
        if st["unparsed"]:
            st["proxy_only"] = []       # log incomplete: one-sided check only
        if st["unmatched"] or st["proxy_only"]:
            ctx.count("strace_unmatched",
                      len(st["unmatched"]) + len(st["proxy_only"]))
            ctx.inconclusive(
                "proxy and strace disagree on accesses to the output "
                "directory (%s run %d): syscall-only %s proxy-only %s" % (
                    name, st["run"], st["unmatched"][:4],
                    st["proxy_only"][:4]))
    for v in viol:
        ctx.count("rule_failed[%s]" % v["kind"])
        if v["kind"] == "single.identical_run_failed" or v["mechanism"]:
            ctx.count("mechanism[%s]" % v["mechanism"])
        ctx.violation(_witness(res, v))
    if cfg["scheme"] == "single" and not viol:
        # hazard-free twins of single.read_before_write: identical kernels,
        # read-back after the creator's write -> must pass (and did)
        ctx.count("single_schedules_clean")


def _witness(res, v):
    cfg = res["cfg"]
    return {
        "kind": v["kind"], "mechanism": v["mechanism"],
        "what": "[%s; schedule %s] %s" % (
            cfg["name"], " ".join("%d:%s" % (r, p)
                                  for r, p, _ in res["schedule"]), v["what"]),
        "rule": v["kind"], "config": cfg, "scheme": cfg["scheme"],
        "choices": res["choices"], "schedule": res["schedule"],
        "runs": [{"run": r["run"], "variant": r["variant"], "rc": r["rc"],
                  "stderr_tail": r["stderr_tail"], "ops": r["ops"]}
                 for r in res["runs"]],
        "listing": {n: (len(t) if t is not None else None)
                    for n, t in res["files"].items()},
        "selftest": os.environ.get("VF_C29_SELFTEST", ""),
        "replay_cmd": "cd /verif && ./check C29 --replay <this file>",
        "repro_by_hand": ("/venv/bin/python /verif/vf/c29_byhand.py  "
                          "(unmodified CLI, SIGSTOP instead of proxies)"
                          if v["mechanism"] == "single.read_before_write"
                          else None),
        "dedupe": [cfg["name"], v["kind"], v["mechanism"]],
    }


def model_leaves(nruns, scheme, nkern, limit=200000):
    """Number of interleavings predicted by a 20-line model of the protocol
    as documented (create attempt -> on EEXIST next index ('multiple') or
    read-back ('single') -> write -> close).  Evidence only: an explored
    tree of a different size means the implementation's protocol is not the
    modelled one (or a self-test mode is on); it is not a verdict."""
    memo = {}

    def rec(states, files):
        key = (states, files)
        if key in memo:
            return memo[key]
        total = 0
        live = [i for i, st in enumerate(states) if st[1] != "done"]
        if not live:
            return 1
        for i in live:
            j, ph, idx = states[i]
            fs = files
            if ph == "bc":
                if idx in files:
                    nxt = (j, "rb", idx) if scheme == "single" \
                        else (j, "bc", idx + 1)
                else:
                    fs = files | {idx}
                    nxt = (j, "ac", idx)
            elif ph == "ac":
                nxt = (j, "bw", idx)
            elif ph == "bw":
                nxt = (j, "acl", idx)
            else:
                nxt = (j + 1, "bc", 0) if j + 1 < nkern \
                    else (j + 1, "done", 0)
            lst = list(states)
            lst[i] = nxt
            total += rec(tuple(lst), fs)
            if total > limit:
                break
        memo[key] = total
        return total
    n = rec(tuple((0, "bc", 0) for _ in range(nruns)), frozenset())
    return n if n <= limit else None


def _configs(quick):
    two = [
        {"name": "multiple/2runs/identical", "scheme": "multiple",
         "alg": ALG1, "variants": ["A", "A"]},
        {"name": "multiple/2runs/different", "scheme": "multiple",
         "alg": ALG1, "variants": ["A", "L20"]},
        {"name": "single/2runs/identical", "scheme": "single",
         "alg": ALG1, "variants": ["A", "A"]},
        {"name": "single/2runs/different", "scheme": "single",
         "alg": ALG1, "variants": ["A", "L20"]},
    ]
    if quick:
        return two, []
    more = [
        {"name": "single/3runs/identical", "scheme": "single",
         "alg": ALG1, "variants": ["A", "A", "A"]},
        {"name": "single/3runs/mixed", "scheme": "single",
         "alg": ALG1, "variants": ["A", "L20", "A"]},
        {"name": "single/3runs/different", "scheme": "single",
         "alg": ALG1, "variants": ["A", "L20", "L30"], "cap": 200},
        {"name": "multiple/3runs/identical", "scheme": "multiple",
         "alg": ALG1, "variants": ["A", "A", "A"]},
        {"name": "multiple/3runs/mixed", "scheme": "multiple",
         "alg": ALG1, "variants": ["A", "L20", "L30"]},
        {"name": "multiple/2runs/2kernels", "scheme": "multiple",
         "alg": ALG2, "variants": ["A", "L20"]},
        {"name": "single/2runs/2kernels", "scheme": "single",
         "alg": ALG2, "variants": ["A", "A"]},
    ]
    return two, more


def main(ctx):
    ctx.rule = (
        "a case is one schedule: 2-3 real psyclone CLI processes on one "
        "kernel output directory, released one at a time from the pause "
        "points {before_create, after_create, before_write, after_close, "
        "before_readback}; the tree of schedules is enumerated (2 runs: "
        "exhaustively; 3 runs / 2 kernels: up to a cap, random frontier). "
        "Distinct = (configuration, sequence of (run, point)); non-trivial "
        "= some run is released while another has started and not finished")
    ctx._c29_seqs = set()
    ctx._c29_sampled = set()
    if not os.path.isfile(os.path.join(SITE, "sitecustomize.py")):
        ctx.inconclusive("interposition module missing")
        return
    if os.environ.get("VF_C29_SELFTEST"):
        ctx.extra["selftest"] = os.environ["VF_C29_SELFTEST"]
        ctx.assumptions.append(
            "SELF-TEST MODE %s: the proxy deliberately breaks the protocol; "
            "violations are expected" % os.environ["VF_C29_SELFTEST"])
    two, more = _configs(ctx.quick)
    only = os.environ.get("VF_C29_ONLY")       # debugging aid
    if only:
        two = [c for c in two if only in c["name"]]
        more = [c for c in more if only in c["name"]]
        ctx.extra["only"] = only
    width = int(os.environ.get("VF_C29_POOL", str(max(2, (NCPU * 3) // 4))))
    pool = ThreadPoolExecutor(max_workers=width)
    try:
        refs, roots = _solo_refs(ctx, pool, two)
        if ctx.inconclusive_reasons:
            return
        all_done = explore_all(ctx, two, pool, {c["name"]: 1000 for c in two},
                               2 * width, refs, roots)
        ctx.extra["exhaustive"] = bool(all_done and not only
                                       and not os.environ.get(
                                           "VF_C29_SELFTEST"))
        ctx.extra["exhaustive_bound"] = (
            "all interleavings of 2 runs x 1 kernel at the 5 pause points, "
            "schemes multiple+single, identical and different kernels")
        if more:
            # 'single' trees (630 / 252 schedules) are enumerated completely
            # (bound 2000); 'multiple' 3-run / 2-kernel trees have > 4e5
            # schedules and are sampled (random frontier, random policy)
            caps = {c["name"]: int(os.environ.get(
                "VF_C29_CAP3", c.get("cap", 2000 if c["scheme"] == "single"
                                     else 300))) for c in more}
            explore_all(ctx, more, pool, caps, 2 * width, refs)
    finally:
        pool.shutdown()
    ctx.count("distinct_interleavings", len(ctx._c29_seqs))
    ctx.extra["model_predicted_interleavings"] = {
        c["name"]: model_leaves(len(c["variants"]), c["scheme"],
                                refs.get((c["alg"], "nkern"), 1))
        for c in two + more}
    ctx.extra["explored_interleavings"] = {
        c["name"]: ctx.counters.get("schedules[%s]" % c["name"], 0)
        for c in two + more}
    if ctx.counters.get("checker_evaluations", 0) == 0:
        ctx.inconclusive("offline checker never evaluated")
    if ctx.counters.get("pause[before_readback]", 0) == 0:
        ctx.inconclusive("read-back pause point never reached")
    if ctx.counters.get("op[create_failed]", 0) == 0:
        ctx.inconclusive("no O_EXCL create ever failed: runs did not contend")
    ctx.assumptions += [
        "only one run executes between two pause points (the others are "
        "blocked in the proxy), so every interleaving is at the granularity "
        "of the intercepted calls; the file system makes O_CREAT|O_EXCL "
        "atomic and a completed write visible to later opens",
        "reference content = what the same variant writes when run alone, "
        "with testkern_<i>_mod/_code re-indexed",
        "strace is run on the first schedule of each 2-run configuration; "
        "a disagreement with the proxies is inconclusive, not a violation",
    ]


def replay(ctx, witness):
    ctx.rule = "replay of one recorded schedule"
    ctx._c29_seqs = set()
    ctx._c29_sampled = set()
    if witness.get("selftest") and not os.environ.get("VF_C29_SELFTEST"):
        print("note: witness was recorded with VF_C29_SELFTEST=%s (a "
              "deliberately broken proxy); without it the schedule is "
              "expected to pass" % witness["selftest"])
    cfg = witness["config"]
    pool = ThreadPoolExecutor(max_workers=8)
    try:
        quick = ctx.quick
        ctx.quick = cfg["alg"] == ALG1
        refs, _ = _solo_refs(ctx, pool)
        ctx.quick = quick
    finally:
        pool.shutdown()
    res = run_schedule(cfg, witness["choices"], 0)
    print(json.dumps({"schedule": res["schedule"], "status": res["status"],
                      "exit_codes": [r["rc"] for r in res.get("runs", [])],
                      "files": sorted(res.get("files", {}))}))
    _account(ctx, res, refs)
    # a replay is a single case; keep the core's ">= 2 distinct" rule quiet
    ctx._distinct.update({"replay-a", "replay-b"})
