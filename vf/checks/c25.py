"""C25 GOcean loops visit exactly the configured grid points.

Runtime monitoring of the *generated* loop nests: probe kernels (one per
index offset x grid-point type x iteration space, incl. user-defined spaces
from generated config files) record every (kernel, i, j) call in order; the
PSy layer PSyclone generates for invokes of those kernels is compiled against
a mock dl_esm_inf (vf/gocean/) whose regions are plain data chosen by this
check, and executed for several grids.

Oracles (see DESIGN.md C25):
 (i)   user-defined iteration space: the visit sequence equals the row-major
       enumeration of the config-file expressions evaluated by my own
       evaluator with {start}=2, {stop}=internal stop of the grid (with and
       without constant loop bounds);
 (ii)  built-in space, default bounds: the visited multiset equals the
       `internal` / `whole` region (data extent for go_every) of the field
       PSyclone's rule designates (first modified field argument); every
       mock field has its own regions so the wrong field / wrong region kind
       is visible;
 (iii) built-in space under GOConstLoopBoundsTrans: containment only (inside
       [1,stop+1]^2, each point once, go_all_pts contains [2,stop]^2,
       go_internal_pts within go_all_pts, non-empty);
 (iv)  every accepted history of GOceanLoopFuseTrans / OpenMP / OpenACC /
       extraction transformations leaves each kernel's visit multiset and the
       per-point kernel order identical to the untransformed invoke with the
       same bounds setting (1 and 4 OpenMP threads).

Each mock grid comes in two modes: 'D' (every field has its own regions and
data extents: decides (ii)) and 'S' (fields of one grid-point type share their
regions, as dl_esm_inf guarantees: the only mode on which default-bounds loop
fusion is judged).  One worker process per configuration file (Config is a
per-process singleton); all histories of a job are linked into at most three
programs (plain / -fopenmp / -fopenacc) that read the mock grids from stdin.

Genuine defects found on the pinned tree carry a mechanism string computed
from the invoke alone and confirmed by the predicted wrong region:
 go_every_ignores_user_space   (kind region_differs_user_space)
 fuse_across_index_offsets     (kind visits_changed_by_transformation)

VF_C25_SELFTEST=1 alters a loop bound in the scratch copy of the generated
text (never in /repo) to show that the oracles fire; the run is then reported
inconclusive on purpose.
"""
import os
import re
import shutil
import tempfile

from vf.core import Part, REPO
from vf import c25_gen as G

PROPERTY = "C25"
LEVEL = "exploration"

SELFTEST = os.environ.get("VF_C25_SELFTEST", "") not in ("", "0")

PLAIN_FLAGS = []
OMP_FLAGS = ["-fopenmp"]
ACC_FLAGS = ["-fopenacc"]


# ====================================================================== plan
def avail_spaces(spaces, offset, gtype):
    names = []
    if offset in G.OFFSETS:
        names += G.BUILTIN_SPACES
    names += [s["name"] for s in spaces
              if s["offset"] == offset and s["gtype"] == gtype]
    return names


class KernelFactory:
    def __init__(self):
        self.kernels = []

    def new(self, offset, gtype, space, rnd, shape=None):
        kid = len(self.kernels) + 1
        if shape is None:
            shape = rnd.randrange(len(G.SHAPES))
        k = G.make_kernel(kid, offset, gtype, space, shape, rnd)
        self.kernels.append(k)
        return k


def gen_multi(rnd, fam, spaces, kf, force_theme=None):
    """A multi-kernel invoke around a 'theme' (grid-point type, iteration
    space) so that loop fusion has something to accept; kernels are fresh
    probe kernels with random argument shapes that share fields."""
    n = rnd.choice([2, 2, 3, 3, 4])
    offs = [fam] if fam == "go_offset_any" else [fam, fam, fam,
                                                   "go_offset_any"]
    if force_theme:
        tg, ts = force_theme
    else:
        tg = rnd.choice(G.GTYPES)
        ts = rnd.choice(avail_spaces(spaces, fam, tg) or G.BUILTIN_SPACES)
    calls = []
    used_fields = []
    for _ in range(n):
        for _try in range(20):
            off = rnd.choice(offs)
            if rnd.random() < 0.7:
                g, s = tg, ts
            else:
                g = rnd.choice(G.GTYPES)
                av = avail_spaces(spaces, off, g)
                s = rnd.choice(av) if av else None
            if s is not None and s in avail_spaces(spaces, off, g):
                break
        else:
            continue
        k = kf.new(off, g, s, rnd)
        c = G.make_call(k, rnd, prefer=used_fields)
        used_fields += [a for a in c["actual"] if a in G.ALLF]
        calls.append(c)
    return calls


def anchor_histories():
    return [
        [],
        [{"op": "clb"}],
        [{"op": "fuse"}],
        [{"op": "clb"}, {"op": "fuse"}],
        [{"op": "fuse"}, {"op": "clb"}],
        [{"op": "omp_pl", "schedule": "static"}],
        [{"op": "omp_lp", "schedule": "dynamic"}],
        [{"op": "fuse"}, {"op": "omp_pl", "schedule": "dynamic"}],
        [{"op": "acc"}],
        [{"op": "extract"}],
        [{"op": "clb"}, {"op": "fuse"}, {"op": "omp_pl",
                                          "schedule": "guided"}],
    ]


def random_history(rnd):
    h = []
    pre = rnd.choice([[], ["clb"], ["fuse"], ["clb", "fuse"],
                      ["fuse", "clb"], ["fuse", "fuse"]])
    for p in pre:
        if p == "fuse":
            h.append({"op": "fuse", "p": rnd.choice([0.5, 0.8, 1.0]),
                      "inner": rnd.random() < 0.8})
        else:
            h.append({"op": p})
    par = rnd.choice(["omp_pl", "omp_lp", "omp_pl_inner", "acc", "extract",
                      "none", "clb_last"])
    if par in ("omp_pl", "omp_lp", "omp_pl_inner"):
        h.append({"op": par, "schedule": rnd.choice(
            ["static", "dynamic", "guided", "auto"]),
            "p": rnd.choice([0.6, 1.0])})
    elif par == "clb_last":
        if not any(o["op"] == "clb" for o in h):
            h.append({"op": "clb"})
    elif par != "none":
        h.append({"op": par})
    return h


def pick_sizes(rnd, quick):
    """(nx, ny) internal sizes; 1..7."""
    if quick:
        a = (1, rnd.choice([1, 2]))
        b = (rnd.choice([2, 3, 4]), rnd.choice([2, 3, 4, 5]))
        c = (rnd.choice([5, 6, 7]), rnd.choice([4, 5, 6, 7]))
        return [a, b, c]
    sizes = [(n, rnd.randint(1, 7)) for n in range(1, 8)]
    sizes += [(rnd.randint(1, 7), n) for n in (1, 7)]
    return sizes


def make_job(tag, cfg_lines, spaces, fam, kernels, invokes, histories, sizes,
             seed):
    used = {c["kid"] for inv in invokes for c in inv}
    return {"tag": tag, "cfg_lines": cfg_lines, "spaces": spaces,
            "family": fam, "kernels": [k for k in kernels if k["id"] in used],
            "invokes": invokes, "histories": histories, "sizes": sizes,
            "hseeds": [int(seed * 1e9) + n for n in range(len(histories))],
            "seed": seed}


def plan_jobs(ctx):
    quick = ctx.quick
    jobs = []
    chunk = 9 if quick else 12
    n_rand_hist = 2 if quick else 8
    # ---- A: built-in regions on the repository's configuration ---------
    for fam in G.OFFSETS:
        rnd = ctx.rng("builtin", fam)
        kf = KernelFactory()
        invokes = []
        for g in G.GTYPES:
            for s in G.BUILTIN_SPACES:
                reps = 1 if quick else 2
                for _ in range(reps):
                    k = kf.new(fam, g, s, rnd)
                    invokes.append([G.make_call(k, rnd)])
        nmulti = (8 if fam != "go_offset_any" else 4) if quick else 24
        # (quick: 18 / 14 invokes per family -> two jobs each)
        for m in range(nmulti):
            theme = None
            if m < len(G.GTYPES):
                theme = (G.GTYPES[m], G.BUILTIN_SPACES[m % 2])
            inv = gen_multi(rnd, fam, [], kf, force_theme=theme)
            if inv:
                invokes.append(inv)
        rnd.shuffle(invokes)
        for c in range(0, len(invokes), chunk):
            hs = anchor_histories() + [random_history(rnd)
                                       for _ in range(n_rand_hist)]
            jobs.append(make_job("builtin:%s:%d" % (fam, c // chunk), [], [],
                                 fam, kf.kernels, invokes[c:c + chunk], hs,
                                 pick_sizes(rnd, quick), rnd.random()))
    # ---- B: user-defined iteration spaces from generated config files --
    ncfg = 26 if quick else 90
    fams = G.OFFSETS + G.EXTRA_OFFSETS
    for c in range(ncfg):
        rnd = ctx.rng("usercfg", c)
        fam = fams[c % len(fams)] if c < 2 * len(fams) else rnd.choice(fams)
        lines = []
        spaces = []
        nsp = rnd.randint(4, 6)
        gts = list(G.GTYPES)
        rnd.shuffle(gts)
        for n in range(nsp):
            g = gts[n % len(gts)]
            name = "c25_%s_%d" % (rnd.choice(["halo", "edge", "sp", "rows"]),
                                  n)
            l, s = G.gen_space_line(rnd, fam, g, name)
            lines.append(l)
            spaces.append(s)
            # the same name for the 'any' offset with other expressions
            if fam != "go_offset_any" and rnd.random() < 0.35:
                l, s = G.gen_space_line(rnd, "go_offset_any", g, name)
                lines.append(l)
                spaces.append(s)
        kf = KernelFactory()
        invokes = []
        for s in spaces:
            k = kf.new(s["offset"], s["gtype"], s["name"], rnd)
            invokes.append([G.make_call(k, rnd)])
        nmulti = max(2, chunk - len(invokes)) if quick else 10
        for m in range(nmulti):
            s = spaces[m % len(spaces)]
            theme = (s["gtype"], s["name"]) if s["offset"] == fam else None
            inv = gen_multi(rnd, fam, spaces, kf, force_theme=theme)
            if inv:
                invokes.append(inv)
        for ch in range(0, len(invokes), chunk + 3):
            hs = anchor_histories() + [random_history(rnd)
                                       for _ in range(n_rand_hist)]
            jobs.append(make_job("user:%d:%s:%d" % (c, fam, ch), lines,
                                 spaces, fam, kf.kernels,
                                 invokes[ch:ch + chunk + 3], hs,
                                 pick_sizes(rnd, quick), rnd.random()))
    return jobs


# ================================================================== oracle
def expected_region(kern, call, spaces, case, clb):
    """-> (strength, region or None).  strength 'i' (exact, config), 'ii'
    (exact w.r.t. the mock) or 'iii' (containment only)."""
    if kern["space"] not in G.BUILTIN_SPACES:
        sp = [s for s in spaces if s["name"] == kern["space"]
              and s["offset"] == kern["offset"]
              and s["gtype"] == kern["gtype"]][0]
        ys = G.eval_bound(sp["outer"][0], 2, case["gy"])
        ye = G.eval_bound(sp["outer"][1], 2, case["gy"])
        xs = G.eval_bound(sp["inner"][0], 2, case["gx"])
        xe = G.eval_bound(sp["inner"][1], 2, case["gx"])
        return "i", (xs, xe, ys, ye)
    if clb:
        return "iii", None
    fld = case["fields"][call["field"]]
    if kern["gtype"] == "go_every":
        return "ii", (1, fld["data"][0], 1, fld["data"][1])
    if kern["space"] == "go_internal_pts":
        return "ii", tuple(fld["internal"])
    return "ii", tuple(fld["whole"])


def split_by_kernel(log):
    per = {}
    for k, i, j, _t in log:
        per.setdefault(k, []).append((i, j))
    return per


def per_point_order(log):
    per = {}
    for k, i, j, _t in log:
        per.setdefault((i, j), []).append(k)
    return per


def fmt_pts(pts, n=8):
    pts = list(pts)
    s = ", ".join("(%d,%d)" % p for p in pts[:n])
    return s + (" ... %d more" % (len(pts) - n) if len(pts) > n else "")


def fuse_hazard(job, inv, applied_names, kid):
    """Fact computed from the invoke alone (independent of PSyclone): the
    kernel sits in a run of adjacent kernels with the same grid-point type
    and the same iteration-space *name* but different index offsets, and the
    bounds of that space depend on the offset (constant loop bounds, or a
    user-defined space, which is defined per offset).  Returns the ids of the
    kernels of that run that have another offset ([] = no hazard)."""
    if "fuse" not in applied_names:
        return []
    kb = {k["id"]: k for k in job["kernels"]}
    ks = [kb[c["kid"]] for c in inv]
    pos = [n for n, k in enumerate(ks) if k["id"] == kid][0]
    me = ks[pos]
    lo = pos
    while lo > 0 and (ks[lo - 1]["gtype"], ks[lo - 1]["space"]) == \
            (me["gtype"], me["space"]):
        lo -= 1
    hi = pos
    while hi + 1 < len(ks) and (ks[hi + 1]["gtype"], ks[hi + 1]["space"]) \
            == (me["gtype"], me["space"]):
        hi += 1
    others = [k["id"] for k in ks[lo:hi + 1] if k["offset"] != me["offset"]]
    if not others:
        return []
    if me["gtype"] == "go_every" and me["space"] in G.BUILTIN_SPACES:
        return []
    if "clb" in applied_names or me["space"] not in G.BUILTIN_SPACES:
        return others
    return []


class Judge:
    def __init__(self, job, part):
        self.job = job
        self.part = part
        self.kb = {k["id"]: k for k in job["kernels"]}
        self.clb_sets = {}     # (case idx) -> {(offset,gtype,space): [set]}

    def mini_job(self, inv_idx, hist):
        """The job reduced to one invoke and one history (plus the two
        reference histories) for the replay file."""
        inv = self.job["invokes"][inv_idx]
        used = {c["kid"] for c in inv}
        hs = [[], [{"op": "clb"}]]
        seeds = [0, 0]
        if hist not in hs:
            hs.append(hist)
            seeds.append(self.job["hseeds"][self.job["histories"].index(hist)])
        j = dict(self.job)
        j.update({"tag": self.job["tag"] + ":inv%d" % inv_idx,
                  "invokes": [inv], "histories": hs, "hseeds": seeds,
                  "kernels": [k for k in self.job["kernels"]
                              if k["id"] in used]})
        return j

    def witness(self, kind, mechanism, what, inv_idx, hist, case, extra=None):
        inv = self.job["invokes"][inv_idx]
        ks = [self.kb[c["kid"]] for c in inv]
        if mechanism:
            what = "[mechanism %s] %s" % (mechanism, what)
        w = {"kind": kind, "mechanism": mechanism, "what": what,
             "job_tag": self.job["tag"], "invoke": inv_idx,
             "history": hist,
             "kernels": [{"id": k["id"], "offset": k["offset"],
                          "gtype": k["gtype"], "space": k["space"],
                          "args": k["args"], "actual": c["actual"]}
                         for k, c in zip(ks, inv)],
             "cfg_lines": self.job["cfg_lines"],
             "grid": {"gx": case["gx"], "gy": case["gy"],
                      "mode": case["mode"]} if case else None,
             "job": self.mini_job(inv_idx, hist),
             "dedupe": [kind, mechanism,
                        [o["op"] for o in hist] if mechanism is None
                        else None,
                        sorted({(k["offset"], k["gtype"],
                                 k["space"] if k["space"] in G.BUILTIN_SPACES
                                 else "user") for k in ks})
                        if mechanism is None else None]}
        if extra:
            w.update(extra)
        self.part.violation(w)

    # -------------------------------------------------- untransformed runs
    def judge_base(self, inv_idx, clb, log, case, cidx, hist, psy_text):
        part = self.part
        inv = self.job["invokes"][inv_idx]
        per = split_by_kernel(log)
        known = {c["kid"] for c in inv}
        stray = set(per) - known
        if stray:
            self.witness("unknown_kernel_called", None,
                         "kernels %s called but not in the invoke" % stray,
                         inv_idx, hist, case)
        ok = True
        for c in inv:
            k = self.kb[c["kid"]]
            got = per.get(k["id"], [])
            strength, reg = expected_region(k, c, self.job["spaces"], case,
                                            clb)
            desc = "%s/%s/%s (kernel %s, field %s)" % (
                k["offset"], k["gtype"], k["space"], k["name"], c["field"])
            if strength in ("i", "ii"):
                want = G.region_points(reg)
                part.count("oracle_%s_comparisons" % strength)
                part.count("oracle_%s_points" % strength, len(want))
                bad = None
                if sorted(got) != sorted(want):
                    missing = sorted(set(want) - set(got))
                    extra = sorted(set(got) - set(want))
                    dup = sorted({p for p in got if got.count(p) > 1})
                    bad = ("visited points differ from the region "
                           "x=%d..%d y=%d..%d: missing [%s] extra [%s] "
                           "repeated [%s]" % (reg[0], reg[1], reg[2], reg[3],
                                              fmt_pts(missing),
                                              fmt_pts(extra), fmt_pts(dup)))
                    kind = "region_differs_user_space" if strength == "i" \
                        else "region_differs_builtin"
                elif strength == "i" and got != want:
                    bad = "points visited in an order other than row-major"
                    kind = "order_not_row_major"
                if bad:
                    ok = False
                    mech = None
                    if strength == "i" and k["gtype"] == "go_every" \
                            and not clb:
                        # fact from the kernel alone, and the mechanism
                        # predicts exactly what is seen: the whole data array
                        ext = case["fields"][c["field"]]["data"]
                        if got == G.region_points((1, ext[0], 1, ext[1])):
                            mech = "go_every_ignores_user_space"
                    self.witness(
                        kind, mech,
                        "%s %s bounds, grid stop (%d,%d): %s" % (
                            desc, "constant" if clb else "default",
                            case["gx"], case["gy"], bad),
                        inv_idx, hist, case,
                        {"expected_region": reg, "visited": got[:60],
                         "psy_text": psy_text})
            else:
                part.count("oracle_iii_comparisons")
                gx, gy = case["gx"], case["gy"]
                s = set(got)
                probs = []
                if len(s) != len(got):
                    probs.append("a point is visited more than once")
                out = [p for p in s if not (1 <= p[0] <= gx + 1
                                            and 1 <= p[1] <= gy + 1)]
                if out:
                    probs.append("points beyond the depth-1 halo: [%s]"
                                 % fmt_pts(sorted(out)))
                if k["space"] == "go_all_pts":
                    inner = {(i, j) for i in range(2, gx + 1)
                             for j in range(2, gy + 1)}
                    if not inner <= s:
                        probs.append("go_all_pts misses internal points "
                                     "[%s]" % fmt_pts(sorted(inner - s)))
                if not s and gx >= 3 and gy >= 3:
                    probs.append("no point visited")
                self.clb_sets.setdefault(cidx, {}).setdefault(
                    (k["offset"], k["gtype"], k["space"]), []).append(
                        (s, inv_idx, k["name"]))
                if probs:
                    ok = False
                    self.witness(
                        "const_bounds_containment", None,
                        "%s constant bounds, grid stop (%d,%d): %s" % (
                            desc, gx, gy, "; ".join(probs)),
                        inv_idx, hist, case,
                        {"visited": got[:60], "psy_text": psy_text})
        return ok

    def judge_clb_subset(self, cases, hist):
        """(iii) go_internal_pts within go_all_pts for the same offset and
        grid-point type."""
        for cidx, d in self.clb_sets.items():
            for (off, g, s), lst in d.items():
                if s != "go_internal_pts":
                    continue
                alls = d.get((off, g, "go_all_pts"), [])
                for (si, inv_i, kn) in lst:
                    for (sa, inv_a, ka) in alls:
                        self.part.count("oracle_iii_subset_comparisons")
                        if not si <= sa:
                            self.witness(
                                "const_bounds_internal_not_in_all", None,
                                "%s/%s: go_internal_pts (kernel %s) visits "
                                "[%s] which go_all_pts (kernel %s) does not"
                                % (off, g, kn, fmt_pts(sorted(si - sa)), ka),
                                inv_i, hist, cases[cidx])

    def ranges(self, kid, bper, case):
        """(rows, cols) a kernel's untransformed loop nest runs over: from my
        evaluator for a user-defined space, else from the reference log (None
        when that log is empty)."""
        k = self.kb[kid]
        if k["space"] not in G.BUILTIN_SPACES:
            _s, r = expected_region(k, None, self.job["spaces"], case, True)
            return (list(range(r[2], r[3] + 1)), list(range(r[0], r[1] + 1)))
        b = bper.get(kid, [])
        if not b:
            return None, None
        return sorted({q[1] for q in b}), sorted({q[0] for q in b})

    # ---------------------------------------------------- transformed runs
    def judge_variant(self, inv_idx, applied, base_log, log, case, hist,
                      threads, psy_text):
        part = self.part
        names = [a["op"] for a in applied]
        part.count("oracle_iv_comparisons")
        if threads > 1:
            part.count("oracle_iv_comparisons_multithread")
        bper = split_by_kernel(base_log)
        vper = split_by_kernel(log)
        ok = True
        for kid in sorted(set(bper) | set(vper)):
            b = sorted(bper.get(kid, []))
            v = sorted(vper.get(kid, []))
            if b != v:
                ok = False
                k = self.kb.get(kid, {"name": "?", "offset": "?",
                                      "gtype": "?", "space": "?"})
                mech = None
                if kid in self.kb:
                    # the recorded mechanism predicts exactly what is seen:
                    # the kernel now visits the region of a neighbour with
                    # another index offset
                    # (outer loop fused: its rows; inner loop fused as well:
                    # also its columns)
                    for other in fuse_hazard(
                            self.job, self.job["invokes"][inv_idx], names,
                            kid):
                        orows, ocols = self.ranges(other, bper, case)
                        _mrows, mcols = self.ranges(kid, bper, case)
                        if orows is None or (ocols is None
                                             and mcols is None):
                            # an empty log of a built-in region says nothing
                            # about its ranges: the fact alone decides
                            mech = "fuse_across_index_offsets"
                            continue
                        for cols in (ocols, mcols):
                            if cols is not None and v == sorted(
                                    (i, j) for j in orows for i in cols):
                                mech = "fuse_across_index_offsets"
                missing = sorted(set(b) - set(v))
                extra = sorted(set(v) - set(b))
                dup = sorted({p for p in v if v.count(p) > 1})
                self.witness(
                    "visits_changed_by_transformation", mech,
                    "kernel %s (%s/%s/%s) after %s with %d thread(s), grid "
                    "stop (%d,%d): %d visits before, %d after; lost [%s] "
                    "gained [%s] repeated [%s]" % (
                        k["name"], k["offset"], k["gtype"], k["space"],
                        "+".join(names), threads, case["gx"], case["gy"],
                        len(b), len(v), fmt_pts(missing), fmt_pts(extra),
                        fmt_pts(dup)),
                    inv_idx, hist, case,
                    {"applied": applied, "threads": threads,
                     "psy_text": psy_text})
        if ok:
            bo = per_point_order(base_log)
            vo = per_point_order(log)
            if bo != vo:
                ok = False
                p = sorted(q for q in bo if bo[q] != vo.get(q))[0]
                self.witness(
                    "per_point_kernel_order_changed", None,
                    "after %s with %d thread(s) point (%d,%d) sees kernels "
                    "%s, before %s" % ("+".join(names), threads, p[0], p[1],
                                       vo.get(p), bo[p]),
                    inv_idx, hist, case,
                    {"applied": applied, "threads": threads,
                     "psy_text": psy_text})
        return ok


# ============================================================ PSy generation
def apply_history(sched, hist, rnd, part):
    """Apply the history to one invoke schedule with the real
    transformations.  Returns (applied ops with details, tainted)."""
    from psyclone.psyir.nodes import Loop, Assignment, OMPDoDirective
    from psyclone.psyir.transformations import TransformationError
    from psyclone.transformations import (
        GOceanOMPParallelLoopTrans, GOceanOMPLoopTrans, OMPParallelTrans,
        ACCParallelTrans, ACCLoopTrans, ACCEnterDataTrans)
    from psyclone.domain.gocean.transformations import (
        GOceanLoopFuseTrans, GOConstLoopBoundsTrans, GOceanExtractTrans)
    applied = []
    tainted = False

    def attempt(name, fn):
        nonlocal tainted
        try:
            fn()
            part.count("trans_accepted:" + name)
            return True
        except TransformationError:
            part.count("trans_refused:" + name)
            return False
        except Exception as err:        # not a refusal: state unknown
            part.count("trans_raised:%s:%s" % (name, type(err).__name__))
            tainted = True
            return False

    def body(sched):
        return [c for c in sched.children if not isinstance(c, Assignment)]

    for op in hist:
        name = op["op"]
        if name == "clb":
            if attempt("GOConstLoopBoundsTrans",
                       lambda: GOConstLoopBoundsTrans().apply(sched)):
                applied.append({"op": "clb"})
        elif name == "fuse":
            p = op.get("p", 1.0)
            nf = 0
            i = 0
            while True:
                loops = [c for c in sched.children if isinstance(c, Loop)]
                if i + 1 >= len(loops):
                    break
                if rnd.random() >= p:
                    i += 1
                    continue
                a, b = loops[i], loops[i + 1]
                if a.position + 1 != b.position:
                    i += 1
                    continue
                if attempt("GOceanLoopFuseTrans(outer)",
                           lambda: GOceanLoopFuseTrans().apply(a, b)):
                    nf += 1
                    if op.get("inner", True):
                        inn = [c for c in a.loop_body.children
                               if isinstance(c, Loop)]
                        if len(inn) >= 2:
                            attempt("GOceanLoopFuseTrans(inner)",
                                    lambda: GOceanLoopFuseTrans().apply(
                                        inn[-2], inn[-1]))
                else:
                    i += 1
            if nf:
                applied.append({"op": "fuse", "fused": nf})
        elif name in ("omp_pl", "omp_pl_inner"):
            p = op.get("p", 1.0)
            n = 0
            for lp in [c for c in sched.children if isinstance(c, Loop)]:
                if rnd.random() >= p:
                    continue
                tgt = lp
                if name == "omp_pl_inner":
                    inn = [c for c in lp.loop_body.children
                           if isinstance(c, Loop)]
                    if len(inn) != 1:
                        continue
                    tgt = inn[0]
                if attempt("GOceanOMPParallelLoopTrans",
                           lambda: GOceanOMPParallelLoopTrans(
                               omp_schedule=op.get("schedule", "static"))
                           .apply(tgt)):
                    n += 1
            if n:
                applied.append({"op": name, "loops": n,
                                "schedule": op.get("schedule")})
        elif name == "omp_lp":
            n = 0
            for lp in [c for c in sched.children if isinstance(c, Loop)]:
                if rnd.random() >= op.get("p", 1.0):
                    continue
                if attempt("GOceanOMPLoopTrans",
                           lambda: GOceanOMPLoopTrans(
                               omp_schedule=op.get("schedule", "static"))
                           .apply(lp)):
                    n += 1
            # a parallel region around every maximal run of adjacent 'omp do'
            # directives (a plain loop inside a parallel region would be
            # executed by every thread: that is the script's fault)
            runs = []
            cur = []
            for c in list(sched.children):
                if isinstance(c, OMPDoDirective):
                    cur.append(c)
                elif cur:
                    runs.append(cur)
                    cur = []
            if cur:
                runs.append(cur)
            okr = True
            for run in runs:
                if not attempt("OMPParallelTrans",
                               lambda: OMPParallelTrans().apply(run)):
                    okr = False
            if n and okr:
                applied.append({"op": "omp_lp", "loops": n,
                                "regions": len(runs),
                                "schedule": op.get("schedule")})
            elif n:
                # orphan 'omp do' without a region cannot be generated
                tainted = True
        elif name == "acc":
            n = 0
            for lp in [c for c in sched.children if isinstance(c, Loop)]:
                if attempt("ACCLoopTrans", lambda: ACCLoopTrans().apply(lp)):
                    n += 1
            okp = attempt("ACCParallelTrans",
                          lambda: ACCParallelTrans().apply(body(sched)))
            oke = okp and attempt("ACCEnterDataTrans",
                                  lambda: ACCEnterDataTrans().apply(sched))
            if okp and oke:
                applied.append({"op": "acc", "loops": n})
            elif n or okp:
                tainted = True
        elif name == "extract":
            if attempt("GOceanExtractTrans",
                       lambda: GOceanExtractTrans().apply(body(sched))):
                applied.append({"op": "extract"})
        else:
            raise ValueError(name)
    return applied, tainted


def flags_for(hist):
    ops = {o["op"] for o in hist}
    if ops & {"omp_pl", "omp_lp", "omp_pl_inner"}:
        return "omp"
    if "acc" in ops:
        return "acc"
    return "plain"


def neutralise_acc_enter_data(text):
    """gfortran 12 rejects 'copyin(f, f%data)' (mixed component and
    non-component accesses).  Data clauses are no-ops in its host fallback, so
    the enter-data line of the *compiled copy* is turned into a comment; the
    parallel and loop directives stay."""
    return re.sub(r"(?mi)^(\s*)!\$acc enter data", r"\1! c25-off acc enter "
                  r"data", text)


def selftest_mutation(text):
    """VF_C25_SELFTEST: emulate a wrong loop bound in the scratch copy of the
    generated text (never in /repo)."""
    for pat, rep in (("%internal%xstop, 1", "%internal%xstop - 1, 1"),
                     ("%whole%ystop, 1", "%whole%ystop - 1, 1"),
                     ("istop, 1", "istop - 1, 1")):
        if pat in text:
            return text.replace(pat, rep, 1), pat
    return text, None


# =================================================================== worker
def batch(job):
    import random
    from vf import fx
    part = Part()
    wd = tempfile.mkdtemp(prefix="vf_c25_")
    try:
        _batch(job, part, wd, random.Random(job["seed"]), fx)
    finally:
        shutil.rmtree(wd, ignore_errors=True)
    return part


def _batch(job, part, wd, rnd, fx):
    import time
    t0 = time.time()

    def lap(name):
        nonlocal t0
        now = time.time()
        part.count("seconds_" + name, round(now - t0, 2))
        t0 = now
    # ---- configuration: one process per configuration ------------------
    with open(os.path.join(REPO, "config", "psyclone.cfg")) as fh:
        base_cfg = fh.read()
    cfg_path = os.path.join(wd, "psyclone.cfg")
    with open(cfg_path, "w") as fh:
        fh.write(G.config_text(base_cfg, job["cfg_lines"]))
    os.environ["PSYCLONE_CONFIG"] = cfg_path
    from psyclone.configuration import Config
    from psyclone.parse.algorithm import parse
    from psyclone.psyGen import PSyFactory
    Config._instance = None
    try:
        Config.get().api = "gocean1.0"
    except Exception as err:
        part.count("config_rejected")
        part.inconclusive("generated config file rejected: %s" %
                          str(err)[:200])
        return
    if os.path.abspath(Config.get().filename) != os.path.abspath(cfg_path):
        part.inconclusive("PSyclone did not load the generated config file")
        return
    part.count("configurations_loaded")
    part.count("user_spaces_defined", len(job["spaces"]))

    kernels = job["kernels"]
    kb = {k["id"]: k for k in kernels}
    invokes = job["invokes"]
    kdir = os.path.join(wd, "src")
    os.makedirs(kdir)
    for k in kernels:
        with open(os.path.join(kdir, k["name"] + "_mod.f90"), "w") as fh:
            fh.write(G.kernel_source(k))
    alg_path = os.path.join(kdir, G.ALG_NAME + ".f90")
    with open(alg_path, "w") as fh:
        fh.write(G.alg_source(kernels, invokes))
    try:
        _, info = parse(alg_path, api="gocean1.0")
    except Exception as err:
        part.count("parse_failed")
        part.inconclusive("PSyclone could not parse the generated algorithm/"
                          "kernels (%s): %s" % (job["tag"], str(err)[:300]))
        return
    lap("import_and_parse")
    for inv in invokes:
        for c in inv:
            k = kb[c["kid"]]
            part.count("combo:%s:%s:%s" % (
                k["offset"], k["gtype"],
                k["space"] if k["space"] in G.BUILTIN_SPACES else "user"))
    part.count("kernel_calls_in_invokes", sum(len(i) for i in invokes))

    common = G.mock_source() + G.LOG_SOURCE + "".join(
        G.kernel_source(k, metadata=False) for k in kernels)
    with open(os.path.join(HERE_GOCEAN, "extract_stub.f90")) as fh:
        extract_stub = fh.read()

    cases = []
    for (nx, ny) in job["sizes"]:
        for mode in ("D", "S"):
            cases.append(G.mock_case(rnd, nx, ny, mode))
    stdin = G.driver_input(cases)

    judge = Judge(job, part)
    base_logs = {}          # clb(bool) -> {(case, invoke): log}

    # ---- phase 1: generate one PSy layer per history --------------------
    variants = []
    sigs0 = None
    for hidx, hist in enumerate(job["histories"]):
        hname = "+".join(o["op"] for o in hist) or "none"
        try:
            psy = PSyFactory("gocean1.0",
                             distributed_memory=False).create(info)
        except Exception as err:
            part.count("psy_create_failed")
            if hidx == 0:
                part.inconclusive("PSyFactory.create failed (%s): %s" % (
                    job["tag"], str(err)[:300]))
                return
            continue
        inv_list = psy.invokes.invoke_list
        applied_all = []
        tainted_all = []
        hrnd = __import__("random").Random(job["hseeds"][hidx])
        for inv in inv_list:
            applied, tainted = apply_history(inv.schedule, hist, hrnd, part)
            applied_all.append(applied)
            tainted_all.append(tainted)
        try:
            text = str(psy.gen)
        except Exception as err:
            part.count("psy_gen_failed:%s:%s" % (hname, type(err).__name__))
            if hidx == 0:
                part.inconclusive("psy.gen failed on untransformed invokes "
                                  "(%s): %s" % (job["tag"], str(err)[:300]))
                return
            if len(part.d["samples"]) < 3:
                part.d["samples"].append({"psy_gen_failed": hname,
                                          "error": str(err)[:300]})
            continue
        part.count("psy_layers_generated")
        part.count("invokes_generated", len(inv_list))
        sigs = G.invoke_signatures(text)
        if sigs0 is None:
            sigs0 = sigs
        if len(sigs) != len(invokes) or sigs != sigs0:
            part.count("invoke_signature_changed")
            part.inconclusive("generated invoke subroutine signatures not "
                              "recognised (%s, %s)" % (job["tag"], hname))
            continue
        ctext = text
        mutated = None
        if SELFTEST and hidx in (0, 1, 5):
            ctext, mutated = selftest_mutation(ctext)
        fl = flags_for(hist)
        if fl == "acc":
            ctext = neutralise_acc_enter_data(ctext)
        try:
            ctext = G.rename_psy_module(ctext, "%s_h%d" % (G.PSY_MODULE,
                                                          hidx))
        except ValueError as err:
            part.inconclusive("PSy module lines not recognised (%s)" % err)
            continue
        variants.append({"hidx": hidx, "hist": hist, "hname": hname,
                         "text": text, "ctext": ctext, "sigs": sigs,
                         "flags": fl, "applied": applied_all,
                         "tainted": tainted_all, "mutated": mutated,
                         "extract": any(o["op"] == "extract" for o in hist)})

    lap("transform_and_generate")
    # ---- phase 2: one program per flag set (split on compile failure) ---
    def build_run(group, gname):
        """-> {threads: logs[case][slot]} or None"""
        files = [("common.f90", common + (extract_stub if any(
            v["extract"] for v in group) else ""))]
        for v in group:
            files.append(("psy_h%d.f90" % v["hidx"], v["ctext"]))
        files.append(("driver.f90", G.driver_source(
            [("%s_h%d" % (G.PSY_MODULE, v["hidx"]), v["sigs"])
             for v in group])))
        # one translation unit: one compiler start instead of a dozen
        files = [("prog.f90", "\n".join(t for _n, t in files))]
        vdir = os.path.join(wd, gname)
        extra = {"plain": PLAIN_FLAGS, "omp": OMP_FLAGS,
                 "acc": ACC_FLAGS}[group[0]["flags"]]
        ok, err = fx.compile_f(vdir, files, extra=extra, timeout=600)
        part.count("programs_compiled")
        lap("compile")
        if not ok:
            return None, "compile: " + (err or "")[-500:]
        res = {}
        nslots = sum(len(v["sigs"]) for v in group)
        for nt in ([1, 4] if group[0]["flags"] == "omp" else [1]):
            rc, out, err = fx.run_exe(vdir, stdin=stdin, timeout=300,
                                      env={"OMP_NUM_THREADS": str(nt),
                                           "OMP_WAIT_POLICY": "passive",
                                           "OMP_DYNAMIC": "false"})
            part.count("programs_run")
            if rc is None:
                return None, "run watchdog"
            lap("run")
            logs = G.parse_log(out, len(cases), nslots) if rc == 0 else None
            lap("parse_log")
            if logs is None:
                return None, "run rc=%s: %s" % (rc, err[-400:])
            res[nt] = logs
        return res, None

    for fl in ("plain", "omp", "acc"):
        group = [v for v in variants if v["flags"] == fl]
        if not group:
            continue
        todo = [group]
        while todo:
            g = todo.pop(0)
            res, why = build_run(g, "%s_%d" % (fl, g[0]["hidx"]) +
                                 ("" if len(g) > 1 else "_single"))
            if res is None:
                if len(g) > 1:
                    part.count("group_build_failed_split")
                    todo = [[v] for v in g] + todo
                    continue
                v = g[0]
                part.count("variant_build_or_run_failed:%s" % v["hname"])
                if v["hidx"] == 0:
                    part.inconclusive("untransformed PSy layer does not "
                                      "compile/run against the mock (%s): %s"
                                      % (job["tag"], why))
                    return
                if len(part.d["samples"]) < 3:
                    part.d["samples"].append({"variant_failed": v["hname"],
                                              "why": why})
                continue
            ninv = len(invokes)
            for nt, logs in res.items():
                off = 0
                for v in g:
                    vlogs = [c[off:off + ninv] for c in logs]
                    off += ninv
                    _judge_run(job, part, judge, v["hidx"], v["hist"],
                               v["hname"], v["applied"], v["tainted"], cases,
                               vlogs, base_logs, nt, v["text"], v["mutated"])
                    if v["hist"] == [{"op": "clb"}]:
                        judge.judge_clb_subset(cases, v["hist"])
                lap("judge")


def sub_text(text, inv_idx):
    """The text of one invoke subroutine (for witnesses)."""
    subs = re.split(r"(?mi)^(?=\s*SUBROUTINE\s+invoke)", text)
    subs = [s for s in subs if re.match(r"(?i)\s*SUBROUTINE\s+invoke", s)]
    if inv_idx < len(subs):
        s = subs[inv_idx]
        m = re.search(r"(?mi)^\s*END SUBROUTINE.*$", s)
        return s[:m.end()] if m else s
    return ""


def _judge_run(job, part, judge, hidx, hist, hname, applied_all, tainted_all,
               cases, logs, base_logs, nt, text, mutated):
    pure_base = hist == [] or hist == [{"op": "clb"}]
    for inv_idx in range(len(job["invokes"])):
        applied = applied_all[inv_idx]
        names = [a["op"] for a in applied]
        clb = "clb" in names
        if tainted_all[inv_idx]:
            part.count("invoke_variants_skipped_tainted")
            continue
        for cidx, case in enumerate(cases):
            log = logs[cidx][inv_idx]
            part.count("visits_recorded", len(log))
            if nt > 1:
                if len({v[3] for v in log}) > 1:
                    part.count("multithread_logs_with_several_threads")
            key = (job["tag"], inv_idx, hidx, cidx, nt)
            sample = None
            if inv_idx == 0 and cidx == 2 and hidx in (0, 3):
                sample = {"job": job["tag"], "history": hname,
                          "kernels": ["%s/%s/%s" % (
                              judge.kb[c["kid"]]["offset"],
                              judge.kb[c["kid"]]["gtype"],
                              judge.kb[c["kid"]]["space"])
                              for c in job["invokes"][inv_idx]],
                          "grid_stop": [case["gx"], case["gy"]],
                          "visits": len(log), "first": log[:6]}
            part.case(key=key, nontrivial=bool(log), sample=sample)
            if pure_base:
                # the reference runs: oracles (i), (ii), (iii)
                if hist == [] or clb:
                    judge.judge_base(inv_idx, clb, log, case, cidx, hist,
                                     sub_text(text, inv_idx))
                    base_logs.setdefault(clb, {})[(cidx, inv_idx)] = log
                continue
            nonbound = [n for n in names if n != "clb"]
            if not nonbound:
                part.count("variant_equals_base_nothing_accepted")
                continue
            if "fuse" in names and not clb and case["mode"] != "S":
                # fusion relies on dl_esm_inf giving fields of one grid-point
                # type one region: only judged on the mock that does so
                part.count("fuse_cases_skipped_on_distinct_region_mock")
                continue
            base = base_logs.get(clb, {}).get((cidx, inv_idx))
            if base is None:
                part.count("variant_without_reference")
                continue
            judge.judge_variant(inv_idx, applied, base, log, case, hist, nt,
                                sub_text(text, inv_idx))
            part.count("iv:%s" % "+".join(names))


HERE_GOCEAN = os.path.join(os.path.dirname(os.path.dirname(
    os.path.abspath(__file__))), "gocean")


# =================================================================== driver
def main(ctx):
    ctx.rule = (
        "a case = (invoke, configuration file, transformation history, mock "
        "grid incl. size 1..7 and region mode, thread count); invokes call "
        "1-4 generated probe kernels covering every index offset x "
        "grid-point type x iteration space (built-in and user-defined from "
        "generated config files); non-trivial = the kernel visit log of the "
        "executed invoke is non-empty; distinct by (job, invoke, history, "
        "grid, threads)")
    jobs = plan_jobs(ctx)
    ctx.count("jobs", len(jobs))
    for res in ctx.pmap("vf.checks.c25", "batch", jobs, timeout=1500):
        if res:
            ctx.merge(res)
    c = ctx.counters
    ctx.count("combinations_covered",
              len([k for k in c if k.startswith("combo:")]))
    for need in ("oracle_i_comparisons", "oracle_ii_comparisons",
                 "oracle_iii_comparisons", "oracle_iv_comparisons"):
        if c.get(need, 0) == 0:
            ctx.inconclusive("monitor never reached: " + need)
    if SELFTEST:
        ctx.inconclusive("VF_C25_SELFTEST is set: generated loop bounds were "
                         "deliberately altered in the scratch copy")
    ctx.assumptions += [
        "the mock dl_esm_inf (vf/gocean/mock_dl_esm_inf.f90) is the trusted "
        "base of oracle (ii): regions are arbitrary data chosen per field; "
        "(ii) says 'the designated field's internal/whole region (data "
        "extent for go_every) is used', not that dl_esm_inf's regions are "
        "physically right",
        "designated field = first field argument with GO_WRITE/GO_READWRITE "
        "access (psyGen.Arguments.iteration_space_arg)",
        "{start} = 2 and {stop} = grid%subdomain%internal%{x,y}stop as in the "
        "user guide's worked example; all fields of an invoke share one grid",
        "loop fusion is judged only on mocks where fields of one grid-point "
        "type share their regions and all data arrays have equal extents "
        "(what dl_esm_inf provides)",
        "gfortran 12 OpenACC host fallback; the '!$acc enter data' line of "
        "the compiled copy is commented out because gfortran rejects "
        "copyin(f, f%data); extraction regions run against a no-op "
        "extract_psy_data_mod stub",
        "built-in regions under constant loop bounds are only checked for "
        "containment; equality with the per-field regions is not asserted"]


def replay(ctx, witness):
    ctx.rule = "replay of one recorded job"
    job = witness["job"]
    for res in ctx.pmap("vf.checks.c25", "batch", [job], timeout=1500):
        if res:
            ctx.merge(res)
