"""C21 helper: generator of LFRic kernel metadata and of an algorithm layer
that invokes the kernel once.

A *descriptor* is a JSON-able dict

  {"base": str,                      # kernel base name (<base>_mod/_type/_code)
   "kind": str,                      # generator family (general, lma, ...)
   "operates_on": "cell_column"|"domain",
   "args": [ {"t": "scalar", "dtype": gh_real|gh_integer|gh_logical,
              "access": ...}
           | {"t": "field", "dtype": gh_real|gh_integer, "access": ...,
              "fs": ..., "vec": 1.., "stencil": None|type,
              "mesh": None|gh_coarse|gh_fine}
           | {"t": "op"|"cma", "access": ..., "to": ..., "frm": ...} ],
   "funcs": [ {"fs": ..., "ops": ["gh_basis", "gh_diff_basis"]} ],
   "shapes": [...], "targets": None|[...],
   "mesh": [...], "refelem": [...],
   "alg": {...}}                     # algorithm-side choices (literals ...)

render_kernel(desc) and render_algorithm(desc) print the Fortran.  Everything
here is written from the user guide (doc/user_guide/dynamo0p3.rst, sections
"Metadata", "Rules for all User-Supplied Kernels ...", CMA, Inter-Grid,
Domain); whether a combination really is valid is decided by PSyclone's own
metadata validation, not here.
"""

CONT = ["w0", "w1", "w2", "w2trace", "w2h", "w2htrace", "any_w2"]
DISC = ["w3", "wtheta", "w2v", "w2vtrace", "w2broken"]
ANYSP = ["any_space_%d" % i for i in range(1, 11)]
ANYD = ["any_discontinuous_space_%d" % i for i in range(1, 11)]
RO = ["wchi"]

STENCILS = ["x1d", "y1d", "xory1d", "cross", "region", "cross2d"]
QSHAPES = ["gh_quadrature_xyoz", "gh_quadrature_face", "gh_quadrature_edge"]
SHAPES = QSHAPES + ["gh_evaluator"]
REFELEM = ["normals_to_horizontal_faces", "normals_to_vertical_faces",
           "normals_to_faces", "outward_normals_to_horizontal_faces",
           "outward_normals_to_vertical_faces", "outward_normals_to_faces"]
MESHPROPS = ["adjacent_face"]


def is_disc(fs):
    return fs in DISC or fs.startswith("any_discontinuous_space")


def pick_fs(rnd, disc=None):
    """A function-space name; disc=True/False forces (dis)continuity."""
    if disc is True:
        pool = DISC * 3 + ANYD[:4]
    elif disc is False:
        pool = CONT * 3 + ANYSP[:4]
    else:
        pool = CONT * 3 + DISC * 3 + ANYSP[:5] + ANYD[:4] + ANYSP[5:] + \
            ANYD[4:]
    return rnd.choice(pool)


def write_access(rnd, fs):
    if is_disc(fs):
        return rnd.choice(["gh_write", "gh_readwrite", "gh_readwrite"])
    return rnd.choice(["gh_inc", "gh_inc", "gh_readinc", "gh_write"])


def gen_field(rnd, written, fs=None, allow_stencil=True, allow_vec=True,
              allow_int=True, p_stencil=0.35):
    fs = fs or pick_fs(rnd)
    if fs == "wchi":
        written = False
    a = {"t": "field", "dtype": "gh_real", "fs": fs, "vec": 1,
         "stencil": None, "mesh": None}
    if allow_int and rnd.random() < 0.2:
        a["dtype"] = "gh_integer"
    if allow_vec and rnd.random() < 0.25:
        a["vec"] = rnd.choice([2, 3, 3, 3, 4])
    if written:
        a["access"] = write_access(rnd, fs)
    else:
        a["access"] = "gh_read"
        if allow_stencil and rnd.random() < p_stencil:
            a["stencil"] = rnd.choice(STENCILS)
    return a


def gen_scalar(rnd):
    return {"t": "scalar", "access": "gh_read",
            "dtype": rnd.choice(["gh_real", "gh_real", "gh_integer",
                                 "gh_logical"])}


def gen_op(rnd, written, t="op", spaces=None):
    to = rnd.choice(spaces) if spaces and rnd.random() < 0.6 else pick_fs(rnd)
    frm = rnd.choice(spaces) if spaces and rnd.random() < 0.6 else pick_fs(rnd)
    if rnd.random() < 0.25:
        frm = to
    acc = rnd.choice(["gh_write", "gh_readwrite"]) if written else "gh_read"
    return {"t": t, "access": acc, "to": to, "frm": frm}


def arg_spaces(args):
    out = []
    for a in args:
        for k in ("fs", "to", "frm"):
            if k in a and a[k] not in out:
                out.append(a[k])
    return out


def add_extras(rnd, d, p_funcs=0.45, p_ref=0.25, p_mesh=0.2):
    """meta_funcs + gh_shape (+targets), reference-element, mesh props."""
    spaces = arg_spaces(d["args"])
    if spaces and rnd.random() < p_funcs:
        # the stub generator cannot size basis arrays on any_*space_n, so
        # prefer the concrete spaces (the generic ones are still tried)
        concrete = [s for s in spaces if not s.startswith("any_") or
                    s == "any_w2"]
        pool = concrete if concrete and rnd.random() < 0.85 else spaces
        n = rnd.randint(1, min(3, len(pool)))
        for fs in rnd.sample(pool, n):
            ops = rnd.choice([["gh_basis"], ["gh_diff_basis"],
                              ["gh_basis", "gh_diff_basis"],
                              ["gh_diff_basis", "gh_basis"]])
            d["funcs"].append({"fs": fs, "ops": ops})
        ns = rnd.choice([1, 1, 1, 2, 2, 3, 4])
        d["shapes"] = rnd.sample(SHAPES, ns)
        if "gh_evaluator" in d["shapes"] and rnd.random() < 0.5:
            nt = rnd.randint(1, min(3, len(spaces)))
            d["targets"] = rnd.sample(spaces, nt)
    if rnd.random() < p_ref:
        d["refelem"] = rnd.sample(REFELEM, rnd.choice([1, 1, 2, 2, 3, 6]))
    if rnd.random() < p_mesh:
        d["mesh"] = ["adjacent_face"]


def new_desc(base, kind):
    return {"base": base, "kind": kind, "operates_on": "cell_column",
            "args": [], "funcs": [], "shapes": [], "targets": None,
            "mesh": [], "refelem": [], "alg": {}}


def gen_general(rnd, base, with_ops):
    d = new_desc(base, "lma" if with_ops else "general")
    n = rnd.randint(1, 6)
    nwritten = rnd.randint(1, max(1, n // 2))
    kinds = []
    for i in range(n):
        r = rnd.random()
        if with_ops and (r < 0.35 or (i == 0)):
            kinds.append("op")
        elif r < 0.8:
            kinds.append("field")
        else:
            kinds.append("scalar")
    if not any(k in ("op", "field") for k in kinds):
        kinds[0] = "field"
    writable = [i for i, k in enumerate(kinds) if k != "scalar"]
    wset = set(rnd.sample(writable, min(nwritten, len(writable))))
    shared = []
    for i, k in enumerate(kinds):
        if k == "scalar":
            a = gen_scalar(rnd)
        elif k == "op":
            a = gen_op(rnd, i in wset, "op", shared)
        else:
            fs = rnd.choice(shared) if shared and rnd.random() < 0.35 else None
            a = gen_field(rnd, i in wset, fs=fs, allow_int=not with_ops)
        d["args"].append(a)
        shared = arg_spaces(d["args"])
    add_extras(rnd, d)
    return d


def gen_cma_asm(rnd, base):
    d = new_desc(base, "cma_asm")
    to, frm = pick_fs(rnd), pick_fs(rnd)
    if rnd.random() < 0.3:
        frm = to
    args = [{"t": "cma", "access": rnd.choice(["gh_write", "gh_readwrite"]),
             "to": to, "frm": frm}]
    for _ in range(rnd.randint(1, 2)):
        if rnd.random() < 0.6:
            args.append({"t": "op", "access": "gh_read", "to": to,
                         "frm": frm})
        else:
            args.append(gen_op(rnd, False, "op", [to, frm]))
    for _ in range(rnd.choice([0, 0, 1, 2])):
        if rnd.random() < 0.5:
            args.append(gen_scalar(rnd))
        else:
            args.append(gen_field(rnd, False, allow_stencil=False,
                                  allow_vec=False, allow_int=False,
                                  fs=rnd.choice([to, frm, pick_fs(rnd)])))
    rnd.shuffle(args)
    d["args"] = args
    add_extras(rnd, d, p_funcs=0.1, p_ref=0.1, p_mesh=0.1)
    return d


def gen_cma_app(rnd, base):
    d = new_desc(base, "cma_app")
    to, frm = pick_fs(rnd), pick_fs(rnd)
    if rnd.random() < 0.3:
        frm = to
    args = [{"t": "field", "dtype": "gh_real", "fs": to, "vec": 1,
             "stencil": None, "mesh": None, "access": write_access(rnd, to)},
            {"t": "field", "dtype": "gh_real", "fs": frm, "vec": 1,
             "stencil": None, "mesh": None, "access": "gh_read"},
            {"t": "cma", "access": "gh_read", "to": to, "frm": frm}]
    rnd.shuffle(args)
    d["args"] = args
    add_extras(rnd, d, p_funcs=0.05, p_ref=0.05, p_mesh=0.05)
    return d


def gen_cma_mm(rnd, base):
    d = new_desc(base, "cma_mm")
    n = rnd.choice([2, 2, 3, 4])
    args = []
    for i in range(n):
        a = gen_op(rnd, i == 0, "cma")
        args.append(a)
    for _ in range(rnd.choice([0, 0, 1, 2])):
        args.append(gen_scalar(rnd))
    rnd.shuffle(args)
    d["args"] = args
    return d


def gen_intergrid(rnd, base):
    d = new_desc(base, "intergrid")
    fsc, fsf = pick_fs(rnd), pick_fs(rnd)
    while fsf == fsc:
        fsf = pick_fs(rnd)
    nc, nf = rnd.choice([1, 1, 2]), rnd.choice([1, 1, 2])
    # restriction writes the coarse field, prolongation the fine one
    restrict = rnd.random() < 0.5
    args = []
    for i in range(nc):
        a = gen_field(rnd, restrict and i == 0, fs=fsc, allow_stencil=False,
                      allow_int=True)
        a["mesh"] = "gh_coarse"
        args.append(a)
    for i in range(nf):
        a = gen_field(rnd, (not restrict) and i == 0, fs=fsf,
                      allow_stencil=False, allow_int=True)
        a["mesh"] = "gh_fine"
        args.append(a)
    rnd.shuffle(args)
    d["args"] = args
    return d


def gen_domain(rnd, base):
    d = new_desc(base, "domain")
    d["operates_on"] = "domain"
    n = rnd.randint(1, 4)
    args = []
    for i in range(n):
        if i > 0 and rnd.random() < 0.3:
            args.append(gen_scalar(rnd))
        else:
            args.append(gen_field(rnd, i == 0, fs=pick_fs(rnd, disc=True),
                                  allow_stencil=False))
    rnd.shuffle(args)
    d["args"] = args
    return d


def gen_bc(rnd, which):
    if which == "field":
        d = new_desc("enforce_bc", "bc_field")
        d["args"] = [{"t": "field", "dtype": "gh_real", "fs": "any_space_1",
                      "vec": 1, "stencil": None, "mesh": None,
                      "access": rnd.choice(["gh_inc", "gh_readinc"])}]
        if rnd.random() < 0.5:
            d["args"].append(gen_field(rnd, False, allow_int=False))
    else:
        d = new_desc("enforce_operator_bc", "bc_op")
        d["args"] = [{"t": "op", "access": "gh_readwrite", "to": pick_fs(rnd),
                      "frm": pick_fs(rnd)}]
    return d


def mutate(rnd, d):
    """Push a descriptor towards (probably) invalid metadata so that the
    filter - PSyclone's own validation - is exercised.  Returns a label."""
    m = rnd.choice(["sum_scalar", "write_wchi", "stencil_on_written",
                    "readwrite_cont", "inc_disc", "int_field_with_op",
                    "shape_without_funcs", "targets_without_eval",
                    "func_fs_not_in_args", "no_write", "only_scalars",
                    "stencil_in_domain_or_cma", "fixed_extent"])
    fields = [a for a in d["args"] if a["t"] == "field"]
    if m == "sum_scalar":
        d["args"].append({"t": "scalar", "dtype": "gh_real",
                          "access": "gh_sum"})
    elif m == "write_wchi" and fields:
        fields[0]["fs"] = "wchi"
        fields[0]["access"] = "gh_write"
    elif m == "stencil_on_written" and fields:
        fields[0]["access"] = "gh_inc"
        fields[0]["fs"] = "w1"
        fields[0]["stencil"] = "cross"
    elif m == "readwrite_cont" and fields:
        fields[0]["fs"] = "w0"
        fields[0]["access"] = "gh_readwrite"
    elif m == "inc_disc" and fields:
        fields[0]["fs"] = "w3"
        fields[0]["access"] = "gh_inc"
    elif m == "int_field_with_op":
        d["args"].append({"t": "op", "access": "gh_read", "to": "w0",
                          "frm": "w1"})
        d["args"].append({"t": "field", "dtype": "gh_integer", "fs": "w3",
                          "vec": 1, "stencil": None, "mesh": None,
                          "access": "gh_read"})
    elif m == "shape_without_funcs":
        d["funcs"] = []
        d["shapes"] = ["gh_quadrature_xyoz"]
    elif m == "targets_without_eval":
        d["shapes"] = ["gh_quadrature_xyoz"]
        d["targets"] = ["w0"]
        if not d["funcs"] and arg_spaces(d["args"]):
            d["funcs"] = [{"fs": arg_spaces(d["args"])[0],
                           "ops": ["gh_basis"]}]
    elif m == "func_fs_not_in_args":
        d["funcs"].append({"fs": "any_space_9", "ops": ["gh_basis"]})
        d["shapes"] = d["shapes"] or ["gh_evaluator"]
    elif m == "no_write":
        for a in d["args"]:
            a["access"] = "gh_read"
    elif m == "only_scalars":
        d["args"] = [gen_scalar(rnd), gen_scalar(rnd)]
    elif m == "stencil_in_domain_or_cma" and fields:
        fields[-1]["access"] = "gh_read"
        fields[-1]["stencil"] = "region"
        if d["kind"] in ("general", "lma"):
            d["operates_on"] = "domain"
    elif m == "fixed_extent" and fields:
        fields[-1]["access"] = "gh_read"
        fields[-1]["stencil"] = "cross,2"
    else:
        return None
    return m


# inter-grid and domain kernels are refused by the stub generator (no stub
# to compare with), so they get a small weight: enough to record the refusal
FAMILIES = [("general", 38), ("lma", 26), ("cma_asm", 10), ("cma_app", 7),
            ("cma_mm", 6), ("intergrid", 4), ("domain", 4), ("bc_field", 2),
            ("bc_op", 2)]


def gen_desc(rnd, ident):
    fam = rnd.choices([f for f, _ in FAMILIES],
                      weights=[w for _, w in FAMILIES])[0]
    base = "tk%s" % ident
    if fam == "general":
        d = gen_general(rnd, base, False)
    elif fam == "lma":
        d = gen_general(rnd, base, True)
    elif fam == "cma_asm":
        d = gen_cma_asm(rnd, base)
    elif fam == "cma_app":
        d = gen_cma_app(rnd, base)
    elif fam == "cma_mm":
        d = gen_cma_mm(rnd, base)
    elif fam == "intergrid":
        d = gen_intergrid(rnd, base)
    elif fam == "domain":
        d = gen_domain(rnd, base)
    elif fam == "bc_field":
        d = gen_bc(rnd, "field")
    else:
        d = gen_bc(rnd, "op")
    d["mutation"] = None
    if rnd.random() < 0.08:
        d["mutation"] = mutate(rnd, d)
    # algorithm-side choices
    d["alg"] = {"lit_scalar": rnd.random() < 0.3,
                "lit_extent": rnd.random() < 0.3,
                "lit_direction": rnd.random() < 0.3,
                "shared_extent": rnd.random() < 0.2,
                "hostile_names": rnd.random() < 0.25,
                "seed": rnd.randint(0, 10 ** 6)}
    return d


# ------------------------------------------------------------------ anchors
def _f(fs, access="gh_read", dtype="gh_real", vec=1, stencil=None, mesh=None):
    return {"t": "field", "dtype": dtype, "fs": fs, "vec": vec,
            "stencil": stencil, "mesh": mesh, "access": access}


def _s(dtype):
    return {"t": "scalar", "dtype": dtype, "access": "gh_read"}


def _o(t, access, to, frm):
    return {"t": t, "access": access, "to": to, "frm": frm}


def anchors():
    """Hand-written descriptors that reach every feature whatever the seed."""
    out = []

    def mk(base, kind, args, **kw):
        d = new_desc(base, kind)
        d["args"] = args
        d["mutation"] = None
        d.update(kw)
        d["alg"] = {"lit_scalar": False, "lit_extent": False,
                    "lit_direction": False, "shared_extent": False,
                    "seed": 1}
        out.append(d)
        return d

    mk("anc_simple", "general",
       [_s("gh_real"), _f("w1", "gh_inc"), _f("w2"), _f("w2"), _f("w3")])
    mk("anc_scalars", "general",
       [_f("w3", "gh_readwrite"), _s("gh_integer"), _s("gh_logical"),
        _s("gh_real"), _f("wtheta", dtype="gh_integer")])
    mk("anc_vec", "general",
       [_f("w0", "gh_inc", vec=3), _f("w3", vec=2), _f("any_space_1")])
    # user variables named like the names the PSy layer would otherwise pick
    # for its own (the PSy layer must keep them apart)
    dv = mk("anc_vec_hostile", "general",
            [_s("gh_real"), _f("w0", "gh_inc", vec=3), _s("gh_integer"),
             _f("w3", vec=2)])
    dv["alg"] = dict(dv["alg"], scalar_names={"1": "f2_2_data",
                                              "3": "f4_1_data"})
    dh = mk("anc_names_hostile", "general",
            [_s("gh_integer"), _f("w1", "gh_inc"), _s("gh_real"), _f("w2")])
    dh["alg"] = dict(dh["alg"], scalar_names={"1": "nlayers",
                                              "3": "f2_data"})
    mk("anc_stencil", "general",
       [_f("w1", "gh_inc"), _f("w2", stencil="cross"),
        _f("w2", stencil="xory1d"), _f("w3", stencil="x1d"),
        _f("wtheta", stencil="region"), _f("w2h", stencil="y1d", vec=3)])
    mk("anc_cross2d", "general",
       [_f("w3", "gh_write"), _f("w2", stencil="cross2d")])
    mk("anc_op", "lma",
       [_o("op", "gh_write", "w0", "w1"), _f("w0", vec=3),
        _s("gh_integer"), _o("op", "gh_read", "any_space_1", "w0")])
    mk("anc_qr", "lma",
       [_f("w1", "gh_inc"), _f("w2"), _o("op", "gh_read", "w2", "w3")],
       funcs=[{"fs": "w1", "ops": ["gh_basis"]},
              {"fs": "w2", "ops": ["gh_diff_basis"]},
              {"fs": "w3", "ops": ["gh_basis", "gh_diff_basis"]}],
       shapes=["gh_quadrature_xyoz"])
    mk("anc_qr_face_edge", "general",
       [_f("w1", "gh_inc"), _f("w3")],
       funcs=[{"fs": "w1", "ops": ["gh_basis", "gh_diff_basis"]},
              {"fs": "w3", "ops": ["gh_basis"]}],
       shapes=["gh_quadrature_face", "gh_quadrature_edge"])
    mk("anc_eval", "general",
       [_f("w0", "gh_inc"), _f("w1"), _f("w2")],
       funcs=[{"fs": "w0", "ops": ["gh_basis"]},
              {"fs": "w1", "ops": ["gh_diff_basis"]}],
       shapes=["gh_evaluator"], targets=["w0", "w1"])
    mk("anc_qr_eval", "general",
       [_f("w1", "gh_inc"), _f("w2"), _f("w3")],
       funcs=[{"fs": "w1", "ops": ["gh_basis"]},
              {"fs": "w3", "ops": ["gh_basis", "gh_diff_basis"]}],
       shapes=["gh_quadrature_face", "gh_evaluator"])
    mk("anc_mesh_ref", "general",
       [_s("gh_real"), _f("w1", "gh_inc")],
       mesh=["adjacent_face"],
       refelem=["normals_to_horizontal_faces", "normals_to_vertical_faces",
                "outward_normals_to_faces"])
    # adjacent_face with every single reference-element property (nfaces_re_h
    # is shared between the two groups and must be passed once)
    for k, prop in enumerate(REFELEM):
        mk("anc_mesh_ref1_%d" % k, "general",
           [_s("gh_real"), _f("w1", "gh_inc")],
           mesh=["adjacent_face"], refelem=[prop])
    mk("anc_mesh_only", "general", [_s("gh_real"), _f("w1", "gh_inc")],
       mesh=["adjacent_face"])
    mk("anc_cma_asm", "cma_asm",
       [_o("op", "gh_read", "any_space_1", "any_space_2"),
        _o("cma", "gh_write", "any_space_1", "any_space_2"), _f("w3"),
        _s("gh_real")])
    mk("anc_cma_app", "cma_app",
       [_f("any_space_1", "gh_inc"), _f("any_space_2"),
        _o("cma", "gh_read", "any_space_1", "any_space_2")])
    mk("anc_cma_app_same", "cma_app",
       [_f("w2", "gh_inc"), _f("w2"), _o("cma", "gh_read", "w2", "w2")])
    mk("anc_cma_mm", "cma_mm",
       [_o("cma", "gh_write", "any_space_1", "any_space_2"),
        _o("cma", "gh_read", "any_space_1", "any_space_2"),
        _o("cma", "gh_read", "w2", "w2"), _s("gh_real")])
    mk("anc_intergrid", "intergrid",
       [_f("any_space_1", "gh_inc", mesh="gh_coarse"),
        _f("any_space_2", mesh="gh_fine")])
    mk("anc_intergrid_vec", "intergrid",
       [_f("w1", "gh_inc", mesh="gh_fine", vec=3),
        _f("w2", mesh="gh_coarse")])
    mk("anc_domain", "domain",
       [_s("gh_real"), _f("w3", "gh_readwrite"), _f("wtheta")],
       operates_on="domain")
    mk("enforce_bc", "bc_field", [_f("any_space_1", "gh_inc")])
    mk("enforce_operator_bc", "bc_op",
       [_o("op", "gh_readwrite", "any_space_1", "any_space_2")])
    return out


# ---------------------------------------------------------------- rendering
def render_arg(a):
    if a["t"] == "scalar":
        return "arg_type(gh_scalar, %s, %s)" % (a["dtype"], a["access"])
    if a["t"] == "field":
        t = "gh_field" + ("*%d" % a["vec"] if a["vec"] > 1 else "")
        s = "arg_type(%s, %s, %s, %s" % (t, a["dtype"], a["access"], a["fs"])
        if a.get("stencil"):
            s += ", stencil(%s)" % a["stencil"]
        if a.get("mesh"):
            s += ", mesh_arg=%s" % a["mesh"]
        return s + ")"
    t = "gh_operator" if a["t"] == "op" else "gh_columnwise_operator"
    return "arg_type(%s, gh_real, %s, %s, %s)" % (t, a["access"], a["to"],
                                                  a["frm"])


def _array(items, indent):
    pad = " " * indent
    return "(/ " + (", &\n" + pad).join(items) + " /)"


def render_kernel(d):
    b = d["base"]
    L = ["module %s_mod" % b,
         "  use argument_mod", "  use fs_continuity_mod", "  use kernel_mod",
         "  use constants_mod", "  implicit none",
         "  type, extends(kernel_type) :: %s_type" % b,
         "     type(arg_type), dimension(%d) :: meta_args = &" % len(d["args"]),
         "          " + _array([render_arg(a) for a in d["args"]], 13)]
    if d["funcs"]:
        L.append("     type(func_type), dimension(%d) :: meta_funcs = &"
                 % len(d["funcs"]))
        L.append("          " + _array(
            ["func_type(%s, %s)" % (f["fs"], ", ".join(f["ops"]))
             for f in d["funcs"]], 13))
    if d["refelem"]:
        L.append("     type(reference_element_data_type), dimension(%d) :: "
                 "meta_reference_element = &" % len(d["refelem"]))
        L.append("          " + _array(
            ["reference_element_data_type(%s)" % p for p in d["refelem"]],
            13))
    if d["mesh"]:
        L.append("     type(mesh_data_type), dimension(%d) :: meta_mesh = &"
                 % len(d["mesh"]))
        L.append("          " + _array(
            ["mesh_data_type(%s)" % p for p in d["mesh"]], 13))
    if d["shapes"]:
        if len(d["shapes"]) == 1:
            L.append("     integer :: gh_shape = %s" % d["shapes"][0])
        else:
            L.append("     integer :: gh_shape(%d) = (/ %s /)" % (
                len(d["shapes"]), ", ".join(d["shapes"])))
    if d["targets"]:
        L.append("     integer :: gh_evaluator_targets(%d) = (/ %s /)" % (
            len(d["targets"]), ", ".join(d["targets"])))
    L.append("     integer :: operates_on = %s" % d["operates_on"])
    L += ["   contains",
          "     procedure, nopass :: code => %s_code" % b,
          "  end type %s_type" % b,
          "contains",
          "  subroutine %s_code()" % b,
          "  end subroutine %s_code" % b,
          "end module %s_mod" % b, ""]
    return "\n".join(L)


QR_TYPES = {"gh_quadrature_xyoz": ("quadrature_xyoz_mod",
                                   "quadrature_xyoz_type", "qr_xyoz"),
            "gh_quadrature_face": ("quadrature_face_mod",
                                   "quadrature_face_type", "qr_face"),
            "gh_quadrature_edge": ("quadrature_edge_mod",
                                   "quadrature_edge_type", "qr_edge")}


def render_algorithm(d):
    """Returns (text, info) where info lists the algorithm arguments."""
    import random
    rnd = random.Random(d["alg"].get("seed", 0))
    alg = d["alg"]
    uses = {"constants_mod": ["i_def", "r_def", "l_def"]}
    decls = []
    call = []

    def use(mod, name):
        uses.setdefault(mod, [])
        if name not in uses[mod]:
            uses[mod].append(name)

    shared_extent = None
    for i, a in enumerate(d["args"], 1):
        if a["t"] == "scalar":
            typ = {"gh_real": "real(r_def)", "gh_integer": "integer(i_def)",
                   "gh_logical": "logical(l_def)"}[a["dtype"]]
            if alg["lit_scalar"] and a["dtype"] != "gh_logical" and \
                    rnd.random() < 0.6:
                call.append({"gh_real": "%d.5_r_def" % i,
                             "gh_integer": "%d_i_def" % i}[a["dtype"]])
            else:
                nm = {"gh_real": "rs", "gh_integer": "is",
                      "gh_logical": "ls"}[a["dtype"]] + str(i)
                if alg.get("scalar_names", {}).get(str(i)):
                    nm = alg["scalar_names"][str(i)]
                elif alg.get("hostile_names"):
                    # a user variable named like a name the PSy layer would
                    # otherwise pick for one of its own variables
                    others = [j for j, b in enumerate(d["args"], 1)
                              if b["t"] == "field"]
                    cands = ["nlayers", "cell", "df", "mesh", "loop0_start",
                             "ndf_w1", "undf_w2", "map_w1", "nfaces_re_h"]
                    # (not f<j>_proxy: PSyclone declares that name twice -
                    # a genuine defect, but of the declarations, outside
                    # this property; noted in DESIGN.md)
                    for j in others:
                        cands += ["f%d_data" % j]
                        if d["args"][j - 1].get("vec", 1) > 1:
                            cands += ["f%d_%d_data" % (j, k) for k in
                                      range(1, d["args"][j - 1]["vec"] + 1)]
                    nm = rnd.choice(cands)
                    if any(nm == c_ for c_ in call):
                        nm = nm + "_u%d" % i
                decls.append("%s :: %s" % (typ, nm))
                call.append(nm)
        elif a["t"] == "field":
            if a["dtype"] == "gh_integer":
                use("integer_field_mod", "integer_field_type")
                typ = "type(integer_field_type)"
            else:
                use("field_mod", "field_type")
                typ = "type(field_type)"
            nm = "f%d" % i
            decls.append("%s :: %s%s" % (
                typ, nm, "(%d)" % a["vec"] if a["vec"] > 1 else ""))
            call.append(nm)
            if a.get("stencil"):
                st = a["stencil"].split(",")[0]
                if alg["lit_extent"] and rnd.random() < 0.6:
                    call.append(str(rnd.randint(1, 3)))
                elif alg["shared_extent"] and shared_extent:
                    call.append(shared_extent)
                else:
                    en = "e%d" % i
                    decls.append("integer(i_def) :: %s" % en)
                    call.append(en)
                    shared_extent = shared_extent or en
                if st == "xory1d":
                    use("flux_direction_mod", "x_direction")
                    use("flux_direction_mod", "y_direction")
                    if alg["lit_direction"] and rnd.random() < 0.6:
                        call.append(rnd.choice(["x_direction",
                                                "y_direction"]))
                    else:
                        dn = "d%d" % i
                        decls.append("integer(i_def) :: %s" % dn)
                        call.append(dn)
        elif a["t"] == "op":
            use("operator_mod", "operator_type")
            nm = "op%d" % i
            decls.append("type(operator_type) :: %s" % nm)
            call.append(nm)
        else:
            use("columnwise_operator_mod", "columnwise_operator_type")
            nm = "cma%d" % i
            decls.append("type(columnwise_operator_type) :: %s" % nm)
            call.append(nm)
    for sh in d["shapes"]:
        if sh in QR_TYPES:
            mod, typ, nm = QR_TYPES[sh]
            use(mod, typ)
            decls.append("type(%s) :: %s" % (typ, nm))
            call.append(nm)
    b = d["base"]
    L = ["program alg_%s" % b]
    for mod, names in uses.items():
        L.append("  use %s, only: %s" % (mod, ", ".join(names)))
    L.append("  use %s_mod, only: %s_type" % (b, b))
    L.append("  implicit none")
    L += ["  " + x for x in decls]
    args = ", &\n       ".join(
        ", ".join(call[k:k + 6]) for k in range(0, len(call), 6))
    L.append("  call invoke(%s_type(%s))" % (b, args))
    L.append("end program alg_%s" % b)
    return "\n".join(L) + "\n", call


# ------------------------------------------------------------------ features
def features(d):
    """Feature labels of a descriptor (for the evidence counters)."""
    out = ["family:" + d["kind"], "operates_on:" + d["operates_on"]]
    for a in d["args"]:
        if a["t"] == "scalar":
            out.append("scalar:" + a["dtype"])
        elif a["t"] == "field":
            out.append("field:" + a["dtype"])
            if a["vec"] > 1:
                out.append("vector:%d" % a["vec"])
            if a.get("stencil"):
                out.append("stencil:" + a["stencil"])
            if a.get("mesh"):
                out.append("intergrid:" + a["mesh"])
        elif a["t"] == "op":
            out.append("operator")
        else:
            out.append("cma_operator")
    for f in d["funcs"]:
        for o in f["ops"]:
            out.append("func:" + o)
    for s in d["shapes"]:
        out.append("shape:" + s)
    if d["targets"]:
        out.append("evaluator_targets")
    for p in d["mesh"]:
        out.append("mesh:" + p)
    for p in d["refelem"]:
        out.append("refelem:" + p)
    return sorted(set(out))
