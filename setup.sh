#!/bin/sh
# setup_cmd: offline install of the contract libraries beside /venv's interpreter.
cd "$(dirname "$0")" || exit 1
mkdir -p .deps evidence
/venv/bin/python -m pip install -q --no-index --find-links /opt/veriftools/wheels --target .deps icontract deal >/dev/null 2>&1 || true
PYTHONPATH="$(pwd):$(pwd)/.deps" /venv/bin/python -c "import icontract, vf.core; print('setup ok')"
