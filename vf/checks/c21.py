"""C21 LFRic kernel calls match the kernel interface for all metadata.

Runtime monitoring of the two real generators on generated kernel metadata:

* for each metadata the real kernel-stub generator
  (psyclone.gen_kernel_stub.generate) and the real PSy-layer generator
  (psyclone.generator.generate, distributed memory off and on) are run;
* monitor 1 reads the `CALL <kern>_code(...)` actual arguments in the PSy
  layer, resolves each one to (intrinsic type, kind, rank) from the PSy-layer
  declarations (plus the LFRic infrastructure type definitions for structure
  components) and compares them position by position with the stub's dummy
  arguments and their declarations; the stub's intents are compared with the
  intents documented in the user guide;
* monitor 2 compiles the generated stub module and the generated PSy layer
  against the LFRic stub infrastructure with gfortran: the kernel then has an
  explicit interface and the compiler rejects count/type/kind/rank
  mismatches.

Metadata refused by PSyclone's own validation is counted, not judged; so is a
refusal by only one of the two generators.
"""
import json
import os
import random
import re
import shutil
import subprocess
import tempfile
import time

from vf import c21_gen as G
from vf import c21_parse as P
from vf.core import Part, REPO

PROPERTY = "C21"
LEVEL = "exploration"

INFRA_SRC = os.path.join(REPO, "src", "psyclone", "tests", "test_files",
                         "dynamo0p3", "infrastructure")
SELFTEST = os.environ.get("VF_C21_SELFTEST", "") not in ("", "0")

# kind names whose numeric value is fixed by the language / ISO_FORTRAN_ENV
# rather than by LFRic's constants_mod (used only to compare a *named* LFRic
# kind with an unnamed default kind or an ISO name).
MISMATCH_RE = re.compile(
    r"(mismatch in argument|More actual than formal arguments|"
    r"Missing actual argument|passed to array dummy argument|"
    r"too few elements for dummy argument|"
    r"Actual argument (for|at|contains)|"
    r"Dummy argument '\w+' with INTENT)", re.I)


# ----------------------------------------------------------------- hazards
def hazards_of(d):
    """Facts of the *metadata* (independent of PSyclone) that are the
    candidate mechanisms of known defects."""
    out = []
    if d["funcs"] and "gh_evaluator" in d["shapes"] and \
            d["shapes"][-1] != "gh_evaluator":
        out.append("gh_evaluator_listed_before_a_quadrature_shape")
    st = [a["stencil"] for a in d["args"]
          if a["t"] == "field" and a.get("stencil")]
    if "cross2d" in st and any(s != "cross2d" for s in st):
        out.append("cross2d_stencil_together_with_other_stencil_type")
    return out


def remove_hazard(d, h):
    t = json.loads(json.dumps(d))
    if h == "gh_evaluator_listed_before_a_quadrature_shape":
        t["shapes"] = [s for s in t["shapes"] if s != "gh_evaluator"] + \
            ["gh_evaluator"]
    elif h == "cross2d_stencil_together_with_other_stencil_type":
        for a in t["args"]:
            if a["t"] == "field" and a.get("stencil") == "cross2d":
                a["stencil"] = "cross"
    return t


HAZARD_DUMMIES = {
    "gh_evaluator_listed_before_a_quadrature_shape":
        re.compile(r"^(diff_)?basis_\w+$"),
    "cross2d_stencil_together_with_other_stencil_type":
        re.compile(r"^\w+_stencil_size$")}


def explained_by(h, v):
    """A firing is attributed to hazard h only if it is a rank disagreement
    at a dummy argument of the family the hazard is about (basis arrays /
    stencil sizes); anything else in the same case stays unexplained."""
    rx = HAZARD_DUMMIES[h]
    if v["kind"] == "position_mismatch_rank":
        return bool(rx.match(str(v["mismatch"].get("stub"))))
    if v["kind"] == "compiler_rejects_kernel_call":
        m = re.search(r"Rank mismatch in argument \W(\w+)\W", v["compiler"])
        return bool(m and rx.match(m.group(1).lower()))
    return False


def one_hazard(d):
    """At most one hazard per case (DESIGN section 4)."""
    hz = hazards_of(d)
    for h in hz[1:]:
        d = remove_hazard(d, h)
    return d


# -------------------------------------------------------- running PSyclone
REFUSALS = None


def _refusal_types():
    global REFUSALS
    if REFUSALS is None:
        from psyclone.errors import GenerationError, FieldNotFoundError
        from psyclone.parse.utils import ParseError
        REFUSALS = (ParseError, GenerationError, NotImplementedError,
                    FieldNotFoundError)
    return REFUSALS


def _reset_singletons():
    try:
        from psyclone.parse import ModuleManager
        ModuleManager._instance = None
    except Exception:
        pass
    try:
        import fparser
        fparser.one.parsefortran.FortranParser.cache.clear()
    except Exception:
        pass


def run_stub(kpath):
    from psyclone.gen_kernel_stub import generate
    try:
        return "ok", str(generate(kpath, api="lfric"))
    except _refusal_types() as err:
        return "refused", "%s: %s" % (type(err).__name__, str(err)[:300])
    except Exception as err:      # a crash is counted, never judged here
        return "crashed", "%s: %s" % (type(err).__name__, str(err)[:300])


def run_psy(apath, kdir, dm):
    from psyclone.generator import generate
    _reset_singletons()
    try:
        _, psy = generate(apath, api="lfric", kernel_paths=[kdir],
                          distributed_memory=dm)
        return "ok", str(psy)
    except _refusal_types() as err:
        return "refused", "%s: %s" % (type(err).__name__, str(err)[:300])
    except Exception as err:
        return "crashed", "%s: %s" % (type(err).__name__, str(err)[:300])


# ----------------------------------------------------------------- monitor 1
_INFRA = {}


def infra_types():
    if "t" not in _INFRA:
        _INFRA["t"] = P.InfraTypes(INFRA_SRC)
    return _INFRA["t"]


STUB_DATA_RE = re.compile(
    r"^(?:(field)_(\d+)_\w+?|(op)_(\d+)|(cma_op)_(\d+)|([ril]scalar)_(\d+))$")


def documented_intent(name, d):
    """Intent the user guide documents for a stub dummy, or None when the
    name is not one this check can map to a metadata entry."""
    for suffix in ("_stencil_size", "_stencil_dofmap", "_direction",
                   "_max_branch_length", "_ncell_3d", "_nrow", "_ncol",
                   "_bandwidth", "_alpha", "_beta", "_gamma_m", "_gamma_p"):
        if name.endswith(suffix):
            return "in"
    m = STUB_DATA_RE.match(name)
    if not m:
        return "in"
    idx = int([g for g in m.groups()[1::2] if g][0])
    if idx < 1 or idx > len(d["args"]):
        return None
    acc = d["args"][idx - 1]["access"]
    return "in" if acc == "gh_read" else "inout"


def kinds_agree(ka, kd):
    """Kind of the actual against kind of the dummy: names are compared.
    Returns True / False / None (None = cannot be judged by name)."""
    if ka is None or kd is None:
        return None if ka != kd else True
    return ka.lower() == kd.lower()


def monitor1(stub, psy_text, d):
    """Compare stub dummies with the actuals of every call in the PSy layer.
    Returns dict(positions, mismatches=[...], unresolved=[...], calls)."""
    res = {"positions": 0, "mismatches": [], "unresolved": [], "calls": 0,
           "not_judged_kind": 0, "undeclared": []}
    code = d["base"] + "_code"
    subs = P.parse_subroutines(psy_text)
    dummies = stub["dummies"]
    for sub in subs:
        for actuals in P.find_calls(sub, code):
            res["calls"] += 1
            if len(actuals) != len(dummies):
                res["mismatches"].append(
                    {"what": "count", "position": None,
                     "stub": len(dummies), "call": len(actuals),
                     "detail": "stub has %d dummy arguments, the call passes "
                               "%d" % (len(dummies), len(actuals))})
            for i, (dm, ac) in enumerate(zip(dummies, actuals)):
                dd = stub["decls"].get(dm)
                if dd is None:
                    res["mismatches"].append(
                        {"what": "stub_dummy_undeclared", "position": i + 1,
                         "stub": dm, "call": ac,
                         "detail": "stub dummy %s has no declaration" % dm})
                    continue
                try:
                    t, k, r, how = P.resolve_actual(ac, sub["decls"],
                                                    infra_types(),
                                                    sub["uses"])
                except P.Unresolved as err:
                    if re.match(r"^\w+$", ac) and "is not declared" in \
                            str(err):
                        res["undeclared"].append(ac.lower())
                    else:
                        res["unresolved"].append("%s: %s" % (ac, err))
                    continue
                res["positions"] += 1
                if t != dd["type"]:
                    res["mismatches"].append(
                        {"what": "type", "position": i + 1, "stub": dm,
                         "call": ac,
                         "detail": "position %d: stub %s is %s, actual %s is "
                                   "%s" % (i + 1, dm, dd["type"], ac, t)})
                    continue
                ka = kinds_agree(k, dd["kind"])
                if how == "use_associated" and not ka:
                    # a named constant of the LFRic infrastructure that the
                    # algorithm layer passed through (e.g. x_direction, of
                    # kind i_native): its kind is not PSyclone's choice
                    ka = None
                if ka is None:
                    res["not_judged_kind"] += 1
                elif not ka:
                    res["mismatches"].append(
                        {"what": "kind", "position": i + 1, "stub": dm,
                         "call": ac,
                         "detail": "position %d: stub %s has kind %s, actual "
                                   "%s has kind %s" % (i + 1, dm, dd["kind"],
                                                       ac, k)})
                if r != dd["rank"]:
                    res["mismatches"].append(
                        {"what": "rank", "position": i + 1, "stub": dm,
                         "call": ac,
                         "detail": "position %d: stub %s has rank %d, actual "
                                   "%s has rank %d" % (i + 1, dm, dd["rank"],
                                                       ac, r)})
    return res


def stub_intents(stub, d):
    """Stub intents against the documented ones."""
    out = []
    n = 0
    for dm in stub["dummies"]:
        dd = stub["decls"].get(dm)
        if dd is None:
            continue
        want = documented_intent(dm, d)
        if want is None:
            continue
        n += 1
        if dd["intent"] != want:
            out.append({"what": "intent", "stub": dm, "position": None,
                        "call": None,
                        "detail": "stub dummy %s has intent(%s), the user "
                                  "guide documents intent(%s)" % (
                                      dm, dd["intent"], want)})
    return n, out


# ----------------------------------------------------------------- monitor 2
def include_flags(inf):
    flags = []
    for dp, dns, _ in os.walk(inf):
        flags += ["-I", dp]
    return flags


def assumed_shape(stub_text):
    """The stub with every explicit-shape dummy array turned into an
    assumed-shape one of the same rank (type, kind, intent, order untouched).
    Fortran lets a whole array of any rank be associated with an explicit-
    shape dummy (sequence association), so against the stub as generated
    the compiler cannot see a rank mismatch between two arrays; against this
    variant it must."""
    out = []
    for line in stub_text.split("\n"):
        low = line.lower()
        i = low.find("dimension(")
        if i >= 0 and "intent(" in low:
            start = i + len("dimension")
            end = P.balanced(line, start)
            rank = len(P.split_top(line[start + 1:end - 1]))
            line = line[:start] + "(" + ",".join([":"] * rank) + ")" + \
                line[end:]
        out.append(line)
    return "\n".join(out)


def gfortran(workdir, fname, inc, syntax_only=False):
    cmd = ["gfortran", "-fsyntax-only" if syntax_only else "-c",
           "-fimplicit-none", "-ffree-line-length-none",
           "-fmax-errors=10", "-O0"] + inc + [fname]
    try:
        p = subprocess.run(cmd, cwd=workdir, capture_output=True, text=True,
                           timeout=300)
    except subprocess.TimeoutExpired:
        return None, "compile watchdog"
    return p.returncode == 0, p.stderr


def classify_compile_error(stderr, code):
    """'mismatch' when gfortran rejects the kernel call's arguments,
    'other' otherwise.  Returns (class, first relevant message)."""
    blocks = re.split(r"\n(?=\S+\.f90:\d+:\d+:)", stderr)
    first_other = None
    for b in blocks:
        m = re.search(r"(Error|Fatal Error): (.*)", b, re.S)
        if not m:
            continue
        msg = " ".join(m.group(2).split())
        if MISMATCH_RE.search(msg) and re.search(
                r"call\s+%s\s*\(" % re.escape(code), b, re.I):
            return "mismatch", msg[:400]
        if first_other is None:
            first_other = msg[:400]
    return "other", first_other or stderr[-400:]


# ------------------------------------------------------------------ one case
def swap_two_actuals(psy_text, code, stub):
    """Self-test helper: swap two actual arguments whose stub dummies differ
    in type or rank, in every call.  Returns new text or None."""
    dummies = stub["dummies"]
    pair = None
    for i in range(len(dummies)):
        for j in range(i + 1, len(dummies)):
            a, b = stub["decls"].get(dummies[i]), stub["decls"].get(dummies[j])
            if a and b and (a["type"] != b["type"] or a["rank"] != b["rank"]):
                pair = (i, j)
                break
        if pair:
            break
    if not pair:
        return None
    rx = re.compile(r"(call\s+%s\s*\()" % re.escape(code), re.I)
    out = []
    done = False
    for line in psy_text.split("\n"):
        m = rx.search(line)
        if m:
            start = m.end() - 1
            end = P.balanced(line, start)
            acts = P.split_top(line[start + 1:end - 1])
            if len(acts) > pair[1]:
                acts[pair[0]], acts[pair[1]] = acts[pair[1]], acts[pair[0]]
                line = line[:start + 1] + ", ".join(acts) + line[end - 1:]
                done = True
        out.append(line)
    return "\n".join(out) if done else None


def selftest(part, stub, ptext, d, cdir, inc, code):
    """Plant a swap of two actual arguments in a scratch copy of the PSy
    layer: both monitors must fire."""
    bad = swap_two_actuals(ptext, code, stub)
    if not bad:
        return
    part.count("selftest_swaps")
    m1 = monitor1(stub, bad, d)
    if m1["mismatches"]:
        part.count("selftest_monitor1_fired")
    else:
        part.inconclusive("selftest: monitor 1 missed a planted swap")
    with open(os.path.join(cdir, "bad.f90"), "w") as fh:
        fh.write(bad)
    ok2, err2 = gfortran(cdir, "bad.f90", inc, True)
    if ok2 is False and classify_compile_error(err2, code)[0] == "mismatch":
        part.count("selftest_monitor2_fired")
    else:
        part.inconclusive("selftest: monitor 2 missed a planted swap: " +
                          str(err2)[-200:])


def evaluate(d, workdir, inf, dms, part, twin=False):
    """Run both generators and both monitors on one descriptor.  Returns a
    result dict; counts into `part` unless this is a twin run."""
    def cnt(key, n=1):
        if not twin:
            part.count(key, n)

    res = {"status": None, "violations": [], "positions": 0}
    cdir = os.path.join(workdir, d["base"] + ("_twin" if twin else ""))
    os.makedirs(cdir, exist_ok=True)
    ktext = G.render_kernel(d)
    atext, _ = G.render_algorithm(d)
    kpath = os.path.join(cdir, d["base"] + "_mod.f90")
    apath = os.path.join(cdir, "alg_" + d["base"] + ".f90")
    with open(kpath, "w") as fh:
        fh.write(ktext)
    with open(apath, "w") as fh:
        fh.write(atext)
    res["kernel"], res["algorithm"] = ktext, atext

    sst, stext = run_stub(kpath)
    psys = {}
    for dm in dms:
        pst, ptext = run_psy(apath, cdir, dm)
        psys[dm] = (pst, ptext)
    pst_all = set(s for s, _ in psys.values())
    cnt("stub_" + sst)
    for dm, (s, _) in psys.items():
        cnt("psy_%s_dm%d" % (s, int(dm)))
    if sst == "crashed":
        cnt("note_stub_crash:" + stext.split(":")[0])
        res["crash"] = stext
    for s, t in psys.values():
        if s == "crashed":
            cnt("note_psy_crash:" + t.split(":")[0])
            res["crash"] = t
    if sst != "ok" and "ok" not in pst_all:
        res["status"] = "invalid"
        if sst == "crashed" or "crashed" in pst_all:
            res["status"] = "not_accepted_crash"
        res["why"] = stext
        return res
    if sst != "ok":
        res["status"] = "stub_refused_only"
        res["why"] = stext
        return res
    if "ok" not in pst_all:
        res["status"] = "psy_refused_only"
        res["why"] = list(psys.values())[0][1]
        return res
    res["status"] = "both"
    res["stub"] = stext

    subs = P.parse_subroutines(stext)
    code = d["base"] + "_code"
    stub = [s for s in subs if s["name"] == code]
    if len(stub) != 1:
        res["violations"].append(
            {"kind": "stub_has_no_kernel_routine",
             "what": "the generated stub has no subroutine %s" % code})
        return res
    stub = stub[0]
    undeclared = [x for x in stub["dummies"] if x not in stub["decls"]]
    cnt("stub_dummies", len(stub["dummies"]))

    # every dummy argument appears once (the documented rules pass each
    # entity once; a repeated dummy is not even valid Fortran)
    low = [x.lower() for x in stub["dummies"]]
    dups = sorted({x for x in low if low.count(x) > 1})
    cnt("stub_argument_lists_checked_for_duplicates")
    if dups:
        res["violations"].append(
            {"kind": "stub_dummy_argument_repeated",
             "what": "the generated stub lists %s more than once in its "
                     "argument list (%d arguments)" % (dups, len(low)),
             "dm": None})

    # documented intents of the stub
    n_int, bad_int = stub_intents(stub, d)
    cnt("stub_intents_checked", n_int)
    for b in bad_int:
        res["violations"].append({"kind": "stub_intent_not_as_documented",
                                  "what": b["detail"], "dm": None,
                                  "mismatch": b})

    # monitor 1
    for dm, (s, ptext) in psys.items():
        if s != "ok":
            continue
        m1 = monitor1(stub, ptext, d)
        cnt("calls_seen", m1["calls"])
        cnt("positions_compared", m1["positions"])
        cnt("actuals_unresolved", len(m1["unresolved"]))
        cnt("actuals_undeclared_in_psy_layer", len(m1["undeclared"]))
        for nm in m1["undeclared"]:
            res.setdefault("undeclared", set()).add(nm)
        cnt("kind_not_judged_default_kind", m1["not_judged_kind"])
        res["positions"] += m1["positions"]
        if m1["unresolved"]:
            res.setdefault("unresolved", []).extend(m1["unresolved"][:3])
        if m1["calls"] == 0:
            res.setdefault("unresolved", []).append(
                "no call to %s found in the PSy layer (dm=%s)" % (code, dm))
            cnt("psy_without_kernel_call")
        for mm in m1["mismatches"]:
            res["violations"].append(
                {"kind": "position_mismatch_" + mm["what"],
                 "what": "%s (distributed_memory=%s)" % (mm["detail"], dm),
                 "dm": dm, "mismatch": mm})
    if undeclared and not res["violations"]:
        res["violations"].append(
            {"kind": "position_mismatch_stub_dummy_undeclared",
             "what": "stub dummies without declaration: %s" % undeclared})

    # monitor 2
    if inf and not _INFRA.get("waited"):
        _INFRA["waited"] = True
        _INFRA["ok"] = wait_infrastructure(inf)
        if not _INFRA["ok"]:
            part.inconclusive("LFRic infrastructure not available to a "
                              "worker: nothing compiled")
    if inf and _INFRA.get("ok"):
        inc = include_flags(inf)
        with open(os.path.join(cdir, "stub.f90"), "w") as fh:
            fh.write(stext)
        ok, err = gfortran(cdir, "stub.f90", inc)
        cnt("compiles_done")
        if ok is None:
            cnt("compile_watchdog")
        elif not ok:
            cnt("stub_compile_failed")
            _, msg = classify_compile_error(err, code)
            res["stub_compile_error"] = msg
        else:
            cnt("stub_compiled")
            okpsy = {}
            for strict in (False, True):
                if strict:
                    # second pass: same PSy layers against the assumed-shape
                    # variant of the stub (strict rank checking)
                    if not any(okpsy.values()):
                        break
                    with open(os.path.join(cdir, "stub.f90"), "w") as fh:
                        fh.write(assumed_shape(stext))
                    ok, err = gfortran(cdir, "stub.f90", inc, True)
                    cnt("compiles_done")
                    if not ok:
                        cnt("assumed_shape_stub_failed")
                        break
                for dm, (s, ptext) in psys.items():
                    if s != "ok" or (strict and not okpsy.get(dm)):
                        continue
                    fn = "psy_dm%d.f90" % int(dm)
                    with open(os.path.join(cdir, fn), "w") as fh:
                        fh.write(ptext)
                    ok, err = gfortran(cdir, fn, inc, strict)
                    cnt("compiles_done")
                    tag = "_strict_rank" if strict else ""
                    okpsy[dm] = bool(ok)
                    if ok is None:
                        cnt("compile_watchdog")
                    elif ok:
                        cnt("psy_compiled_against_stub" + tag)
                        if not strict:
                            res["compiled"] = res.get("compiled", 0) + 1
                    else:
                        cls, msg = classify_compile_error(err, code)
                        if cls == "mismatch":
                            cnt("psy_compile_rejected_call" + tag)
                            res["violations"].append(
                                {"kind": "compiler_rejects_kernel_call",
                                 "what": "gfortran%s: %s (distributed_"
                                         "memory=%s)" % (
                                             " [stub dummies made assumed-"
                                             "shape]" if strict else "",
                                             msg, dm),
                                 "dm": dm, "compiler": msg})
                        elif any(re.search(
                                r"Symbol .%s. at \(1\) has no IMPLICIT type"
                                % nm, err, re.I)
                                for nm in res.get("undeclared", ())):
                            # the PSy layer does not declare an entity it
                            # passes: a declaration defect (outside C21),
                            # seen by both monitors; counted and reported
                            cnt("psy_compile_failed_undeclared_actual")
                        else:
                            cnt("psy_compile_failed_other")
                            res.setdefault("compile_other", []).append(msg)
                    if SELFTEST and not twin and ok and strict:
                        selftest(part, stub, ptext, d, cdir, inc, code)
    return res


def run_case(d, workdir, inf, dms, part):
    res = evaluate(d, workdir, inf, dms, part)
    part.count("metadata_generated")
    feats = G.features(d)
    st = res["status"]
    if st == "not_accepted_crash":
        part.count("metadata_not_accepted_generator_crashed")
        part.count("note_crash:%s:%s:%s" % (
            d["kind"], d.get("mutation"),
            re.sub(r"'[^']*'", "'..'", res.get("crash", ""))[:110]))
        part.case(key=None, nontrivial=False)
        return
    if st == "invalid":
        part.count("metadata_invalid")
        if d.get("mutation"):
            part.count("invalid_by_mutation:" + d["mutation"])
        else:
            part.count("note_invalid_unmutated")
            part.count("note_invalid_why:" + re.sub(
                r"'[^']*'", "'..'", res["why"])[:110])
        part.case(key=None, nontrivial=False)
        return
    part.count("metadata_valid")
    if st == "stub_refused_only":
        part.count("refused_by_stub_generator_only")
        part.count("stub_refusal:%s:%s" % (d["kind"], re.sub(
            r"'[^']*'", "'..'", res["why"])[:90]))
        part.case(key=None, nontrivial=False)
        return
    if st == "psy_refused_only":
        part.count("refused_by_psy_generator_only")
        part.count("psy_refusal:%s:%s" % (d["kind"], re.sub(
            r"'[^']*'", "'..'", res["why"])[:90]))
        part.case(key=None, nontrivial=False)
        return
    for f in feats:
        part.count("feature:" + f)
    if res.get("unresolved"):
        part.count("note_unresolved:" + re.sub(
            r"\d+", "N", res["unresolved"][0])[:100])
    for nm in sorted(res.get("undeclared", ())):
        part.count("note_psy_layer_passes_undeclared:" + nm)
    for msg in res.get("compile_other", [])[:1]:
        part.count("note_compile_other:" + re.sub(r"'[^']*'", "'..'",
                                                  msg)[:100])
    if res.get("stub_compile_error"):
        part.count("note_stub_compile_error:" + re.sub(
            r"'[^']*'", "'..'", res["stub_compile_error"])[:100])
    nontrivial = res["positions"] > 0
    sample = None
    if nontrivial:
        sample = {"metadata": [G.render_arg(a) for a in d["args"]],
                  "funcs": d["funcs"], "shapes": d["shapes"],
                  "mesh": d["mesh"], "refelem": d["refelem"],
                  "operates_on": d["operates_on"],
                  "positions_compared": res["positions"],
                  "psy_layers_compiled_against_stub": res.get("compiled", 0)}
    key = {k: d[k] for k in ("args", "funcs", "shapes", "targets", "mesh",
                             "refelem", "operates_on")}
    part.case(key=key if nontrivial else None, nontrivial=nontrivial,
              sample=sample)
    if not res["violations"]:
        part.count("cases_clean")
        return
    # ---- a monitor fired: attribute it
    part.count("cases_with_firing")
    hz = hazards_of(d)
    mechanism = None
    twin_info = None
    if len(hz) == 1:
        twin = remove_hazard(d, hz[0])
        tres = evaluate(twin, workdir, inf, dms, part, twin=True)
        part.count("twins_run")
        twin_clean = (tres["status"] == "both" and not tres["violations"]
                      and tres["positions"] > 0
                      and not tres.get("stub_compile_error")
                      and not tres.get("compile_other"))
        twin_info = {"status": tres["status"], "clean": twin_clean,
                     "violations": [v["what"] for v in tres["violations"]][:3]}
        if twin_clean:
            mechanism = hz[0]
            part.count("twins_clean")
    seen = set()
    case_mechanism = mechanism
    for v in res["violations"]:
        mm = v.get("mismatch") or {}
        mechanism = case_mechanism
        if mechanism and not explained_by(mechanism, v):
            mechanism = None
            part.count("firing_not_explained_by_the_case_hazard")
        dedupe = (v["kind"], mechanism, mm.get("what"),
                  re.sub(r"\d+", "N", str(mm.get("stub"))))
        if dedupe in seen:
            continue
        seen.add(dedupe)
        w = {"kind": v["kind"], "mechanism": mechanism, "what": v["what"],
             "hazards_in_metadata": hz, "hazard_free_twin": twin_info,
             "descriptor": d, "kernel_metadata": res["kernel"],
             "algorithm": res["algorithm"], "stub": res.get("stub"),
             "stub_compile_error": res.get("stub_compile_error"),
             "dedupe": [v["kind"], mechanism or G.render_kernel(d)],
             "reproduce": REPRO}
        part.violation(w)


REPRO = ("write 'kernel_metadata' to <dir>/<base>_mod.f90 and 'algorithm' to "
         "<dir>/alg.f90; PSYCLONE_CONFIG=/repo/config/psyclone.cfg python -c "
         "\"from psyclone.gen_kernel_stub import generate as s; from "
         "psyclone.generator import generate as g; print(s('<dir>/<base>_mod"
         ".f90', api='lfric')); print(g('<dir>/alg.f90', api='lfric', "
         "kernel_paths=['<dir>'], distributed_memory=False)[1])\" and compare "
         "the SUBROUTINE <base>_code dummy list with the CALL <base>_code "
         "actual list")


# -------------------------------------------------------------------- batch
def batch(arg):
    part = Part()
    workdir = tempfile.mkdtemp(prefix="vf_c21_")
    try:
        rnd = random.Random(arg["seed"])
        descs = list(arg.get("descs") or [])
        for i in range(arg.get("count", 0)):
            d = G.gen_desc(rnd, "%s_%d" % (arg["tag"], i))
            descs.append(one_hazard(d))
        nanch = len(arg.get("descs") or [])
        for n, d in enumerate(descs):
            dms = arg["dms"]
            if dms == "both" or (n < nanch and arg.get("anchors_both_dm")):
                dms = [False, True]
            elif dms == "alternate":
                dms = [bool((n + arg.get("parity", 0)) % 2)]
            run_case(d, workdir, arg.get("inf"), dms, part)
    finally:
        shutil.rmtree(workdir, ignore_errors=True)
    return part


def build_infrastructure(dest):
    """Build the LFRic stub infrastructure (only the .mod files are needed)
    out of tree.  Writes dest/BUILD_OK or dest/BUILD_FAILED when done.
    Returns (ok, log)."""
    os.makedirs(dest, exist_ok=True)
    env = dict(os.environ)
    env["F90FLAGS"] = "-O0"
    try:
        p = subprocess.run(
            ["make", "-j", "8", "-f", os.path.join(INFRA_SRC, "Makefile"),
             "standalone"], cwd=dest, capture_output=True, text=True,
            timeout=1200, env=env)
        ok, log = p.returncode == 0, (p.stdout + p.stderr)[-600:]
    except subprocess.TimeoutExpired:
        ok, log = False, "infrastructure build watchdog"
    with open(os.path.join(dest, "BUILD_OK" if ok else "BUILD_FAILED"),
              "w") as fh:
        fh.write(log)
    return ok, log


def wait_infrastructure(inf, limit=1500):
    """Workers generate while the driver builds the library; the first
    compilation waits for the build to finish."""
    t0 = time.time()
    while time.time() - t0 < limit:
        if os.path.exists(os.path.join(inf, "BUILD_OK")):
            return True
        if os.path.exists(os.path.join(inf, "BUILD_FAILED")):
            return False
        time.sleep(0.5)
    return False


def main(ctx):
    import threading
    ctx.rule = (
        "anchor corpus of 20 hand-written metadata + random valid-by-"
        "construction LFRic kernel metadata (families: general, LMA operator,"
        " CMA assembly/apply/matrix-matrix, inter-grid, domain, boundary-"
        "condition kernels; stencils, vectors, integer fields, scalars, "
        "meta_funcs x gh_shape x gh_evaluator_targets, mesh and reference-"
        "element properties), 8% mutated towards invalid; PSyclone's own "
        "validation filters; at most one known hazard per case. A case is one"
        " metadata; non-trivial when both generators accepted it and >=1 "
        "argument position was compared; distinct by metadata content")
    inf = os.path.join(ctx.tmp, "lfric_inf")
    t0 = time.time()
    built = {}

    def _build():
        built["ok"], built["log"] = build_infrastructure(inf)
        built["s"] = time.time() - t0

    th = threading.Thread(target=_build)
    th.start()
    nb = 16 if ctx.quick else 64
    cnt = 19 if ctx.quick else 64
    anchors = G.anchors()
    jobs = []
    for i in range(nb):
        jobs.append({"seed": ctx.rng("b", i).random(), "count": cnt,
                     "tag": "b%d" % i, "inf": inf,
                     "descs": anchors[i::nb], "anchors_both_dm": True,
                     "dms": "alternate" if ctx.quick else "both",
                     "parity": i})
    for res in ctx.pmap("vf.checks.c21", "batch", jobs, timeout=3000):
        if res:
            ctx.merge(res)
    th.join()
    ctx.count("infrastructure_build_s", int(built.get("s", 0)))
    if not built.get("ok"):
        ctx.inconclusive("LFRic infrastructure build failed: " +
                         str(built.get("log"))[-300:])
    c = ctx.counters
    if c.get("positions_compared", 0) == 0:
        ctx.inconclusive("monitor 1 never compared a position")
    judged = c.get("psy_compiled_against_stub", 0) + \
        c.get("psy_compile_rejected_call", 0)
    if judged == 0:
        ctx.inconclusive("monitor 2 never compiled a PSy layer against a "
                         "stub")
    if c.get("psy_compile_failed_other", 0) > 0.02 * max(judged, 1):
        ctx.inconclusive(
            "%d PSy-layer compilations failed for a reason that is not an "
            "argument mismatch (harness or unrelated defect; see note_"
            "compile_other counters)" % c["psy_compile_failed_other"])
    if c.get("actuals_unresolved", 0) > 0.01 * max(
            c.get("positions_compared", 0), 1):
        ctx.inconclusive("%d actual arguments could not be resolved to a "
                         "declaration" % c["actuals_unresolved"])
    ctx.assumptions += [
        "gfortran 12 -fimplicit-none is a sound judge of count/type/kind/"
        "rank agreement for a call to a module procedure",
        "the LFRic stub infrastructure in the repository test files has the "
        "same proxy component types as LFRic",
        "the algorithm layer declares every argument with the default LFRic "
        "precision (field_type, operator_type, r_def/i_def/l_def scalars): "
        "mixed precision is outside the metadata and is not exercised",
        "my declaration reader handles the declaration forms PSyclone emits "
        "(type-spec, attributes, entity lists, dimension attribute / entity "
        "shape); unread actuals are counted and never judged",
        "intents: the call side defines none; the stub's intents are "
        "compared with the user guide (GH_READ -> in, other accesses -> "
        "inout, all sizes/maps/basis arrays -> in)",
        "kinds are compared by name (r_def, i_def, l_def ...); a named "
        "constant of the infrastructure passed through from the algorithm "
        "layer (x_direction, kind i_native) is not judged on kind"]


def replay(ctx, witness):
    inf = os.path.join(ctx.tmp, "lfric_inf")
    build_infrastructure(inf)
    part = Part()
    workdir = tempfile.mkdtemp(prefix="vf_c21_")
    try:
        run_case(witness["descriptor"], workdir, inf, [False, True], part)
    finally:
        shutil.rmtree(workdir, ignore_errors=True)
    ctx.merge(part.to_json())
