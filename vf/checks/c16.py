"""C16 Symbol tables keep names unique and lookups scoped.

Monitor: after every public SymbolTable operation in a generated history the
real tables must satisfy the invariants (key == normalised current name,
tags/arguments point to member symbols, lookup returns the innermost symbol
computed by my own walk over the scope chain) and the operation's own
post-condition (fresh names do not clash, merge represents every non-skipped
symbol exactly once and renames only clashing ones, rename/remove/swap/add do
what they say and nothing else); an operation that raised must leave every
table's view unchanged.
"""
from vf.core import Part

PROPERTY = "C16"
LEVEL = "exploration"

NAMES = ["a", "A", "b", "B", "a_1", "A_1", "x", "tmp", "Tmp", "mod1", "MOD1",
         "sin"]
TAGS = ["t1", "t2", "T1", "own"]


def norm(name):
    return name.lower()


class World:
    """Three nested real scopes + one independent routine + a free table."""

    def __init__(self):
        from psyclone.psyir.nodes import (Container, Routine, Loop, Literal,
                                          Assignment, Reference, Return)
        from psyclone.psyir.symbols import (DataSymbol, INTEGER_TYPE,
                                            SymbolTable)
        self.container = Container("cont")
        self.routine = Routine("sub")
        self.container.addchild(self.routine)
        ivar = DataSymbol("idx", INTEGER_TYPE)
        self.routine.symbol_table.add(ivar)
        self.loop = Loop.create(ivar, Literal("1", INTEGER_TYPE),
                                Literal("2", INTEGER_TYPE),
                                Literal("1", INTEGER_TYPE),
                                [Assignment.create(Reference(ivar),
                                                   Literal("1", INTEGER_TYPE))
                                 ])
        self.routine.addchild(self.loop)
        self.other = Routine("other")
        self.free = SymbolTable()
        self.symbols = []        # every symbol object ever created
        self.spare_nodes = []
        self.stats = {}

    def tables(self):
        t = []
        for node in (self.container, self.routine, self.loop.loop_body,
                     self.other):
            if node.symbol_table is not None:
                t.append(node.symbol_table)
        t.append(self.free)
        return t

    def all_known_tables(self):
        return [self.container._symbol_table, self.routine._symbol_table,
                self.loop.loop_body._symbol_table, self.other._symbol_table,
                self.free]


def chain(table):
    """My own walk over enclosing scopes: innermost first."""
    out = [table]
    node = table.node
    while node is not None and node.parent is not None:
        node = node.parent
        st = getattr(node, "_symbol_table", None)
        if st is not None:
            out.append(st)
    return out


def table_view(t):
    return (
        tuple((k, id(s), s.name, type(s).__name__, repr_iface(s))
              for k, s in t._symbols.items()),
        tuple(sorted((tag, id(s)) for tag, s in t._tags.items())),
        tuple(id(s) for s in t._argument_list),
        id(t._node) if t._node is not None else 0)


def repr_iface(s):
    i = s.interface
    cs = getattr(i, "container_symbol", None)
    return (type(i).__name__, id(cs) if cs is not None else 0,
            getattr(cs, "wildcard_import", None) if cs is not None else None)


def world_view(w):
    return tuple(table_view(t) for t in w.all_known_tables() if t is not None)


def invariants(w):
    """First broken invariant or None."""
    for t in w.tables():
        for key, sym in t._symbols.items():
            if key != norm(sym.name):
                return ("stale_key", "table key '%s' holds symbol named '%s'"
                        % (key, sym.name))
        keys = list(t._symbols.keys())
        if len(set(keys)) != len(keys):
            return ("duplicate_key", "duplicate key")
        ids = [id(s) for s in t._symbols.values()]
        if len(set(ids)) != len(ids):
            return ("symbol_twice", "same symbol object under two names")
        for tag, sym in t._tags.items():
            if t._symbols.get(norm(sym.name)) is not sym:
                return ("dangling_tag", "tag '%s' refers to symbol '%s' that "
                        "is not in the table" % (tag, sym.name))
        for sym in t._argument_list:
            if t._symbols.get(norm(sym.name)) is not sym:
                return ("dangling_argument", "argument '%s' is not in the "
                        "table" % sym.name)
        # scoped lookup
        ch = chain(t)
        names = set()
        for tt in ch:
            names.update(tt._symbols.keys())
        for n in sorted(names):
            expected = None
            for tt in ch:
                if n in tt._symbols:
                    expected = tt._symbols[n]
                    break
            for spelled in (n, n.upper()):
                try:
                    got = t.lookup(spelled)
                except Exception as err:
                    return ("lookup_failed", "lookup('%s') raised %s although "
                            "the name is visible" % (spelled,
                                                     type(err).__name__))
                if got is not expected:
                    return ("lookup_not_innermost",
                            "lookup('%s') did not return the innermost "
                            "enclosing symbol" % spelled)
        for absent in ("zz_absent", "ZZ_ABSENT"):
            try:
                t.lookup(absent)
                return ("lookup_found_absent", "lookup of an absent name "
                        "succeeded")
            except KeyError:
                pass
        # tags: innermost
        tags = {}
        for tt in reversed(ch):
            tags.update(tt._tags)
        for tag, sym in tags.items():
            try:
                if t.lookup_with_tag(tag) is not sym:
                    return ("tag_lookup_not_innermost", "lookup_with_tag('%s')"
                            " is not the innermost" % tag)
            except Exception as err:
                return ("tag_lookup_failed", "lookup_with_tag('%s') raised %s"
                        % (tag, type(err).__name__))
    return None


# ---------------------------------------------------------------- operations
def make_symbol(w, rnd_vals, table):
    """rnd_vals: dict(kind, name, ...) -> a fresh real Symbol."""
    from psyclone.psyir.symbols import (DataSymbol, Symbol, RoutineSymbol,
                                        ContainerSymbol, INTEGER_TYPE,
                                        REAL_TYPE, ImportInterface,
                                        ArgumentInterface,
                                        UnresolvedInterface,
                                        AutomaticInterface)
    kind = rnd_vals["kind"]
    name = rnd_vals["name"]
    if kind == "data":
        s = DataSymbol(name, INTEGER_TYPE)
    elif kind == "real":
        s = DataSymbol(name, REAL_TYPE)
    elif kind == "generic":
        s = Symbol(name)
    elif kind == "unresolved":
        s = Symbol(name, interface=UnresolvedInterface())
    elif kind == "routine":
        s = RoutineSymbol(name)
    elif kind == "container":
        s = ContainerSymbol(name)
        s.wildcard_import = bool(rnd_vals.get("wild"))
    elif kind == "arg":
        s = DataSymbol(name, INTEGER_TYPE, interface=ArgumentInterface())
    elif kind == "import":
        # import from a container symbol already in (a table of) the chain,
        # else from a fresh container that is added first by the operation
        cs = None
        for tt in chain(table):
            for c in tt.containersymbols:
                cs = c
                break
            if cs:
                break
        if cs is None:
            s = DataSymbol(name, INTEGER_TYPE)
        else:
            s = DataSymbol(name, INTEGER_TYPE, interface=ImportInterface(cs))
    else:
        raise ValueError(kind)
    w.symbols.append(s)
    return s


KINDS = ["data", "data", "real", "generic", "unresolved", "routine",
         "container", "arg", "import"]
OPS = ["new_symbol", "new_symbol_tag", "find_or_create", "find_or_create_tag",
       "add", "add_tag", "next_available_name", "rename", "remove", "swap",
       "swap_props", "merge", "merge_skip", "detach_attach", "spec_args",
       "lookup_limit"]


def rand_op(rnd):
    return {"op": rnd.choice(OPS), "table": rnd.randrange(5),
            "table2": rnd.randrange(5), "name": rnd.choice(NAMES),
            "name2": rnd.choice(NAMES), "tag": rnd.choice(TAGS),
            "kind": rnd.choice(KINDS), "wild": rnd.random() < 0.4,
            "shadow": rnd.random() < 0.4, "pick": rnd.randrange(1000),
            "pick2": rnd.randrange(1000), "allow_renaming":
            rnd.random() < 0.8, "nskip": rnd.choice([0, 0, 1, 2])}


class PostFail(Exception):
    def __init__(self, kind, what, mechanism=None):
        super().__init__(what)
        self.kind = kind
        self.what = what
        self.mechanism = mechanism


def pick_symbol(t, k):
    syms = list(t._symbols.values())
    return syms[k % len(syms)] if syms else None


def do_op(w, op):
    """Run one public operation on the real tables and evaluate its own
    post-condition (PostFail).  Exceptions from the real code propagate."""
    from psyclone.psyir.symbols import (DataSymbol, INTEGER_TYPE,
                                        ContainerSymbol, SymbolTable)
    tabs = w.tables()
    t = tabs[op["table"] % len(tabs)]
    name = op["op"]
    if name in ("new_symbol", "new_symbol_tag"):
        pre_self = set(t._symbols.keys())
        pre_chain = set()
        for tt in chain(t):
            pre_chain.update(tt._symbols.keys())
        pre_n = len(t._symbols)
        kwargs = {}
        if op["kind"] in ("data", "real", "arg"):
            kwargs = {"symbol_type": DataSymbol, "datatype": INTEGER_TYPE}
        tag = op["tag"] if name == "new_symbol_tag" else None
        sym = t.new_symbol(op["name"], tag=tag, shadowing=op["shadow"],
                           allow_renaming=op["allow_renaming"], **kwargs)
        w.symbols.append(sym)
        forbidden = pre_self if op["shadow"] else pre_chain
        if norm(sym.name) in forbidden:
            raise PostFail("fresh_name_clashes", "new_symbol('%s', shadowing="
                           "%s) returned '%s' which already existed" % (
                               op["name"], op["shadow"], sym.name))
        if t._symbols.get(norm(sym.name)) is not sym or \
                len(t._symbols) != pre_n + 1:
            raise PostFail("new_symbol_not_added", "new symbol not added "
                           "exactly once")
        if not op["allow_renaming"] and sym.name != op["name"]:
            raise PostFail("renamed_although_forbidden", "renamed")
        if tag and t._tags.get(tag) is not sym:
            raise PostFail("tag_not_set", "tag not set")
        return "new"
    if name == "next_available_name":
        t2 = tabs[op["table2"] % len(tabs)]
        other = t2 if op["pick"] % 2 else None
        got = t.next_available_name(op["name"], shadowing=op["shadow"],
                                    other_table=other)
        forbidden = set(t._symbols.keys())
        if not op["shadow"]:
            for tt in chain(t):
                forbidden.update(tt._symbols.keys())
        if other is not None:
            forbidden.update(other._symbols.keys())
        if norm(got) in forbidden:
            raise PostFail("fresh_name_clashes", "next_available_name('%s', "
                           "shadowing=%s, other_table=%s) returned '%s' which "
                           "is in use" % (op["name"], op["shadow"],
                                          other is not None, got))
        return "name"
    if name == "find_or_create":
        visible = None
        for tt in chain(t):
            if norm(op["name"]) in tt._symbols:
                visible = tt._symbols[norm(op["name"])]
                break
        pre = world_view(w)
        sym = t.find_or_create(op["name"])
        if visible is not None:
            if sym is not visible or world_view(w) != pre:
                raise PostFail("find_or_create_not_found", "find_or_create "
                               "did not return the visible symbol unchanged")
            return "found"
        w.symbols.append(sym)
        if t._symbols.get(norm(sym.name)) is not sym:
            raise PostFail("new_symbol_not_added", "not added")
        return "created"
    if name == "find_or_create_tag":
        tags = {}
        for tt in reversed(chain(t)):
            tags.update(tt._tags)
        sym = t.find_or_create_tag(op["tag"], root_name=op["name"])
        if op["tag"] in tags:
            if sym is not tags[op["tag"]]:
                raise PostFail("tag_lookup_not_innermost", "wrong tag symbol")
            return "found"
        w.symbols.append(sym)
        if t._tags.get(op["tag"]) is not sym:
            raise PostFail("tag_not_set", "tag not set")
        return "created"
    if name in ("add", "add_tag"):
        sym = make_symbol(w, op, t)
        pre_has = norm(sym.name) in t._symbols
        tag = op["tag"] if name == "add_tag" else None
        t.add(sym, tag=tag)
        if pre_has:
            raise PostFail("add_accepted_clash", "add('%s') accepted although "
                           "the name was in use" % sym.name)
        if t._symbols.get(norm(sym.name)) is not sym:
            raise PostFail("new_symbol_not_added", "not added")
        return "added"
    if name == "rename":
        sym = pick_symbol(t, op["pick"])
        if sym is None:
            return "skip"
        old = sym.name
        pre_keys = set(t._symbols.keys())
        t.rename_symbol(sym, op["name2"])
        if sym.name != op["name2"] or \
                t._symbols.get(norm(op["name2"])) is not sym:
            raise PostFail("rename_failed", "rename did not take effect")
        if norm(old) != norm(op["name2"]) and norm(old) in t._symbols:
            raise PostFail("stale_key", "old key still present after rename")
        if norm(op["name2"]) in pre_keys and norm(old) != norm(op["name2"]):
            raise PostFail("rename_accepted_clash", "rename onto an existing "
                           "name accepted")
        return "renamed"
    if name == "remove":
        sym = pick_symbol(t, op["pick"])
        if sym is None:
            return "skip"
        t.remove(sym)
        if sym in t._symbols.values() or sym in t._tags.values():
            raise PostFail("remove_failed", "symbol still present")
        return "removed"
    if name == "swap":
        old = pick_symbol(t, op["pick"])
        if old is None:
            return "skip"
        o2 = dict(op)
        o2["name"] = old.name if op["pick2"] % 4 else op["name"]
        new = make_symbol(w, o2, t)
        t.swap(old, new)
        if t._symbols.get(norm(new.name)) is not new or \
                old in t._symbols.values():
            raise PostFail("swap_failed", "swap did not replace the symbol")
        return "swapped"
    if name == "swap_props":
        s1 = pick_symbol(t, op["pick"])
        s2 = pick_symbol(t, op["pick2"])
        if s1 is None:
            return "skip"
        n1, n2 = s1.name, s2.name
        t.swap_symbol_properties(s1, s2)
        if s1.name != n1 or s2.name != n2:
            raise PostFail("swap_props_changed_names", "names changed")
        return "swapped_props"
    if name in ("merge", "merge_skip"):
        t2 = tabs[op["table2"] % len(tabs)]
        if t2 is t or t2 in chain(t) or t in chain(t2):
            return "skip"
        skip = []
        if name == "merge_skip":
            for k in range(op["nskip"]):
                s = pick_symbol(t2, op["pick"] + k)
                if s is not None:
                    skip.append(s)
        pre_self = list(t._symbols.values())
        pre_other = list(t2._symbols.values())
        pre_names = {id(s): s.name for s in pre_self + pre_other}
        self_names = {norm(s.name) for s in pre_self}
        other_names = {norm(s.name) for s in pre_other}
        t.merge(t2, symbols_to_skip=skip)
        post = list(t._symbols.values())
        post_ids = [id(s) for s in post]
        for s in pre_self:
            if post_ids.count(id(s)) != 1:
                raise PostFail("merge_lost_own_symbol", "a symbol of the "
                               "receiving table is no longer in it")
        for s in pre_other:
            if any(s is k for k in skip):
                continue
            cnt = post_ids.count(id(s))
            if cnt == 1:
                continue
            if cnt == 0 and dedup_ok(s, t, pre_names):
                w.stats["merge_dedups"] = w.stats.get("merge_dedups", 0) + 1
                continue
            mech = None
            mine = t._symbols.get(norm(pre_names[id(s)]))
            if cnt == 0 and s.is_import and mine is not None and \
                    not mine.is_import and not mine.is_unresolved:
                # fact of the two tables: an import of the other table has
                # the name of a local (non-imported) symbol of this one
                mech = "merge.import_dropped_on_clash_with_local_symbol"
            raise PostFail("merge_symbol_count_%d" % cnt,
                           "symbol '%s' (%s, %s) of the other table is "
                           "represented %d times after merge%s" % (
                               pre_names[id(s)], type(s).__name__,
                               s.interface, cnt,
                               "; this table has a local %s '%s'" % (
                                   type(mine).__name__, mine.name)
                               if mine is not None else ""), mech)
        for s in pre_self + pre_other:
            if s.name != pre_names[id(s)]:
                w.stats["merge_renames"] = w.stats.get("merge_renames", 0) + 1
                was = norm(pre_names[id(s)])
                if not (was in self_names and was in other_names):
                    raise PostFail("merge_renamed_without_clash",
                                   "'%s' was renamed to '%s' although its "
                                   "name did not clash" % (pre_names[id(s)],
                                                           s.name))
        # Callers discard the table they merged from (its symbols now belong
        # to the receiving table); keeping it in use would share symbol
        # objects between two live tables, which the API does not promise to
        # keep consistent.  Retire it and give its scope a fresh table.
        retire(w, t2)
        return "merged"
    if name == "detach_attach":
        # move the free table onto a spare scoping node / back
        from psyclone.psyir.nodes import Schedule
        body = w.loop.loop_body
        if body._symbol_table is not None and op["pick"] % 2:
            st = body.symbol_table.detach()
            if st.node is not None or body._symbol_table is not None:
                raise PostFail("detach_failed", "detach left a link")
            st.attach(body)
            return "reattached"
        w.free.attach(w.routine)    # must be refused: routine has a table
        raise PostFail("attach_accepted_occupied_scope", "attach accepted a "
                       "scope that already has a table")
    if name == "spec_args":
        syms = [s for s in t._symbols.values()
                if getattr(s, "is_argument", False)]
        extra = pick_symbol(t, op["pick"])
        lst = syms if op["pick2"] % 3 else syms + ([extra] if extra else [])
        t.specify_argument_list(lst)
        if [id(s) for s in t._argument_list] != [id(s) for s in lst]:
            raise PostFail("arglist_not_set", "argument list not set")
        return "args"
    if name == "lookup_limit":
        # scope_limit: ancestors of the limit node are not searched
        got = None
        key = norm(op["name"])
        exp = None
        if t is w.loop.loop_body._symbol_table:
            lim = w.routine
            for tt in (t, w.routine._symbol_table):
                if tt is not None and key in tt._symbols:
                    exp = tt._symbols[key]
                    break
            try:
                got = t.lookup(op["name"], scope_limit=lim)
            except KeyError:
                got = None
            if got is not exp:
                raise PostFail("lookup_scope_limit", "lookup with scope_limit "
                               "returned the wrong symbol")
            return "lookup"
        return "skip"
    raise ValueError(name)


def retire(w, table):
    from psyclone.psyir.symbols import SymbolTable
    node = table.node
    if node is None:
        if table is w.free:
            w.free = SymbolTable()
        return
    table.detach()
    SymbolTable().attach(node)


def dedup_ok(s, t, pre_names):
    """Documented de-duplications of merge: a container with the same name is
    already there; an imported symbol whose import is already present; both
    unresolved; both intrinsic."""
    from psyclone.psyir.symbols import ContainerSymbol, IntrinsicSymbol
    mine = t._symbols.get(norm(pre_names[id(s)]))
    if mine is None:
        return False
    if isinstance(s, ContainerSymbol) and isinstance(mine, ContainerSymbol):
        return True
    if s.is_import and mine.is_import:
        return True
    if s.is_unresolved and mine.is_unresolved:
        return True
    if isinstance(s, IntrinsicSymbol) and isinstance(mine, IntrinsicSymbol):
        return True
    return False


def run_history(hist, part):
    w = World()
    for step, op in enumerate(hist):
        pre = world_view(w)
        names_pre = [(id(s), s.name) for s in w.symbols]
        raised = None
        outcome = None
        try:
            outcome = do_op(w, op)
        except PostFail as pf:
            part.violation({"kind": "postcondition:" + pf.kind,
                            "mechanism": pf.mechanism,
                            "what": "%s: %s" % (op["op"], pf.what),
                            "history": hist[:step + 1],
                            "dedupe": (op["op"], pf.kind)})
            return
        except RecursionError:
            raise
        except Exception as err:
            raised = err
        part.count("ops")
        part.count("op:%s:%s" % (op["op"], "raised:" + type(raised).__name__
                                 if raised else outcome))
        if raised is not None:
            post = world_view(w)
            names_post = [(id(s), s.name) for s in w.symbols
                          ][:len(names_pre)]
            if post != pre or names_post != names_pre:
                part.violation({
                    "kind": "table_changed_by_rejected_operation",
                    "mechanism": "merge.not_atomic" if op["op"] in (
                        "merge", "merge_skip") else None,
                    "what": "%s raised %s: %s -- but a table changed" % (
                        op["op"], type(raised).__name__, str(raised)[:150]),
                    "history": hist[:step + 1],
                    "dedupe": (op["op"], type(raised).__name__)})
                return
        part.count("invariant_evaluations")
        bad = invariants(w)
        if bad:
            part.violation({"kind": "invariant:" + bad[0], "mechanism": None,
                            "what": "after %s%s: %s" % (
                                op["op"], " (raised %s)" % type(raised).__name__
                                if raised else "", bad[1]),
                            "history": hist[:step + 1],
                            "dedupe": (op["op"], bad[0])})
            return
    for k, v in w.stats.items():
        part.count(k, v)


def batch(arg):
    import random
    part = Part()
    rnd = random.Random(arg["seed"])
    for h in range(arg["count"]):
        hist = [rand_op(rnd) for _ in range(rnd.randint(2, arg["maxlen"]))]
        run_history(hist, part)
        part.case(key=hist, nontrivial=True,
                  sample=[{k: o[k] for k in ("op", "table", "name", "kind")}
                          for o in hist] if h == 0 else None)
    return part


def suite_under_monitor(ctx):
    """Thorough tier: the repository's own suite with the E4 monitor on."""
    from vf import suite
    res = suite.run_suite("c16")
    if res is None:
        ctx.inconclusive("suite-under-monitor run did not complete")
        return
    for k, v in res["events"].items():
        ctx.count("suite:" + k, v)
    ctx.extra["suite_summary"] = res["summary"]
    ctx.extra["suite_failed_tests"] = res.get("failed_tests")
    for f in res["firings"]:
        if f["property"] != "C16":
            continue
        ctx.violation({"kind": "suite:" + f["kind"],
                       "mechanism": f.get("mechanism"),
                       "what": "%s [%s]" % (f["what"], f["test"]),
                       "test": f["test"],
                       "dedupe": (f["kind"], f.get("op"),
                                  f.get("transformation"),
                                  f.get("mechanism"))})


def main(ctx):
    ctx.rule = ("histories of public SymbolTable operations (%s) over three "
                "nested real scopes (Container > Routine > loop body) plus an "
                "independent routine and a free table, names from a pool "
                "differing only in case, tags, imports, arguments, wildcard "
                "containers; distinct by operation list" % ", ".join(OPS))
    nb = 32 if ctx.quick else 128
    cnt = 1200 if ctx.quick else 6000
    maxlen = 15 if ctx.quick else 50
    jobs = [{"seed": ctx.rng("b", i).random(), "count": cnt,
             "maxlen": maxlen} for i in range(nb)]
    for res in ctx.pmap("vf.checks.c16", "batch", jobs, timeout=3000):
        if res:
            ctx.merge(res)
    if not ctx.quick:
        suite_under_monitor(ctx)
    if ctx.counters.get("ops", 0) == 0:
        ctx.inconclusive("no operation executed")
    ctx.assumptions += [
        "scope chain computed by my own walk over node.parent links",
        "merge de-duplications accepted: container/container, import/import, "
        "unresolved/unresolved, intrinsic/intrinsic with the same name"]
