"""Run the repository's own test suite with the E4 monitors on and collect
what they observed (thorough tiers of C14 / C16 / C26)."""
import glob
import json
import os
import subprocess
import tempfile
import shutil

from vf.core import REPO, ROOT, PY, base_env, NCPU


def run_suite(monitors, subset=None, timeout=5400):
    """monitors: e.g. 'c14'.  Returns dict(events, firings, rc, summary) or
    None when the run did not complete (=> inconclusive)."""
    out = tempfile.mkdtemp(prefix="vf_suite_")
    env = base_env()
    env["VF_SUITE_OUT"] = out
    env["VF_SUITE_MONITORS"] = monitors
    env.pop("PYTEST_ADDOPTS", None)
    target = subset or ["src/psyclone/tests"]
    cmd = [PY, "-m", "pytest", "-q", "-rf", "-p", "no:cacheprovider", "-p",
           "vf.pytest_plugin", "--timeout=1800", "-n", str(max(2, NCPU - 2)),
           "-x", "--maxfail=50"] + target
    cmd.remove("-x")
    try:
        p = subprocess.run(cmd, cwd=REPO, env=env, capture_output=True,
                           text=True, timeout=timeout)
    except subprocess.TimeoutExpired:
        shutil.rmtree(out, ignore_errors=True)
        return None
    events, firings = {}, []
    for f in glob.glob(os.path.join(out, "monitor_*.json")):
        d = json.load(open(f))
        for k, v in d["events"].items():
            events[k] = events.get(k, 0) + v
        firings += d["firings"]
    shutil.rmtree(out, ignore_errors=True)
    tail = p.stdout.strip().splitlines()[-1] if p.stdout.strip() else ""
    failed = sorted(l.split(" ")[1] for l in p.stdout.splitlines()
                    if l.startswith("FAILED "))
    return {"events": events, "firings": firings, "rc": p.returncode,
            "summary": tail, "failed_tests": failed}
