"""C22: run the shadow model over one invoke for every mesh halo depth,
stencil-extent valuation and initial halo state."""
import itertools

from vf.c22_model import (run_field, initial_states, Fault, InvalidConfig,
                          expr_names, BadExpr)

MAX_D = 6
N_D = 2          # number of valid mesh halo depths examined per invoke


def walk(events):
    for ev in events:
        yield ev
        if ev["t"] == "guard":
            for e in ev["body"]:
                yield e


def fields_of(events):
    """{proxy key: {"ro": bool, "cont": bool}} for every field component."""
    out = {}
    for ev in walk(events):
        if ev["t"] in ("guard", "hex", "set_dirty", "set_clean"):
            out.setdefault(ev["field"], {"ro": False, "cont": False})
        elif ev["t"] == "loop":
            for a in ev["accesses"]:
                d = out.setdefault(a["field"], {"ro": False, "cont": False})
                if a["cont"] == "ro":
                    d["ro"] = True
                if a["cont"] == "cont":
                    d["cont"] = True
    return out


def extent_vars(events):
    names = set()
    for ev in walk(events):
        exprs = []
        if ev["t"] in ("guard", "hex", "set_clean"):
            exprs.append(ev["depth"])
        elif ev["t"] == "loop":
            if ev["kind"] == "cells":
                exprs.append(ev["h"])
            elif ev["bound"] not in ("owned", "annexed"):
                exprs.append(ev["bound"])
            for a in ev["accesses"]:
                if a.get("stencil"):
                    exprs.append(a["stencil"])
        for e in exprs:
            for n in expr_names(e):
                if n != "max_halo_depth_mesh":
                    names.add(n)
    return sorted(names)


def analyse(events, annexed, counters, min_d=1):
    """`min_d`: smallest mesh halo depth considered (the largest literal
    depth the transformation history asked for).
    Returns (faults, info).  faults: list of dicts (first per field and
    mechanism); info: {"valid_D": [...], "states": n, "exhaustive": bool}."""
    def bump(k, n=1):
        counters[k] = counters.get(k, 0) + n
    flds = fields_of(events)
    evars = extent_vars(events)
    if len(evars) <= 3:
        envs = [dict(zip(evars, v))
                for v in itertools.product((1, 2), repeat=len(evars))]
    else:
        envs = [dict((n, 1) for n in evars), dict((n, 2) for n in evars)]
        bump("invokes_with_sampled_extent_valuations")
    faults = []
    seen = set()
    used_D = set()
    states = 0
    joint = 0
    for env0 in envs:
        nvalid = 0
        for D in range(min_d, MAX_D + 1):
            env = dict(env0)
            env["max_halo_depth_mesh"] = D
            runs = []
            local = {}
            try:
                jn = 1
                for key in sorted(flds):
                    inits = initial_states(D, True, annexed,
                                           flds[key]["ro"])
                    jn *= len(inits)
                    for cd0, ax0 in inits:
                        try:
                            run_field(events, key, D, env, cd0, ax0, local)
                            runs.append(None)
                        except Fault as f:
                            runs.append((key, cd0, ax0, f))
            except InvalidConfig:
                bump("configurations_invalid_at_run_time")
                continue
            nvalid += 1
            used_D.add(D)
            states += len(runs)
            joint += jn
            for k, v in local.items():
                bump(k, v)
            for r in runs:
                if r is None:
                    continue
                key, cd0, ax0, f = r
                sig = (key, f.mechanism)
                if sig in seen:
                    continue
                seen.add(sig)
                faults.append({
                    "field": key, "mesh_halo_depth": D, "extents": env0,
                    "initial_state": {"clean_depth": cd0,
                                      "annexed_clean": ax0},
                    "kind": f.kind, "mechanism": f.mechanism,
                    "detail": f.detail, "state_at_fault": f.state,
                    "event_line": f.event.get("line"),
                    "event_text": f.event.get("text")})
            if nvalid >= N_D:
                break
    bump("initial_states_enumerated", states)
    bump("joint_initial_states_covered", joint)
    return faults, {"valid_D": sorted(used_D), "states": states,
                    "fields": len(flds), "extent_vars": evars}
