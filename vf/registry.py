"""Per-property registration used by vf.mkmanifest.  A property appears here
only once its check exists and has been run on the unchanged tree."""

CHECKS = {}
NOT_APPLICABLE = {}


def reg(pid, technique, text, note, design_ref, category="exploration"):
    CHECKS[pid] = dict(technique=technique, text=text, note=note,
                       design_ref=design_ref, category=category)


reg("C27",
    "icontract post-condition on the real sort_modules under exhaustive + "
    "random dependency maps",
    "Runtime contract (permutation of keys; dependencies-first when the known "
    "graph is acyclic; input untouched) evaluated on every call of the real "
    "ModuleManager.sort_modules while the workload enumerates every dependency "
    "map over <=4 modules with self loops and an unknown name (thorough: also "
    "all loop-free maps over 5 modules) and random maps up to 9 modules. "
    "Exhaustive within that bound, sampled beyond; not a proof.",
    "Trusts icontract to evaluate the condition on each call (evaluations are "
    "counted; zero => inconclusive) and my 15-line acyclicity test.",
    "DESIGN.md §5 C27")
