"""C04 Generated code declares every entity it uses, in a valid order.

Monitors: (1) gfortran -fimplicit-none accepts what FortranWriter emits for
routines whose symbol tables were filled through the public API in random
order (constants depending on constants through initial values, array bounds
and kind parameters; unsupported-type declarations that depend on constants;
derived types); (2) a declaration scanner: no name declared twice in a
scoping unit; (3) an execution capture test for symbols of inner scopes that
clash (case-insensitively) with routine-level names: every symbol is given a
distinct value, the values observed at run time must be the ones my
construction assigned; (4) outputs of accepted transformations are compiled
by C05/C06/C07 (kind 'transformed_does_not_compile').
"""
import os
import random
import re
import shutil
import tempfile

from vf import fx
from vf.core import Part

PROPERTY = "C04"
LEVEL = "exploration"

DECL = re.compile(r"^\s*(integer|real|double precision|logical|type\s*\(|"
                  r"character)[^!]*::\s*(.*)$", re.I)


def declared_names(text):
    """{routine/module unit index: [names...]} from '::' declarations."""
    units = []
    cur = None
    for line in text.splitlines():
        s = line.strip().lower()
        if re.match(r"^(subroutine|function|module|program)\s+\w+", s) and \
                not s.startswith("module procedure"):
            cur = []
            units.append(cur)
            continue
        if s.startswith("type ::") or s.startswith("type,"):
            cur = None if cur is None else cur      # components: skip block
        m = DECL.match(line)
        if m and cur is not None and "intent" not in "":
            for part in split_top(m.group(2)):
                name = re.match(r"\s*([a-z_]\w*)", part, re.I)
                if name:
                    cur.append(name.group(1).lower())
    return units


def split_top(s):
    out, depth, cur = [], 0, ""
    for ch in s:
        if ch == "(":
            depth += 1
        elif ch == ")":
            depth -= 1
        if ch == "," and depth == 0:
            out.append(cur)
            cur = ""
        else:
            cur += ch
    out.append(cur)
    return out


def build_case(rnd):
    """Returns (container, expected_out_values, description)."""
    from psyclone.psyir.nodes import (Container, Routine, Assignment,
                                      Reference, Literal, BinaryOperation,
                                      ArrayReference, Loop, Schedule,
                                      StructureReference)
    from psyclone.psyir.symbols import (
        DataSymbol, INTEGER_TYPE, REAL_TYPE, ScalarType, ArrayType,
        ArgumentInterface, StructureType, DataTypeSymbol, Symbol,
        UnsupportedFortranType, SymbolTable)
    cont = Container("cmod")
    rt = Routine("kern")
    cont.addchild(rt)
    st = rt.symbol_table
    ADD = BinaryOperation.Operator.ADD
    MUL = BinaryOperation.Operator.MUL
    desc = []
    # --- integer constants with a random dependency DAG
    nconst = rnd.randint(2, 6)
    consts = []
    values = {}
    pending = []
    for k in range(nconst):
        name = "c%d" % k
        if consts and rnd.random() < 0.7:
            d1 = rnd.choice(consts)
            d2 = rnd.choice(consts) if rnd.random() < 0.4 else None
            lit = rnd.randint(1, 3)
            init = BinaryOperation.create(ADD, Reference(d1),
                                          Literal(str(lit), INTEGER_TYPE))
            val = values[d1.name] + lit
            if d2 is not None:
                init = BinaryOperation.create(MUL, init, Reference(d2))
                val *= values[d2.name]
        else:
            val = rnd.randint(1, 4)
            init = Literal(str(val), INTEGER_TYPE)
        sym = DataSymbol(name, INTEGER_TYPE, is_constant=True,
                         initial_value=init)
        consts.append(sym)
        values[name] = val
        pending.append(sym)
    # --- kind parameter and reals of that kind
    kind_sym = None
    if rnd.random() < 0.7:
        kind_sym = DataSymbol("wp", INTEGER_TYPE, is_constant=True,
                              initial_value=Literal("8", INTEGER_TYPE))
        pending.append(kind_sym)
        desc.append("kind")
    # --- constants OF that kind whose initial value does not mention it
    kind_consts = []
    if kind_sym is not None:
        rkind = ScalarType(ScalarType.Intrinsic.REAL, kind_sym)
        if rnd.random() < 0.6:
            kind_consts.append((DataSymbol(
                "ac", ArrayType(rkind, [3]), is_constant=True,
                initial_value=Literal("2.0", REAL_TYPE)), 2, True))
            desc.append("kind_array_const")
        if rnd.random() < 0.5:
            kind_consts.append((DataSymbol(
                "rc", rkind, is_constant=True,
                initial_value=Literal("3.0", REAL_TYPE)), 3, False))
            desc.append("kind_scalar_const")
        pending += [kc[0] for kc in kind_consts]
    # --- variables whose types depend on constants
    out_sym = DataSymbol("res", ArrayType(INTEGER_TYPE, [
        ArrayType.Extent.ATTRIBUTE]), interface=ArgumentInterface(
            ArgumentInterface.Access.READWRITE))
    variables = []
    for k in range(rnd.randint(1, 4)):
        c = rnd.choice(consts)
        x = rnd.random()
        if x < 0.4:
            dt = ArrayType(INTEGER_TYPE, [Reference(c)])
            desc.append("array_bound")
        elif x < 0.6 and kind_sym is not None:
            dt = ScalarType(ScalarType.Intrinsic.REAL, kind_sym)
            desc.append("kind_use")
        elif x < 0.8:
            dt = UnsupportedFortranType(
                "integer, dimension(%s) :: u%d" % (c.name, k))
            desc.append("unsupported_dep")
        else:
            dt = INTEGER_TYPE
        variables.append(DataSymbol("u%d" % k if isinstance(
            dt, UnsupportedFortranType) else "v%d" % k, dt))
    pending += variables
    # constant that depends on nothing but is declared with unsupported type
    if rnd.random() < 0.3:
        pending.append(DataSymbol(
            "uc", UnsupportedFortranType("integer, parameter :: uc = 7")))
        desc.append("unsupported_const")
    # --- derived type used by a variable
    tsym = None
    if rnd.random() < 0.5:
        stype = StructureType.create([
            ("ival", INTEGER_TYPE, Symbol.Visibility.PUBLIC, None)])
        tsym = DataTypeSymbol("box_t", stype)
        bvar = DataSymbol("box", tsym)
        pending += [tsym, bvar]
        desc.append("derived_type")
    rnd.shuffle(pending)               # hostile insertion order
    st.add(out_sym)
    st.specify_argument_list([out_sym])
    for s in pending:
        st.add(s)
    # --- body: res(k) = value of each constant
    expected = []
    idx = 1

    def store(expr, val):
        nonlocal idx
        rt.addchild(Assignment.create(
            ArrayReference.create(out_sym, [Literal(str(idx), INTEGER_TYPE)]),
            expr))
        expected.append(val)
        idx += 1
    for c in consts:
        store(Reference(c), values[c.name])
    for v in variables:
        if isinstance(v.datatype, ArrayType):
            from psyclone.psyir.nodes import IntrinsicCall
            store(IntrinsicCall.create(IntrinsicCall.Intrinsic.SIZE,
                                       [Reference(v)]),
                  values[v.datatype.shape[0].upper.symbol.name])
    for ksym, kval, is_arr in kind_consts:
        from psyclone.psyir.nodes import IntrinsicCall
        ref = ArrayReference.create(ksym, [Literal("2", INTEGER_TYPE)]) \
            if is_arr else Reference(ksym)
        store(IntrinsicCall.create(IntrinsicCall.Intrinsic.INT, [ref]), kval)
    if tsym is not None:
        rt.addchild(Assignment.create(
            StructureReference.create(bvar, ["ival"]),
            Literal("41", INTEGER_TYPE)))
        store(StructureReference.create(bvar, ["ival"]), 41)
    # --- inner scopes with clashing names
    if rnd.random() < 0.7:
        desc.append("inner_scope_clash")
        base = rnd.choice(["tmp", "v0", "c0", "idx"])
        outer = None
        if base == "tmp":
            outer = DataSymbol("tmp", INTEGER_TYPE)
            st.add(outer)
            rt.addchild(Assignment.create(Reference(outer),
                                          Literal("100", INTEGER_TYPE)))
        # a module-level variable named like the first candidate for the
        # renamed inner symbol: it must not be captured
        modvar = None
        if rnd.random() < 0.5:
            desc.append("outer_scope_candidate_name")
            modvar = DataSymbol(base + "_1", INTEGER_TYPE)
            cont.symbol_table.add(modvar)
            rt.addchild(Assignment.create(Reference(modvar),
                                          Literal("500", INTEGER_TYPE)))
        ivar = st.new_symbol("ii", symbol_type=DataSymbol,
                             datatype=INTEGER_TYPE)
        inner_name = rnd.choice([base, base.upper(), base.capitalize()])
        loop = Loop.create(ivar, Literal("1", INTEGER_TYPE),
                           Literal("1", INTEGER_TYPE),
                           Literal("1", INTEGER_TYPE), [])
        rt.addchild(loop)
        isym = DataSymbol(inner_name, INTEGER_TYPE)
        loop.loop_body.symbol_table.add(isym)
        loop.loop_body.addchild(Assignment.create(
            Reference(isym), Literal("200", INTEGER_TYPE)))
        # observe inner then outer
        loop.loop_body.addchild(Assignment.create(
            ArrayReference.create(out_sym, [Literal(str(idx), INTEGER_TYPE)]),
            Reference(isym)))
        expected.append(200)
        idx += 1
        if modvar is not None:
            store(Reference(modvar), 500)
        if outer is not None:
            store(Reference(outer), 100)
        elif base == "c0":
            store(Reference(consts[0]), values["c0"])
        # a second inner scope with the same name
        if rnd.random() < 0.5:
            jvar = st.new_symbol("jj", symbol_type=DataSymbol,
                                 datatype=INTEGER_TYPE)
            loop2 = Loop.create(jvar, Literal("1", INTEGER_TYPE),
                                Literal("1", INTEGER_TYPE),
                                Literal("1", INTEGER_TYPE), [])
            rt.addchild(loop2)
            isym2 = DataSymbol(inner_name.lower(), INTEGER_TYPE)
            loop2.loop_body.symbol_table.add(isym2)
            loop2.loop_body.addchild(Assignment.create(
                Reference(isym2), Literal("300", INTEGER_TYPE)))
            loop2.loop_body.addchild(Assignment.create(
                ArrayReference.create(out_sym, [Literal(str(idx),
                                                        INTEGER_TYPE)]),
                Reference(isym2)))
            expected.append(300)
            idx += 1
    return cont, expected, sorted(set(desc))


MAIN = """program main
  use cmod
  implicit none
  integer :: res(40)
  res = -1
  call kern(res)
  write(*,'(*(1X,I0))') res(1:%d)
end program main
"""


def batch(arg):
    from psyclone.psyir.backend.fortran import FortranWriter
    from psyclone.psyir.backend.visitor import VisitorError
    from psyclone.errors import PSycloneError
    part = Part()
    rnd = random.Random(arg["seed"])
    wd = tempfile.mkdtemp(prefix="vf_c04_")
    try:
        for n in range(arg["count"]):
            try:
                cont, expected, desc = build_case(rnd)
            except PSycloneError as err:
                part.count("construction_refused:" + type(err).__name__)
                continue
            try:
                text = FortranWriter()(cont)
            except PSycloneError as err:
                # the writer may refuse (e.g. a dependency it cannot order)
                part.count("writer_refused:" + type(err).__name__)
                part.count("writer_refused_msg:" + str(err)[:70])
                continue
            part.count("written")
            for k in desc:
                part.count("feature:" + k)
            units = declared_names(text)
            for u in units:
                dup = sorted({x for x in u if u.count(x) > 1})
                if dup:
                    part.violation({
                        "kind": "name_declared_twice", "mechanism": None,
                        "what": "%s declared more than once" % dup,
                        "features": desc, "text": text,
                        "dedupe": ("dup", tuple(desc))})
            ok, err = fx.compile_f(wd, [("m.f90", text), ("p.f90", MAIN % max(
                1, len(expected)))], flags=[
                    "-O0", "-fimplicit-none", "-fcheck=all",
                    "-ffree-line-length-none"])
            if not ok:
                part.violation({
                    "kind": "written_code_does_not_compile",
                    "mechanism": None,
                    "what": "features %s: %s" % (desc, err.strip()[:400]),
                    "features": desc, "text": text,
                    "dedupe": ("compile", err.strip().splitlines()[-1][:60]
                               if err.strip() else "")})
                part.case(key=text, nontrivial=True)
                continue
            part.count("compiled")
            rc, out, serr = fx.run_exe(wd)
            got = [int(x) for x in out.split()] if rc == 0 else None
            if got != expected:
                part.violation({
                    "kind": "values_show_captured_or_wrong_symbol",
                    "mechanism": None,
                    "what": "features %s: expected %s got %s (rc=%s)" % (
                        desc, expected, got, rc),
                    "features": desc, "text": text,
                    "dedupe": ("values", tuple(desc))})
            else:
                part.count("values_agree")
            part.case(key=text, nontrivial=True,
                      sample={"features": desc, "text": text[:900]}
                      if n == 0 else None)
    finally:
        shutil.rmtree(wd, ignore_errors=True)
    return part


def main(ctx):
    ctx.rule = ("routines built through the PSyIR API: 2-6 integer constants "
                "with a random dependency DAG, a kind parameter, variables "
                "whose array bounds / kinds / unsupported-type declarations "
                "depend on the constants, a derived type, all added to the "
                "table in random order; inner loop-body scopes holding "
                "symbols that clash (also only by case) with routine-level "
                "names; each case is written, scanned, compiled with "
                "-fimplicit-none and run; distinct by written text")
    nb = 32 if ctx.quick else 128
    jobs = [{"seed": ctx.rng("b", i).random(),
             "count": 14 if ctx.quick else 80} for i in range(nb)]
    for res in ctx.pmap("vf.checks.c04", "batch", jobs, timeout=3400):
        if res:
            ctx.merge(res)
    if ctx.counters.get("compiled", 0) + len(ctx.violations) == 0:
        ctx.inconclusive("nothing was compiled")
    ctx.assumptions += [
        "transformation outputs are compiled under C05/C06/C07 (a compile "
        "failure there is reported by those checks); generated PSy layers "
        "are compiled under C20/C21/C24/C25",
        "a refusal by the writer (PSycloneError) is counted, not judged"]
