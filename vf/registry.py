"""Per-property registration used by vf.mkmanifest.  A property appears here
only once its check exists and has been run on the unchanged tree."""

CHECKS = {}
NOT_APPLICABLE = {}


def reg(pid, technique, text, note, design_ref, category="exploration"):
    CHECKS[pid] = dict(technique=technique, text=text, note=note,
                       design_ref=design_ref, category=category)


reg("C27",
    "icontract post-condition on the real sort_modules under exhaustive + "
    "random dependency maps",
    "Runtime contract (permutation of keys; dependencies-first when the known "
    "graph is acyclic; input untouched) evaluated on every call of the real "
    "ModuleManager.sort_modules while the workload enumerates every dependency "
    "map over <=4 modules with self loops and an unknown name (thorough: also "
    "all loop-free maps over 5 modules) and random maps up to 9 modules. "
    "Exhaustive within that bound, sampled beyond; not a proof.",
    "Trusts icontract to evaluate the condition on each call (evaluations are "
    "counted; zero => inconclusive) and my 15-line acyclicity test.",
    "DESIGN.md §5 C27")

reg("C17",
    "reference-evaluator monitor: every claim of the real SymbolicMaths is "
    "checked over integer valuations by an independent Fortran-integer "
    "evaluator (validated against gfortran each run)",
    "Each equal/never_equal/solve_equal_for/expand answer given by the real "
    "SymbolicMaths on generated near-identity pairs (size<=9, + - * / ** neg "
    "MOD MIN MAX ABS, index arrays) is refuted or not by evaluating both "
    "sides under Fortran INTEGER semantics on every valuation in [-6,6]^3 "
    "plus large ones. Sampled expression pairs, exhaustive small valuations; "
    "held-on-what-was-observed, not a proof.",
    "Trusts vf.iexpr (200 lines; compared with gfortran on 150+ "
    "expression/valuation samples per run, disagreement => inconclusive); "
    "known defects int_division_as_real and mod_floored_not_truncated are "
    "recognised by mechanism (claim true over rationals/floored Mod AND a "
    "truncating division / negative MOD operand at the witness).",
    "DESIGN.md §5 C17")

reg("C18",
    "output monitor: independent free-form continuation joiner + tokeniser "
    "compares logical lines of input and of the real limiter's output; "
    "limit, idempotence and no-exception monitors",
    "The real FortLineLength.process runs on generated texts (statements, "
    "declarations, calls with string literals, directives, comments, "
    "trailing comments) at limits 40..132; my joiner (F2008 3.3.2.4 incl. "
    "character context, !$omp&/!$acc& sentinels, '!& ' comments) must "
    "recover the same logical lines token for token. Sampled inputs.",
    "Trusts my joiner/tokeniser (it rejects what it cannot join: such inputs "
    "are counted, not judged). A raise on a line outside the generator's "
    "breakability guarantee is counted, not judged. Known defect "
    "trailing_comment_split needs the comment-free twin to pass.",
    "DESIGN.md §5 C18")

reg("C19",
    "differential execution of generated code: matrices of the tangent-linear "
    "kernel and of the adjoint PSyAD generates are tabulated by running both "
    "under gfortran -fcheck=all on every unit vector and compared "
    "(B == transpose(A)); PSyAD's own generated harness is run as a second "
    "oracle",
    "Generated linear TL kernels (scalar and 1-D array active variables, "
    "passive coefficients, loops with unit/non-unit/negative steps, offsets, "
    "zero-trip sizes, nested loops, IF blocks on passive data, increments "
    "with negative coefficients) go through the real generate_adjoint_str; "
    "for n in {0..6, 20} and two passive settings the full matrices are "
    "compared exactly, with a real(16) re-check before a mismatch at 1e-9 is "
    "reported; passive variables must be unchanged; the harness must print "
    "PASSED. Sampled kernels; held on what was observed.",
    "1-D arrays only, no array-section syntax, passive variables written "
    "only at routine start. A failure is attributed to a known mechanism "
    "only if every failing size has that hazard live and the hazard-free "
    "twin of the same kernel passes both oracles.",
    "DESIGN.md §5 C19")

reg("C14",
    "invariant monitor at the public-operation boundary over generated and "
    "enumerated edit histories on the real PSyIR classes",
    "After every public child-list operation (append/insert/extend/[]=/del/"
    "remove/pop/reverse/clear/addchild/children=/+=/replace_with/detach/"
    "pop_all_children, indices in [-6,6]) the whole forest of nodes is "
    "walked: parent lists child exactly once, every child passes the "
    "parent's own _validate_child at its position, parent links agree; an "
    "operation that raised must leave the identity structure unchanged. All "
    "single operations of a small alphabet on 6-10 target node types and "
    "pairs of them are enumerated; longer histories are random.",
    "Trusts PSyIR's own _validate_child as the definition of 'valid at its "
    "position'. Cycles are not generated (outside the statement).",
    "DESIGN.md §5 C14")

reg("C16",
    "invariant + post-condition monitor over generated operation histories "
    "on real nested SymbolTables",
    "After every public SymbolTable operation in random histories (<=15 "
    "quick / <=50 thorough) over Container>Routine>loop-body scopes, an "
    "independent routine and a free table: key == normalised name, tags and "
    "arguments are members, lookup() returns the innermost symbol computed "
    "by my own walk of the scope chain (any spelling), fresh names clash "
    "with nothing visible nor the other table, merge represents every "
    "non-skipped symbol exactly once and renames only clashing names, and a "
    "raising operation leaves every table view unchanged.",
    "A table that was merged from is retired (as real callers do); sharing "
    "one symbol between two live tables is not judged. Accepted merge "
    "de-duplications are the documented ones.",
    "DESIGN.md §5 C16")

reg("C01",
    "differential execution: original vs FortranReader->FortranWriter text "
    "compiled with gfortran -fcheck=all, inputs vetted by a reference "
    "interpreter that is itself compared with gfortran",
    "Generated programs (DO incl. zero-trip/negative-step, IF chains, SELECT "
    "CASE lists/ranges, WHERE/ELSEWHERE, sections, intrinsics, CodeBlock "
    "WRITE statements, module + main) are read and re-written by the real "
    "frontend/backend; both texts are compiled and run on up to 8 inputs "
    "(n = 0,1,...) and stdout compared exactly. Sampled programs; held on "
    "what was observed.",
    "Only inputs my interpreter accepts and on which it equals gfortran are "
    "judged. Four WHERE-lowering defects are known findings recognised by an "
    "AST fact of the source plus a passing hazard-free twin.",
    "DESIGN.md §5 C01")

reg("C02",
    "output monitors on the real FortranWriter over enumerated + random "
    "PSyIR expression trees: read-back structural equality, gfortran "
    "-std=f2008 acceptance, exact value comparison",
    "Every numeric tree to depth 3 over {+,-,*,/,**,unary -,+} x 3-4 leaves "
    "is built through the PSyIR API, written, read back by the real reader "
    "(must equal the tree in reader-normal form), compiled with gfortran "
    "-std=f2008 -pedantic-errors and (sampled) evaluated, the value compared "
    "with my exact evaluator; random trees to depth 5-6 add relational/"
    "logical operators, intrinsics, array and integer operands. Exhaustive "
    "within the stated bound, sampled beyond.",
    "Trusts PSyIR Node.__eq__ for structural equality and my exact "
    "evaluator (values a=3,b=-2,i=5). Known: unary operator left of */ is "
    "not bracketed (value-preserving), double literal without exponent; "
    "each needs its hazard-free twin to pass.",
    "DESIGN.md §5 C02")

reg("C03",
    "text-stability monitor W(R(W(R(src)))) == W(R(src)) on the real "
    "reader/writer over generated programs and the repository's Fortran "
    "corpus",
    "Generated F-lite programs and every .f90/.F90/.x90 file under "
    "tests/test_files, examples and tutorial that the reader accepts are "
    "written, read back and written again; texts must be identical and the "
    "first text must be readable. Sampled (quick: 480 corpus files), all "
    "corpus files in the thorough tier.",
    "No model: pure function of the real reader/writer. Known diff shapes "
    "(only added widxN declarations after a WHERE fallback; only the name "
    "order inside public::/private:: statements) are recognised by "
    "predicates on the diff.",
    "DESIGN.md §5 C03")

reg("C04",
    "compiler + execution monitors on code written from API-built symbol "
    "tables (random insertion order, dependent constants, clashing inner "
    "scopes)",
    "Routines are built through the PSyIR API with constants depending on "
    "constants via initial values, array bounds, kind parameters and "
    "unsupported-type declarations, a derived type, and inner loop-body "
    "scopes whose symbols clash (also only by case) with routine-level "
    "names; the written module must compile with -fimplicit-none, declare "
    "no name twice, and an execution capture test must observe exactly the "
    "values my construction assigned to each symbol.",
    "Transformation outputs are additionally compiled by C05/C06/C07 and "
    "PSy layers by C20/C21/C24/C25. A writer refusal is counted, not judged.",
    "DESIGN.md §5 C04")

_XF = ("differential execution of accepted transformations: re-written "
       "untransformed module vs transformed module, gfortran -fcheck=all, "
       "inputs vetted by a reference interpreter validated against gfortran")

reg("C05", _XF,
    "Every applicable (transformation, target, option) attempt among "
    "LoopFuse/LoopSwap/ChunkLoop/LoopTiling2D/Hoist/HoistLoopBoundExpr/"
    "ReplaceInductionVariables/FoldConditionalReturnExpressions is made on "
    "a fresh tree of scenario kernels (35% with one planted hazard) and "
    "generic kernels; accepted results are compiled and run on inputs incl. "
    "n=0,1 and stdout compared exactly. Sampled programs.",
    "Known findings need the planted hazard's twin to pass, or (generic "
    "kernels) a dynamic fact of the ORIGINAL program from the reference "
    "interpreter (dependence reversed by interchange, fusion-preventing "
    "dependence, loop zero-trip on exactly the failing inputs).",
    "DESIGN.md §5 C05")

reg("C06", _XF,
    "As C05 for ArrayAssignment2Loops, Reference2ArrayRange, "
    "ArrayAccess2Loop, AllArrayAccess2Loop, Abs/Sign/Min/Max2Code (real "
    "scalar arguments only: their documented domain), DotProduct/Matmul2Code "
    "and Sum/Product/Minval/Maxval2Loop on section assignments (overlapping, "
    "strided, 2-D, whole-array), masks, DIM and empty extents.",
    "Signed zeros normalised; values exactly representable. Known: "
    "overlapping same-array sections lowered to a forward loop (twin with a "
    "different source array passes).",
    "DESIGN.md §5 C06")

reg("C07", _XF,
    "InlineTrans on every subroutine and function call of generated caller/"
    "callee pairs (element / scalar / whole-array / section / expression "
    "actuals, callee locals clashing with caller names); accepted results "
    "compiled and run on inputs incl. n=0,1.",
    "Known: element and its index variable both passed and the callee "
    "changes the index first (twin whose callee leaves the index alone "
    "passes).",
    "DESIGN.md §5 C07")

reg("C08",
    "offline Bernstein-condition checker over the reference interpreter's "
    "per-iteration access trace for loops the real DependencyTools calls "
    "parallelisable; sys.monitoring step bound on every analysis call",
    "Loops with subscripts i, i±1, i/2, mod, index arrays, 2i, n-i+1, "
    "i+s1, i+d_i, private/conditional scalars and reductions are analysed "
    "by the real can_loop_be_parallelised under a LINE-event step monitor "
    "(termination decided on steps, 300k per line); loops reported "
    "parallelisable are traced on up to 8 inputs and every pair of "
    "iterations checked for a conflicting location.",
    "A verdict needs a concrete iteration pair and location; the "
    "interpreter is compared with gfortran on a sample each run. Known: "
    "conditionally written scalar, integer-division subscripts.",
    "DESIGN.md §5 C08")

reg("C09",
    "real OpenMP executions (1/2/4/8 threads x schedules) + team emulation "
    "in the reference interpreter driven by the emitted data-sharing "
    "clauses",
    "Loops accepted by OMPParallelLoopTrans / OMPLoopTrans+OMPParallelTrans "
    "without force are (a) compiled with -fopenmp and run under thread "
    "counts and OMP_SCHEDULE values, (b) executed by the interpreter as "
    "teams of 2-4 threads with private/firstprivate copies exactly as the "
    "emitted directive says, under random iteration-to-thread assignments "
    "and interleavings (each is a legal OpenMP execution); shared results "
    "must equal the serial run.",
    "Emulation interleaves whole iterations; clause variables are masked "
    "after the region. Known: conditionally written scalar privatised.",
    "DESIGN.md §5 C09")

reg("C10",
    "pushdown monitor over emitted directive lines + gfortran -fopenmp "
    "-fopenacc acceptance after random histories of accepted "
    "transformations",
    "Random histories (<=6/<=10) over 17 OpenMP/OpenACC/structural "
    "transformations with option variants on generated kernels; the text "
    "the writer emits must satisfy the structural rules (enclosing parallel "
    "region, no nested parallel/compute regions, matching ends, collapse "
    "depth) and compile. Refusals are the allowed alternative.",
    "Histories use one directive family (mixing OpenMP and OpenACC in one "
    "routine is not explored). Known findings are keyed by the canonical "
    "nesting code (inner-in-outer) produced by my monitor.",
    "DESIGN.md §5 C10")

reg("C11",
    "offline comparison of the reference interpreter's per-statement "
    "read/write trace with the real VariablesAccessInfo",
    "For every assignment, loop, IF block and call (module subroutines with "
    "intent in/out/inout, a PURE subroutine, functions, RANDOM_NUMBER, "
    "MVBITS) that executed on some input, each variable actually read "
    "(written) must be reported read (written); assignments reading their "
    "own target must report the read first.",
    "Variable-name granularity; statement<->node mapping by pre-order "
    "position, verified by counts. Known: PURE subroutine intent(out) "
    "argument reported read-only (a fix contradicts an existing test).",
    "DESIGN.md §5 C11")

reg("C12",
    "region replay in the reference interpreter from a state poisoned "
    "outside the reported inputs",
    "Every sampled contiguous region (<=6 top-level statements) of "
    "generated kernels is analysed by the real get_in_out_parameters and "
    "replayed with every non-input variable poisoned: a poison read is a "
    "missing input, an unreported write a missing output, a poisoned or "
    "different reported output shows the inputs do not reproduce the "
    "outputs.",
    "Interpreter compared with gfortran on a sample each run. Known: "
    "partial array write / conditional write treated as defining the "
    "variable.",
    "DESIGN.md §5 C12")

reg("C13",
    "device-store model in the reference interpreter driven by the emitted "
    "copyin/copyout/copy clauses",
    "Regions accepted by ACCKernelsTrans+ACCDataTrans are executed with a "
    "separate device store exactly as the emitted '!$acc data' clauses "
    "dictate; host arrays after the region must equal the host-only run. "
    "gfortran's host fallback shares memory, so the real binary cannot show "
    "this: the model is the monitor (stated limitation).",
    "30-line device model (copyin/copyout/copy, implicit copy for "
    "unlisted arrays, scalars shared). Known: partially written array in "
    "copyout.",
    "DESIGN.md §5 C13")

reg("C15",
    "identity/equality/resolution monitors on the real Node.copy() + "
    "text-before/after monitor under edit histories",
    "Random subtrees of templates (kind parameters, parameter-dependent "
    "bounds, initial values), scenario kernels and generic kernels are "
    "copied: copy == original, no shared node or symbol object, every "
    "reference inside the copy (also inside datatypes) resolves to the "
    "copy's own symbols; edit histories on one tree must leave the other's "
    "written code unchanged.",
    "Known: symbols referenced inside copied datatypes still belong to the "
    "original scope.",
    "DESIGN.md §5 C15")

reg("C23",
    "invariant monitor evaluated after every accepted LFRic transformation "
    "in random histories",
    "Histories of colouring, OpenMP/OpenACC loop+region, redundant "
    "computation and move transformations on the invokes of the "
    "repository's LFRic algorithm files (dm on/off): a loop under a loop "
    "directive containing a kernel that increments (INC/READINC) a field on "
    "a continuous/any_space function space (from the metadata) must be a "
    "colour loop; no colours loop has a parallel ancestor.",
    "Continuity from the metadata function-space name. Known: region "
    "transformations enclosing an existing colours loop.",
    "DESIGN.md §5 C23")

reg("C26",
    "before/after fingerprint monitor around every refused apply() of every "
    "concrete Transformation class",
    "Each (class, node or sibling list, option dict) attempt runs on a "
    "fresh tree of generated kernels (all scenario generators + generic) and "
    "of LFRic/GOcean invoke schedules; after a TransformationError the node "
    "structure, every symbol table and (generic PSyIR) the written text "
    "must be unchanged. Refusal-site reach is measured against an AST scan "
    "of the sources.",
    "Other exception types are counted, not judged. Known: lazy LFRic "
    "materialisation (only symbols added / NOT_INITIALISED bounds "
    "replaced).",
    "DESIGN.md §5 C26")

reg("C28",
    "offline checker over the event log of a checking PSyData stub library "
    "linked into instrumented programs",
    "Kernels with EXIT/CYCLE/RETURN are instrumented by the real Profile/"
    "Extract/NanTest/ReadOnlyVerify transformations on random statement "
    "ranges, compiled against my logging stub and run; per execution the "
    "events must be properly nested, matched per handle, follow the call "
    "protocol, leave no region open and use unique region names.",
    "The stub is mine (jinja absent). Known: a wrapped range containing an "
    "EXIT/CYCLE/RETURN is left without PostEnd.",
    "DESIGN.md §5 C28")

reg("C20",
    "compiled execution of generated PSy layers on the bundled LFRic "
    "infrastructure (rank 0 of 2, real owned/annexed/halo DoFs) against the "
    "formula parsed from the user guide",
    "All 68 built-ins documented in dynamo0p3.rst are invoked in generated "
    "algorithm programs under {dm off, dm on 1-of-1, dm on rank-0-of-2} x "
    "annexed on/off x {serial, OpenMP variants with 4 threads}; after the "
    "run every DoF in the documented range equals the documented formula "
    "evaluated exactly (Fractions) on the dumped initial data, and "
    "reductions equal the sum over OWNED DoFs as printed by the running "
    "function-space object. Sampled data, all built-ins.",
    "Oracle = the guide's formula line (hand entry only for setval_random: "
    "range). One rank observed (halo_exchange/global sum are no-ops in the "
    "stub). DoFs outside the documented range are counted, not judged.",
    "DESIGN.md §5 C20")

reg("C21",
    "position-by-position monitor of the two real argument-list generators "
    "on generated metadata + gfortran as a second monitor",
    "Valid LFRic kernel metadata from 9 families (fields, vectors, LMA/CMA "
    "operators, scalars, six stencil kinds, quadrature/evaluator shapes, "
    "mesh and reference-element properties, bc kernels) goes through the "
    "real stub generator and the real PSy-layer generator; actual and dummy "
    "lists are compared on count, type, kind and rank, stub intents against "
    "the documented ones, and the PSy layer is compiled against the stub "
    "(also an assumed-shape variant so rank mismatches are visible).",
    "Refusals by either generator are counted (domain, inter-grid, "
    "any_space basis). Known: evaluator listed before a quadrature shape; "
    "cross2d stencil mixed with another stencil type (twins pass).",
    "DESIGN.md §5 C21")

reg("C25",
    "execution of generated GOcean loop nests against a mock grid with "
    "probe kernels that log every visit",
    "For every index-offset x grid-point-type x iteration-space combination "
    "(built-in and user-defined from generated config files) and grid sizes "
    "1-7, the generated PSy layer is compiled with a mock dl_esm_inf and "
    "probe kernels; the visit log must equal (i) the config expressions "
    "evaluated by my own evaluator for user-defined spaces, (ii) exactly the "
    "designated field's region for built-in spaces with default bounds, "
    "(iii) containment rules under constant loop bounds, and (iv) be "
    "unchanged (sets and per-point kernel order) by loop fusion, OpenMP "
    "(1 and 4 threads), OpenACC and extraction histories.",
    "The real dl_esm_inf is absent: the mock is the trusted base for (ii) "
    "('the right field's region is used', not that the region is physically "
    "right). Known: go_every ignores a user-defined space; fusion across "
    "different index offsets.",
    "DESIGN.md §5 C25")

reg("C22",
    "reference-model monitor (halo-state shadow from the documented "
    "semantics) over the event trace of the generated PSy layer, all initial "
    "halo states enumerated",
    "Distributed-memory PSy layers generated from the repository's LFRic "
    "algorithm files and from generated kernel/algorithm combinations, after "
    "random accepted histories of redundant computation, colouring, async "
    "halo exchange, move and OpenMP transformations, are executed abstractly "
    "(the invoke is straight-line code branching only on is_dirty guards): "
    "for every initial (clean depth, annexed) state of every field, each "
    "read must find the depth it needs clean and each recorded state must be "
    "no cleaner than what the loop computed. Thorough tier validates the "
    "text executor against real runs with a logging infrastructure overlay.",
    "The oracle is my reading of the developer guide's halo rules (DESIGN.md "
    "C22 table; ambiguous cases take the weaker requirement); halo values are "
    "not computed; constructs the strict parser does not recognise are "
    "counted and skipped. Three known findings, each contradicting a quoted "
    "guide sentence.",
    "DESIGN.md §5 C22")

reg("C24",
    "compiled execution of generated algorithm + PSy layers on the LFRic "
    "infrastructure against my sequential interpretation of the invoke text; "
    "static monitor of generated call vs generated routine",
    "Generated algorithm programs (1-4 invokes of built-ins and four "
    "hand-written probe kernels; arguments repeated, case-varied, with extra "
    "blanks, array elements, derived-type components, literals, stencil "
    "extents, named/unnamed invokes; every field seeded from a distinct "
    "prime) go through the real generator (dm off/on); both generated "
    "layers must compile together and, after the run, every field must "
    "equal the exact-rational interpretation of the invoke text applied to "
    "the dumped initial data.",
    "Built-in/probe formulas are mine (exact). Owned DoFs only under dm. "
    "One program in nine carries a planted dangerous form; four known "
    "findings (three stencil-extent spellings, invoke label equal to a "
    "generated routine name).",
    "DESIGN.md §5 C24")

reg("C29",
    "cross-process interleaving controller: real psyclone CLI runs paused "
    "at intercepted os.open/os.write/os.close/open calls of psyGen, all "
    "interleavings enumerated, offline directory/PSy-layer checker",
    "Two real `psyclone -okern DIR --kernel-renaming multiple|single` "
    "processes (identical or different transformed kernels) are released "
    "step by step at {before create, after create, before write, after "
    "close, before read-back}; every interleaving is enumerated (a 20-line "
    "protocol model predicts the counts explored) and after each schedule "
    "the output directory, exit codes and PSy layers are checked against "
    "the property's rules; strace cross-checks that the proxies saw every "
    "file access. Thorough: 3 runs and 2 kernels (partly sampled).",
    "Interposition happens in the workers' import of psyclone.psyGen "
    "(sitecustomize on PYTHONPATH, active only with the guard variable); "
    "granularity = the intercepted calls, one run executing at a time. "
    "Known: 'single' read-back between create and write.",
    "DESIGN.md §5 C29")
