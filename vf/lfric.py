"""E6: LFRic execution harness.

Runs PSyclone-generated LFRic PSy layers on the stub LFRic infrastructure that
ships with the repository (src/psyclone/tests/test_files/dynamo0p3/
infrastructure), in one process that acts either as the only rank (1 of 1) or
as rank 0 of 2 (real owned / annexed / halo DoF structure, halo exchanges are
no-ops in the stub but dirty/clean flags are real).

Public functions
    build_infrastructure(scratch_dir, overlay=None, openmp=False) -> dict
    write_config(path, annexed, extra=None)                      -> path
    generate(alg_text, kernel_dir, dm, annexed, script=None, ...) -> (alg, psy)
    compile_and_run(scratch, sources, flags, env=None, ...)       -> dict
    algorithm_program(desc)                                       -> x90 text
    parse_dump(stdout)                                            -> dict
    omp_script(mode)                                              -> script text

The algorithm description `desc` (JSON-able dict):
    {"name": "prog",                  # program / file stem
     "ranks": 2 | 1,                  # rank 0 of 2 (halo depth `halo_depth`)
     "halo_depth": 2, "nlayers": 3, "element_order": 1,
     "fields":  [{"name": "f1", "space": "W0",
                  "type": "real"|"integer"|"r_solver"|"r_tran"|"r_bl"|"r_phys",
                  "init": "<Fortran INTEGER expression in df>",
                  "scale": k}],      # real fields: value = init * 2**(-k)
     "scalars": [{"name": "a", "type": "real"|"integer",
                  "value": "<Fortran literal/expression>"}],
     "kernels": [{"module": "testkern_mod", "type": "testkern_type"}],
     "steps":   [{"dump": "tag"},
                 {"invoke": ["x_plus_y(f3, f1, f2)", ...], "name": "inv_1"},
                 {"init": ["f1", ...]},          # re-run the initialisation
                 {"code": "verbatim Fortran"},   # e.g. set_dirty calls
                 ...]}
Nothing here depends on PSyclone internals: the only PSyclone entry point is
the `psyclone` command run in a subprocess.
"""
import configparser
import os
import re
import shutil
import struct
import subprocess
import sys
from fractions import Fraction

REPO = os.environ.get("VERIF_REPO", "/repo")
INFRA = os.path.join(REPO, "src", "psyclone", "tests", "test_files",
                     "dynamo0p3", "infrastructure")
PY = "/venv/bin/python"
BASE_CFG = os.path.join(REPO, "config", "psyclone.cfg")

FFLAGS = ["-O0", "-fcheck=all", "-ffree-line-length-none",
          "-fmax-errors=5"]

FIELD_TYPES = {
    # desc type -> (module, field type, proxy type, data kind, is_real)
    "real": ("field_mod", "field_type", "field_proxy_type", "r_def", True),
    "integer": ("integer_field_mod", "integer_field_type",
                "integer_field_proxy_type", "i_def", False),
    "r_solver": ("r_solver_field_mod", "r_solver_field_type",
                 "r_solver_field_proxy_type", "r_solver", True),
    "r_tran": ("r_tran_field_mod", "r_tran_field_type",
               "r_tran_field_proxy_type", "r_tran", True),
    "r_bl": ("r_bl_field_mod", "r_bl_field_type",
             "r_bl_field_proxy_type", "r_bl", True),
    "r_phys": ("r_phys_field_mod", "r_phys_field_type",
               "r_phys_field_proxy_type", "r_phys", True),
}
SPACES = ["W0", "W1", "W2", "W2V", "W2H", "W2broken", "W2trace", "W2Vtrace",
          "W2Htrace", "W3", "Wtheta", "Wchi"]


class HarnessError(Exception):
    """Something the harness (not PSyclone) could not do."""


# --------------------------------------------------------------- infrastructure
def build_infrastructure(scratch_dir, overlay=None, openmp=False, jobs=8,
                         timeout=900):
    """Copy the infrastructure sources of the *current* /repo tree into
    `scratch_dir`/infra_src, optionally apply `overlay` (a function
    (relative_path, text) -> text or None applied to every .f90/.F90 file of
    the copy), build liblfric.a out of tree in `scratch_dir`/infra_build and
    return {"inc": [...-I flags...], "lib": [...link flags...], "src": dir,
    "build": dir}.  Always rebuilds."""
    src = os.path.join(scratch_dir, "infra_src")
    bld = os.path.join(scratch_dir, "infra_build")
    for d in (src, bld):
        if os.path.isdir(d):
            shutil.rmtree(d)
    shutil.copytree(INFRA, src, ignore=shutil.ignore_patterns(
        "*.o", "*.mod", "*.a"))
    if overlay is not None:
        for root, _, files in os.walk(src):
            for fn in files:
                if not fn.lower().endswith(".f90"):
                    continue
                path = os.path.join(root, fn)
                with open(path, errors="replace") as fh:
                    text = fh.read()
                new = overlay(os.path.relpath(path, src), text)
                if new is not None and new != text:
                    with open(path, "w") as fh:
                        fh.write(new)
    os.makedirs(bld)
    f90flags = "-O0" + (" -fopenmp" if openmp else "")
    cmd = ["make", "-j%d" % jobs, "-f", os.path.join(src, "Makefile"),
           "standalone", "F90FLAGS=" + f90flags]
    try:
        p = subprocess.run(cmd, cwd=bld, capture_output=True, text=True,
                           timeout=timeout)
    except subprocess.TimeoutExpired:
        raise HarnessError("infrastructure build watchdog")
    lib = os.path.join(bld, "liblfric.a")
    if p.returncode != 0 or not os.path.exists(lib):
        raise HarnessError("infrastructure build failed: " + p.stderr[-800:])
    dirs = sorted(d for d in os.listdir(bld)
                  if os.path.isdir(os.path.join(bld, d)))
    inc = []
    for d in dirs:
        inc += ["-I", os.path.join(bld, d)]
    return {"inc": inc, "lib": ["-L", bld, "-llfric"], "src": src,
            "build": bld}


# ------------------------------------------------------------------ generation
def write_config(path, annexed, extra=None):
    """Write a copy of /repo/config/psyclone.cfg with COMPUTE_ANNEXED_DOFS set
    to `annexed`; `extra` = {section: {option: value}} further overrides."""
    cp = configparser.ConfigParser(interpolation=None)
    cp.optionxform = str
    cp.read(BASE_CFG)
    sect = "lfric" if cp.has_section("lfric") else "dynamo0.3"
    cp.set(sect, "COMPUTE_ANNEXED_DOFS", "true" if annexed else "false")
    for sec, opts in (extra or {}).items():
        for k, v in opts.items():
            if sec == "DEFAULT":
                cp["DEFAULT"][k] = v
            else:
                cp.set(sec, k, v)
    with open(path, "w") as fh:
        cp.write(fh)
    return path


def generate(alg_text, kernel_dir, dm, annexed, script=None, workdir=None,
             name="alg", cfg_extra=None, timeout=600, extra_args=None):
    """Run the real `psyclone` command on `alg_text` (an .x90 algorithm file)
    in a subprocess with a private config file.  `script` is the *text* of a
    transformation script (or None).  Returns (alg_out_text, psy_text).
    Raises HarnessError with PSyclone's stderr if generation fails."""
    import tempfile
    own = workdir is None
    wd = workdir or tempfile.mkdtemp(prefix="vf_lfric_gen_")
    try:
        os.makedirs(wd, exist_ok=True)
        cfg = write_config(os.path.join(wd, name + "_psyclone.cfg"), annexed,
                           cfg_extra)
        x90 = os.path.join(wd, name + ".x90")
        with open(x90, "w") as fh:
            fh.write(alg_text)
        oalg = os.path.join(wd, name + "_alg.f90")
        opsy = os.path.join(wd, name + "_psy.f90")
        cmd = [PY, "-m", "psyclone.generator"]
        exe = os.path.join(os.path.dirname(PY), "psyclone")
        if os.path.exists(exe):
            cmd = [PY, exe]
        cmd += ["-api", "lfric", "--config", cfg, "-dm" if dm else "-nodm",
                "-oalg", oalg, "-opsy", opsy]
        if kernel_dir:
            for d in ([kernel_dir] if isinstance(kernel_dir, str)
                      else kernel_dir):
                cmd += ["-d", d]
        if script:
            spath = os.path.join(wd, name + "_script.py")
            with open(spath, "w") as fh:
                fh.write(script)
            cmd += ["-s", spath]
        cmd += (extra_args or []) + [x90]
        env = dict(os.environ)
        env["PSYCLONE_CONFIG"] = cfg
        env["PYTHONDONTWRITEBYTECODE"] = "1"
        try:
            p = subprocess.run(cmd, cwd=wd, capture_output=True, text=True,
                               timeout=timeout, env=env)
        except subprocess.TimeoutExpired:
            raise HarnessError("psyclone watchdog")
        if p.returncode != 0 or not os.path.exists(opsy):
            raise HarnessError("psyclone failed (rc=%s): %s" % (
                p.returncode, (p.stderr or p.stdout)[-1500:]))
        with open(oalg) as fh:
            alg_out = fh.read()
        with open(opsy) as fh:
            psy = fh.read()
        return alg_out, psy
    finally:
        if own:
            shutil.rmtree(wd, ignore_errors=True)


def omp_script(mode):
    """Text of a transformation script.
    mode "parallel_do": DynamoOMPParallelLoopTrans on every loop;
    mode "do":          Dynamo0p3OMPLoopTrans on every loop, each inside its
                        own OMPParallelTrans region;
    mode "do_reprod":   as "do" with reprod=True (reproducible reductions);
    mode "do_nosched":  as "do" with omp_schedule="none" (no schedule clause);
    mode "do_dynamic":  as "do" with omp_schedule="dynamic";
    mode "do_region":   as "do" but ONE parallel region around all the loops
                        of an invoke when they are adjacent (falls back to
                        "do" per loop if the region is refused)."""
    if mode not in ("parallel_do", "do", "do_reprod", "do_region",
                    "do_nosched", "do_dynamic"):
        raise HarnessError("unknown omp mode " + mode)
    return '''
from psyclone.psyir.nodes import Loop
from psyclone.transformations import (DynamoOMPParallelLoopTrans,
                                      Dynamo0p3OMPLoopTrans, OMPParallelTrans)
MODE = %r


def trans(psy):
    for invoke in psy.invokes.invoke_list:
        sched = invoke.schedule
        loops = [l for l in sched.walk(Loop)
                 if l.ancestor(Loop) is None]
        if MODE == "parallel_do":
            for loop in loops:
                DynamoOMPParallelLoopTrans().apply(loop)
            continue
        reprod = MODE == "do_reprod"
        sched_kw = {"do_nosched": "none", "do_dynamic": "dynamic"}.get(MODE)
        for loop in loops:
            if sched_kw:
                Dynamo0p3OMPLoopTrans(omp_schedule=sched_kw).apply(
                    loop, {"reprod": reprod})
            else:
                Dynamo0p3OMPLoopTrans().apply(loop, {"reprod": reprod})
        dirs = [l.parent.parent for l in loops]
        if MODE == "do_region":
            par = dirs[0].parent
            pos = [d.position for d in dirs]
            if all(d.parent is par for d in dirs) and \\
                    pos == list(range(pos[0], pos[0] + len(pos))):
                try:
                    OMPParallelTrans().apply(dirs)
                    continue
                except Exception:
                    pass
        for d in dirs:
            OMPParallelTrans().apply(d)
    return psy
''' % mode


# ---------------------------------------------------------------- compile / run
def compile_and_run(scratch, sources, flags, env=None, exe="prog.exe",
                    timeout=300, run_timeout=120, fflags=None):
    """`sources`: list of (file name, text) in compilation order (kernels,
    PSy layer, algorithm layer).  `flags`: extra compiler+linker flags, e.g.
    infra["inc"] (+ ["-fopenmp"]); the library flags infra["lib"] must be
    passed as `flags` too and are moved after the sources automatically
    (anything from the first "-L" on).  Returns {"ok", "stage", "rc",
    "stdout", "stderr"}; stage is "compile" / "run" / "done"."""
    os.makedirs(scratch, exist_ok=True)
    names = []
    for name, text in sources:
        with open(os.path.join(scratch, name), "w") as fh:
            fh.write(text)
        names.append(name)
    flags = list(flags)
    link = []
    if "-L" in flags:
        k = flags.index("-L")
        flags, link = flags[:k], flags[k:]
    cmd = (["gfortran"] + (FFLAGS if fflags is None else list(fflags)) + flags
           + names + ["-o", exe] + link)
    try:
        p = subprocess.run(cmd, cwd=scratch, capture_output=True, text=True,
                           timeout=timeout)
    except subprocess.TimeoutExpired:
        return {"ok": None, "stage": "compile", "rc": None, "stdout": "",
                "stderr": "compile watchdog"}
    if p.returncode != 0:
        return {"ok": False, "stage": "compile", "rc": p.returncode,
                "stdout": p.stdout, "stderr": p.stderr}
    e = dict(os.environ)
    e.update(env or {})
    try:
        r = subprocess.run([os.path.join(scratch, exe)], cwd=scratch,
                           capture_output=True, text=True, timeout=run_timeout,
                           env=e, errors="replace")
    except subprocess.TimeoutExpired:
        return {"ok": None, "stage": "run", "rc": None, "stdout": "",
                "stderr": "run watchdog"}
    return {"ok": r.returncode == 0, "stage": "done" if r.returncode == 0
            else "run", "rc": r.returncode, "stdout": r.stdout,
            "stderr": r.stderr}


# ---------------------------------------------------------- algorithm generator
def _fs_var(space):
    return "fs_" + space.lower()


def _init_lines(f):
    mod, ftype, ptype, kind, is_real = FIELD_TYPES[f["type"]]
    expr = f.get("init", "df")
    n = f["name"]
    out = ["    %s_proxy = %s%%get_proxy()" % (n, n),
           "    do df = 1, size(%s_proxy%%data)" % n]
    if is_real:
        sc = int(f.get("scale", 0))
        rhs = "real(%s, %s)" % (expr, kind)
        if sc:
            rhs += " * 2.0_%s**(%d)" % (kind, -sc)
        out.append("      %s_proxy%%data(df) = %s" % (n, rhs))
    else:
        out.append("      %s_proxy%%data(df) = int(%s, %s)" % (n, expr, kind))
    out.append("    end do")
    return out


def algorithm_program(desc):
    """Return the text of an LFRic algorithm-layer *program* (.x90) for the
    description (see module docstring).  Output format, one record per line:
        MESH ranks <r> halo_depth <h> nlayers <n> ncells <last_edge> ...
        SPACE <W0> undf <n> owned <n> annexed <n> halo <n1> <n2> ...
        DUMP <tag> FIELD <name> <type> <space> <undf> DIRTY <d1> <d2> ...
        D <tag> <name> <df> <value>      integer: I0; real: 16 hex digits of
                                         the IEEE double
        DUMP <tag> SCALAR <name> <type> <value>
        END <tag>
    """
    name = desc.get("name", "prog")
    ranks = int(desc.get("ranks", 2))
    hd = int(desc.get("halo_depth", 2 if ranks == 2 else 0))
    nlayers = int(desc.get("nlayers", 3))
    order = int(desc.get("element_order", 1))
    fields = desc.get("fields", [])
    scalars = desc.get("scalars", [])
    kernels = desc.get("kernels", [])
    spaces = []
    for f in fields:
        if f["space"] not in SPACES:
            raise HarnessError("unknown function space " + f["space"])
        if f["type"] not in FIELD_TYPES:
            raise HarnessError("unknown field type " + f["type"])
        if f["space"] not in spaces:
            spaces.append(f["space"])
    ftypes = sorted({f["type"] for f in fields})
    L = ["program %s" % name,
         "    use global_mesh_base_mod, only: global_mesh_base_type",
         "    use mesh_mod,             only: mesh_type, PLANE",
         "    use partition_mod,        only: partition_type, "
         "partitioner_planar, partitioner_interface",
         "    use extrusion_mod,        only: uniform_extrusion_type",
         "    use function_space_mod,   only: function_space_type",
         "    use fs_continuity_mod,    only: " + ", ".join(SPACES),
         "    use constants_mod,        only: r_def, i_def, r_solver, r_tran,"
         " r_bl, r_phys",
         "    use, intrinsic :: iso_fortran_env, only: int64, real64"]
    for t in ftypes:
        mod, ftype, ptype, _, _ = FIELD_TYPES[t]
        L.append("    use %s, only: %s, %s" % (mod, ftype, ptype))
    for k in kernels:
        L.append("    use %s, only: %s" % (k["module"], k["type"]))
    L += ["    implicit none",
          "    type(global_mesh_base_type), target        :: global_mesh",
          "    class(global_mesh_base_type), pointer      :: global_mesh_ptr",
          "    type(partition_type)                       :: partition",
          "    type(mesh_type), target                    :: mesh",
          "    type(uniform_extrusion_type), target       :: extrusion",
          "    type(uniform_extrusion_type), pointer      :: extrusion_ptr",
          "    procedure (partitioner_interface), pointer :: partitioner_ptr",
          "    integer(kind=i_def) :: df, hdepth",
          "    integer(kind=i_def) :: element_order = %d" % order,
          "    integer(kind=i_def) :: ndata_sz = 1"]
    for s in spaces:
        L.append("    type(function_space_type), target  :: %s" % _fs_var(s))
        L.append("    type(function_space_type), pointer :: %s_ptr"
                 % _fs_var(s))
    for f in fields:
        mod, ftype, ptype, _, _ = FIELD_TYPES[f["type"]]
        L.append("    type(%s) :: %s" % (ftype, f["name"]))
        L.append("    type(%s) :: %s_proxy" % (ptype, f["name"]))
    for s in scalars:
        if s["type"] == "real":
            L.append("    real(kind=%s) :: %s" % (s.get("kind", "r_def"),
                                                  s["name"]))
        else:
            L.append("    integer(kind=i_def) :: %s" % s["name"])
    L += ["",
          "    global_mesh = global_mesh_base_type()",
          "    global_mesh_ptr => global_mesh",
          "    partitioner_ptr => partitioner_planar"]
    if ranks == 2:
        L.append("    partition = partition_type(global_mesh_ptr, "
                 "partitioner_ptr, 2, 1, %d, 0, 2)" % hd)
    else:
        L.append("    partition = partition_type(global_mesh_ptr, "
                 "partitioner_ptr, 1, 1, %d, 0, 1)" % hd)
    L += ["    extrusion = uniform_extrusion_type(0.0_r_def, 100.0_r_def, %d)"
          % nlayers,
          "    extrusion_ptr => extrusion",
          "    mesh = mesh_type(global_mesh_ptr, partition, extrusion_ptr)",
          "    write(*,'(A,8(1X,I0))') 'MESH', %d, %d, mesh%%get_nlayers(), "
          "mesh%%get_last_edge_cell()%s" % (
              ranks, hd, "".join(", mesh%%get_last_halo_cell(%d)" % d
                                 for d in range(1, hd + 1)))]
    for s in spaces:
        v = _fs_var(s)
        L += ["    %s = function_space_type(mesh, element_order, %s, ndata_sz)"
              % (v, s),
              "    %s_ptr => %s" % (v, v),
              "    write(*,'(A,1X,A,12(1X,I0))') 'SPACE', '%s', "
              "%s%%get_undf(), %s%%get_last_dof_owned(), "
              "%s%%get_last_dof_annexed()%s" % (
                  s, v, v, v, "".join(", %s%%get_last_dof_halo(%d)" % (v, d)
                                      for d in range(1, hd + 1)))]
    for f in fields:
        L.append("    call %s%%initialise(vector_space=%s_ptr, name='%s')" % (
            f["name"], _fs_var(f["space"]), f["name"]))
    for f in fields:
        L += _init_lines(f)
    for s in scalars:
        L.append("    %s = %s" % (s["name"], s["value"]))
    byname = {f["name"]: f for f in fields}
    ninv = 0
    for st in desc.get("steps", []):
        if "dump" in st:
            tag = st["dump"]
            only = st.get("fields")
            for f in fields:
                if only is not None and f["name"] not in only:
                    continue
                mod, ftype, ptype, kind, is_real = FIELD_TYPES[f["type"]]
                n = f["name"]
                L.append("    %s_proxy = %s%%get_proxy()" % (n, n))
                dirty = "".join(
                    ", merge(1, 0, %s_proxy%%is_dirty(depth=%d))" % (n, d)
                    for d in range(1, hd + 1))
                L.append("    write(*,'(A,1X,A,1X,A,1X,A,1X,A,1X,A,1X,I0,1X,A,"
                         "8(1X,I0))') 'DUMP', '%s', 'FIELD', '%s', '%s', '%s',"
                         " size(%s_proxy%%data), 'DIRTY'%s" % (
                             tag, n, f["type"], f["space"], n, dirty))
                L.append("    do df = 1, size(%s_proxy%%data)" % n)
                if is_real:
                    L.append("      write(*,'(A,1X,I0,1X,Z16.16)') 'D %s %s', "
                             "df, transfer(real(%s_proxy%%data(df), real64), "
                             "1_int64)" % (tag, n, n))
                else:
                    L.append("      write(*,'(A,1X,I0,1X,I0)') 'D %s %s', "
                             "df, %s_proxy%%data(df)" % (tag, n, n))
                L.append("    end do")
            for s in scalars:
                if s["type"] == "real":
                    L.append("    write(*,'(A,1X,Z16.16)') 'DUMP %s SCALAR %s "
                             "real', transfer(real(%s, real64), 1_int64)" % (
                                 tag, s["name"], s["name"]))
                else:
                    L.append("    write(*,'(A,1X,I0)') 'DUMP %s SCALAR %s "
                             "integer', %s" % (tag, s["name"], s["name"]))
            L.append("    write(*,'(A)') 'END %s'" % tag)
        elif "invoke" in st:
            ninv += 1
            calls = st["invoke"]
            nm = st.get("name", "inv_%d" % ninv)
            parts = ["name='%s'" % nm] + list(calls)
            L.append("    call invoke(" + ", &\n                ".join(parts)
                     + ")")
        elif "init" in st:
            for n in st["init"]:
                if n in byname:
                    L += _init_lines(byname[n])
                else:
                    for s in scalars:
                        if s["name"] == n:
                            L.append("    %s = %s" % (n, s["value"]))
        elif "code" in st:
            L += ["    " + ln for ln in st["code"].splitlines()]
        else:
            raise HarnessError("unknown step %r" % (st,))
    L.append("end program %s" % name)
    return "\n".join(L) + "\n"


# ------------------------------------------------------------------ dump parser
def hex_to_fraction(h):
    """16 hex digits of an IEEE double -> exact Fraction (None for inf/nan)."""
    v = struct.unpack(">d", bytes.fromhex(h))[0]
    if v != v or v in (float("inf"), float("-inf")):
        return None
    return Fraction(v)


def parse_dump(stdout):
    """Parse the output of a program made by algorithm_program().  Returns
    {"mesh": {...}, "spaces": {W0: {"undf", "owned", "annexed", "halo": [..]}},
     "dumps": {tag: {"fields": {name: {"type", "space", "dirty": [...],
                                       "data": [v1, v2, ...]}},
                     "scalars": {name: value}}},
     "complete": [tags whose END line was seen]}
    Real values are exact Fractions (None for inf/nan), integers are ints."""
    res = {"mesh": None, "spaces": {}, "dumps": {}, "complete": []}
    for line in stdout.splitlines():
        if line.startswith("D "):
            p = line.split()
            fld = res["dumps"][p[1]]["fields"][p[2]]
            if fld["type"] == "integer":
                fld["data"].append(int(p[4]))
            else:
                fld["data"].append(hex_to_fraction(p[4]))
            continue
        p = line.split()
        if not p:
            continue
        if p[0] == "MESH":
            v = [int(x) for x in p[1:]]
            res["mesh"] = {"ranks": v[0], "halo_depth": v[1], "nlayers": v[2],
                           "last_edge_cell": v[3], "last_halo_cell": v[4:]}
        elif p[0] == "SPACE":
            v = [int(x) for x in p[2:]]
            res["spaces"][p[1]] = {"undf": v[0], "owned": v[1],
                                   "annexed": v[2], "halo": v[3:]}
        elif p[0] == "DUMP" and p[2] == "FIELD":
            d = res["dumps"].setdefault(p[1], {"fields": {}, "scalars": {}})
            k = p.index("DIRTY")
            d["fields"][p[3]] = {"type": p[4], "space": p[5],
                                 "undf": int(p[6]),
                                 "dirty": [int(x) for x in p[k + 1:]],
                                 "data": []}
        elif p[0] == "DUMP" and p[2] == "SCALAR":
            d = res["dumps"].setdefault(p[1], {"fields": {}, "scalars": {}})
            d["scalars"][p[3]] = (int(p[5]) if p[4] == "integer"
                                  else hex_to_fraction(p[5]))
        elif p[0] == "END":
            res["dumps"].setdefault(p[1], {"fields": {}, "scalars": {}})
            res["complete"].append(p[1])
    return res


if __name__ == "__main__":      # tiny smoke test: python -m vf.lfric <scratch>
    import tempfile
    sc = sys.argv[1] if len(sys.argv) > 1 else tempfile.mkdtemp()
    infra = build_infrastructure(sc)
    d = {"name": "smoke", "ranks": 2,
         "fields": [{"name": "f1", "space": "W0", "type": "real",
                     "init": "mod(df, 7) - 3"},
                    {"name": "f2", "space": "W0", "type": "real",
                     "init": "mod(3*df, 5) + 1"},
                    {"name": "f3", "space": "W0", "type": "real",
                     "init": "99"}],
         "scalars": [{"name": "s", "type": "real", "value": "0.0_r_def"}],
         "steps": [{"dump": "init"},
                   {"invoke": ["x_plus_y(f3, f1, f2)", "sum_x(s, f1)"]},
                   {"dump": "final"}]}
    alg, psy = generate(algorithm_program(d), None, True, False)
    r = compile_and_run(os.path.join(sc, "run"),
                        [("psy.f90", psy), ("alg.f90", alg)],
                        infra["inc"] + infra["lib"])
    print(r["stage"], r["rc"], r["stderr"][-500:])
    out = parse_dump(r["stdout"])
    print(out["mesh"], out["spaces"], out["dumps"]["final"]["scalars"])
