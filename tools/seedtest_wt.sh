#!/bin/sh
# usage: tools/seedtest_wt.sh <patch.diff> <Cxx> [tier]
# Runs one check against a scratch worktree of /repo with the seeded change
# applied (equivalent to apply/run/undo in /repo, but can run in parallel).
patch="$1"; prop="$2"; tier="${3:-quick}"
tag="$(echo "$patch" | tr '/.' '__')_$$"
wt="/tmp/swt_$tag"; vc="/tmp/svf_$tag"
git -C /repo worktree add -q "$wt" HEAD || exit 2
( cd "$wt" && git apply "$patch" ) || { echo "patch does not apply"; git -C /repo worktree remove --force "$wt"; exit 2; }
mkdir -p "$vc" && rsync -a --exclude .git --exclude replays --exclude evidence /verif/ "$vc/"
( cd "$vc" && VERIF_REPO="$wt" PYTHONPATH="$wt/src" ./check "$prop" "$tier" > "$vc/out.log" 2>&1 ); rc=$?
echo "rc=$rc violations=$(grep -c '^VIOLATION' "$vc/out.log")"
grep "^VIOLATION" "$vc/out.log" | head -3 | cut -c1-420
tail -2 "$vc/out.log" | cut -c1-260
git -C /repo worktree remove --force "$wt"; rm -rf "$vc"
exit $rc
