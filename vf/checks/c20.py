"""C20 LFRic built-ins compute their documented operations.

Oracle: the formula line of every built-in in doc/user_guide/dynamo0p3.rst is
parsed (a tiny expression parser of my own) and evaluated exactly (integers /
Fractions) over the INITIAL data dumped by the running program.  The generated
PSy layer (real `psyclone` command, private config file for
COMPUTE_ANNEXED_DOFS, optional OpenMP transformation script) is compiled and
run on the repository's stub LFRic infrastructure, as the only rank or as rank
0 of 2 (owned != annexed != halo DoFs).  The ranges (owned / annexed / halo)
are printed by the running program from the function-space object, never
taken from PSyclone.
"""
import os
import re
import shutil
import tempfile
from fractions import Fraction

from vf import lfric
from vf.core import Part

PROPERTY = "C20"
LEVEL = "exploration"

GUIDE = os.path.join(lfric.REPO, "doc", "user_guide", "dynamo0p3.rst")
BUILTINS_MOD = os.path.join(lfric.REPO, "src", "psyclone", "parse",
                            "lfric_builtins_mod.f90")
SELFTEST = os.environ.get("VF_C20_SELFTEST", "")

# formulas that the guide gives as prose / pseudo-code, not as an assignment
HAND = {"setval_random": "random01"}

CONT_SPACES = ["W0", "W1", "W2", "W2H", "W2trace", "W2Htrace"]
DISC_SPACES = ["W3", "Wtheta", "W2V", "W2broken", "W2Vtrace", "Wchi"]


# ============================================================== guide parser
def _tokens(text):
    text = text.replace("(:)", "")
    pos = 0
    out = []
    pat = re.compile(r"\s*(\*\*|[-+*/(),=]|[A-Za-z_][A-Za-z0-9_<>]*|"
                     r"\d+\.\d*(?:_\w+)?|\d+(?:_\w+)?)")
    while pos < len(text):
        if text[pos:].strip() == "":
            break
        m = pat.match(text, pos)
        if not m:
            raise ValueError("cannot tokenise %r at %d" % (text, pos))
        out.append(m.group(1))
        pos = m.end()
    return out


class _P:
    """expr := term (('+'|'-') term)* ; term := factor (('*'|'/') factor)* ;
    factor := ['-'|'+'] power ; power := atom ['**' factor] ;
    atom := name | name '(' args ')' | number | '(' expr ')'"""

    def __init__(self, toks):
        self.t = toks
        self.i = 0

    def peek(self):
        return self.t[self.i] if self.i < len(self.t) else None

    def eat(self, tok=None):
        cur = self.peek()
        if cur is None or (tok is not None and cur != tok):
            raise ValueError("expected %r got %r" % (tok, cur))
        self.i += 1
        return cur

    def expr(self):
        e = self.term()
        while self.peek() in ("+", "-"):
            op = self.eat()
            e = ("bin", op, e, self.term())
        return e

    def term(self):
        e = self.factor()
        while self.peek() in ("*", "/"):
            op = self.eat()
            e = ("bin", op, e, self.factor())
        return e

    def factor(self):
        if self.peek() == "-":
            self.eat()
            return ("neg", self.factor())
        if self.peek() == "+":
            self.eat()
            return self.factor()
        return self.power()

    def power(self):
        a = self.atom()
        if self.peek() == "**":
            self.eat()
            return ("bin", "**", a, self.factor())
        return a

    def atom(self):
        tok = self.eat()
        if tok == "(":
            e = self.expr()
            self.eat(")")
            return e
        if re.match(r"\d", tok):
            return ("num", str(Fraction(tok.split("_")[0])))
        if not re.match(r"[A-Za-z_]", tok):
            raise ValueError("unexpected token %r" % tok)
        if self.peek() == "(":
            self.eat("(")
            args = []
            while True:
                # keyword argument (kind=...) is skipped
                if (self.i + 1 < len(self.t) and self.t[self.i + 1] == "="):
                    self.eat()
                    self.eat("=")
                    self.eat()
                else:
                    args.append(self.expr())
                if self.peek() == ",":
                    self.eat()
                    continue
                break
            self.eat(")")
            return ("call", tok.upper(), args)
        return ("var", tok.lower())


def parse_formula(text):
    """'lhs = rhs' -> (lhs name, rhs AST)."""
    toks = _tokens(text)
    if len(toks) < 3 or toks[1] != "=":
        raise ValueError("not an assignment: %r" % text)
    p = _P(toks[2:])
    e = p.expr()
    if p.peek() is not None:
        raise ValueError("trailing tokens in %r" % text)
    return toks[0].lower(), e


def _arg_kind(name, written_is_int):
    n = name.lower()
    if n.startswith("ifield"):
        return "field", "integer"
    if n.startswith("field"):
        return "field", "real"
    if n.startswith("iscalar"):
        return "scalar", "integer"
    if n.startswith("rscalar") or n in ("innprod", "sumfld"):
        return "scalar", "real"
    if n == "constant":
        return "scalar", "integer" if written_is_int else "real"
    return None, None


def load_guide():
    """Parse the built-ins section.  Returns (specs, problems).  A spec is
    {"name", "args": [{"name","written","kind","dtype"}], "formula": text,
     "lhs", "ast" | "hand"}."""
    with open(GUIDE, errors="replace") as fh:
        lines = fh.read().splitlines()
    start = next(i for i, l in enumerate(lines)
                 if l.strip() == ".. _lfric-built-ins-real:")
    end = next(i for i in range(start, len(lines))
               if lines[i].strip() == "Boundary Conditions")
    heads = [i for i in range(start, end - 1)
             if lines[i + 1].startswith("^^^") and lines[i].strip()
             and len(lines[i + 1].strip()) >= len(lines[i].strip())]
    specs, problems = [], []
    for k, h in enumerate(heads):
        name = lines[h].strip()
        stop = heads[k + 1] if k + 1 < len(heads) else end
        body = lines[h + 2:stop]
        sig = None
        for ln in body:
            m = re.match(r"^\*\*(\w+)\*\*\s*\((.*)\)\s*$", ln.strip())
            if m:
                sig = m
                break
        if not sig or sig.group(1).lower() != name.lower():
            problems.append("%s: no documented signature" % name)
            continue
        raw = [a.strip() for a in sig.group(2).split(",")]
        written_is_int = any(a.startswith("**") and
                             a.strip("*").lower().startswith("ifield")
                             for a in raw)
        args = []
        ok = True
        for a in raw:
            an = a.strip("*")
            kind, dtype = _arg_kind(an, written_is_int)
            if kind is None:
                problems.append("%s: argument %r not understood" % (name, an))
                ok = False
            args.append({"name": an.lower(), "written": a.startswith("**"),
                         "kind": kind, "dtype": dtype})
        if not ok:
            continue
        # first literal block after the signature
        block = []
        it = iter(range(len(body)))
        for j in it:
            if body[j].rstrip().endswith("::"):
                j2 = j + 1
                while j2 < len(body) and not body[j2].strip():
                    j2 += 1
                while j2 < len(body) and (body[j2].startswith("  ")
                                          and body[j2].strip()):
                    block.append(body[j2].strip())
                    j2 += 1
                break
        spec = {"name": name, "args": args, "formula": " ".join(block)}
        if name in HAND:
            spec["hand"] = HAND[name]
            spec["lhs"] = [a["name"] for a in args if a["written"]][0]
        else:
            try:
                if len(block) != 1:
                    raise ValueError("formula block has %d lines" % len(block))
                spec["lhs"], spec["ast"] = parse_formula(block[0])
            except ValueError as err:
                problems.append("%s: formula not parsed (%s)" % (name, err))
                continue
            names = {a["name"] for a in args}
            used = _vars(spec["ast"]) | {spec["lhs"]}
            wr = [a["name"] for a in args if a["written"]]
            if not used <= names or wr != [spec["lhs"]]:
                problems.append("%s: formula %r does not match signature %r"
                                % (name, block[0], sorted(names)))
                continue
        specs.append(spec)
    return specs, problems


def api_builtin_names():
    """Names of all built-ins of the LFRic API from the metadata module the
    parser reads (lfric_builtins_mod.f90)."""
    with open(BUILTINS_MOD, errors="replace") as fh:
        return re.findall(r"extends\(kernel_type\)\s*::\s*(\w+)", fh.read())


def _vars(e):
    if e[0] == "var":
        return {e[1]}
    if e[0] == "num":
        return set()
    if e[0] == "neg":
        return _vars(e[1])
    if e[0] == "bin":
        return _vars(e[2]) | _vars(e[3])
    if e[0] == "call":
        out = set()
        for a in e[2]:
            out |= _vars(a)
        return out
    raise ValueError(e)


def roles(ast, argtypes):
    """name -> set of roles {'divisor','exponent','base_realexp','base_intexp',
    'intarg'} derived from where the name appears in the documented formula."""
    out = {}

    def mark(e, role):
        for v in _vars(e):
            out.setdefault(v, set()).add(role)

    def walk(e):
        if e[0] == "bin":
            if e[1] == "/":
                mark(e[3], "divisor")
            if e[1] == "**":
                mark(e[3], "exponent")
                real_exp = any(argtypes.get(v) == ("scalar", "real")
                               for v in _vars(e[3]))
                mark(e[2], "base_realexp" if real_exp else "base_intexp")
            walk(e[2])
            walk(e[3])
        elif e[0] == "neg":
            walk(e[1])
        elif e[0] == "call":
            if e[1] == "INT":
                mark(e[2][0], "intarg")
            for a in e[2]:
                walk(a)
    walk(ast)
    return out


# ============================================================ exact evaluator
class Inexact(Exception):
    """The data took an operation outside the exactly representable domain
    (harness problem, never a verdict)."""


def _chk(v):
    if isinstance(v, int):
        if not -2 ** 31 < v < 2 ** 31:
            raise Inexact("integer overflow")
        return v
    if v.denominator & (v.denominator - 1) or \
            abs(v.numerator) >= 2 ** 53 or v.denominator > 2 ** 60:
        raise Inexact("not a double: %s" % v)
    return v


def ev(e, env):
    """Fortran semantics on exact values: int = INTEGER, Fraction = REAL."""
    k = e[0]
    if k == "var":
        return env[e[1]]
    if k == "num":
        return Fraction(e[1])
    if k == "neg":
        return _chk(-ev(e[1], env))
    if k == "bin":
        a, b = ev(e[2], env), ev(e[3], env)
        op = e[1]
        if op == "+":
            return _chk(a + b)
        if op == "-":
            return _chk(a - b)
        if op == "*":
            return _chk(a * b)
        if op == "/":
            if b == 0:
                raise Inexact("division by zero")
            if isinstance(a, int) and isinstance(b, int):
                q = abs(a) // abs(b)
                return q if (a >= 0) == (b >= 0) else -q
            return _chk(Fraction(a) / Fraction(b))
        if op == "**":
            if isinstance(b, int):
                if b < 0 and a == 0:
                    raise Inexact("0**negative")
                if isinstance(a, int) and b < 0:
                    raise Inexact("integer**negative")
                return _chk(a ** b if isinstance(a, int)
                            else Fraction(a) ** b)
            if b.denominator == 1:
                if a <= 0:
                    raise Inexact("non-positive base, real exponent")
                return _chk(Fraction(a) ** int(b))
            if b == Fraction(1, 2) and a > 0:
                a = Fraction(a)
                rn, rd = _isqrt(a.numerator), _isqrt(a.denominator)
                if rn is None or rd is None:
                    raise Inexact("sqrt not exact")
                return _chk(Fraction(rn, rd))
            raise Inexact("real exponent %s" % b)
        raise ValueError(op)
    if k == "call":
        args = [ev(a, env) for a in e[2]]
        f = e[1]
        if f == "SIGN":
            a, b = args
            return abs(a) if b >= 0 else -abs(a)
        if f == "MAX":
            return max(args)
        if f == "MIN":
            return min(args)
        if f == "INT":
            a = args[0]
            if isinstance(a, int):
                return a
            q = abs(a.numerator) // a.denominator
            return _chk(int(q if a >= 0 else -q))
        if f == "REAL":
            return _chk(Fraction(args[0]))
        raise ValueError("function %s not in the evaluator" % f)
    raise ValueError(e)


def _isqrt(n):
    import math
    r = math.isqrt(n)
    return r if r * r == n else None


# ============================================================ case generation
def _lit(v, dtype, kind="r_def"):
    if dtype == "integer":
        return "%d_i_def" % v if v >= 0 else "(%d_i_def)" % v
    f = Fraction(v)
    txt = repr(float(f))
    if "e" in txt or "E" in txt:
        raise ValueError(txt)
    return "%s_%s" % (txt, kind)


def make_case(spec, rnd, idx, alias, space, realtype, literal_scalars):
    """Build one invocation of the built-in `spec`: private fields/scalars
    (prefix c<idx>_), the call text and the binding formal -> actual."""
    pre = "c%d_" % idx
    argtypes = {a["name"]: (a["kind"], a["dtype"]) for a in spec["args"]}
    rl = roles(spec["ast"], argtypes) if "ast" in spec else {}
    fargs = [a for a in spec["args"] if a["kind"] == "field"]
    # ---- aliasing: formal -> representative formal
    rep = {a["name"]: a["name"] for a in fargs}
    groups = {}
    for a in fargs:
        groups.setdefault(a["dtype"], []).append(a["name"])
    alias_desc = "none"
    if alias != "none":
        cand = [g for g in groups.values() if len(g) >= 2]
        if cand:
            g = cand[0]
            written = [a["name"] for a in fargs if a["written"]]
            if alias == "all":
                for n in g:
                    rep[n] = g[0]
                alias_desc = "all:" + "=".join(g)
            elif alias == "pair":
                # written (or first) field aliased with the LAST read field
                a0 = written[0] if written and written[0] in g else g[0]
                others = [n for n in g if n != a0]
                rep[others[-1]] = a0
                alias_desc = "pair:%s=%s" % (a0, others[-1])
            elif alias == "reads":
                reads = [n for n in g if n not in written]
                if len(reads) >= 2:
                    for n in reads:
                        rep[n] = reads[0]
                    alias_desc = "reads:" + "=".join(reads)
    # ---- roles merged over alias classes
    frole = {}
    for a in fargs:
        frole.setdefault(rep[a["name"]], set()).update(
            rl.get(a["name"], set()))
    read_names = _vars(spec["ast"]) if "ast" in spec else set()
    fields, bind = [], {}
    for a in fargs:
        r = rep[a["name"]]
        bind[a["name"]] = pre + r
        if r != a["name"]:
            continue
        is_read = any(rep[b["name"]] == r and b["name"] in read_names
                      for b in fargs)
        ro = frole.get(r, set())
        ftype = "integer" if a["dtype"] == "integer" else realtype
        p = rnd.choice([1, 3, 5, 9])
        q = rnd.randrange(0, 11)
        scale = 0
        if not is_read:
            init = "1000 + mod(%d*df + %d, 13)" % (p, q)
        elif "base_realexp" in ro:
            init = "(mod(%d*df + %d, 5) + 1)**2" % (p, q)
            if "divisor" in ro or "base_intexp" in ro:
                init = "4**mod(%d*df + %d, 3)" % (p, q)
        elif "divisor" in ro or "base_intexp" in ro:
            init = "(1 - 2*mod(df/%d, 2)) * 2**mod(%d*df + %d, 4)" % (
                rnd.choice([1, 2, 3]), p, q)
            if a["dtype"] == "real":
                scale = rnd.choice([0, 1, 2])
        else:
            m = rnd.choice([7, 11, 13])
            init = "mod(%d*df + %d, %d) - %d" % (p, q, m, rnd.randrange(0, m))
            if a["dtype"] == "real":
                scale = 1 if "intarg" in ro else rnd.choice([0, 0, 1, 2])
        fields.append({"name": pre + r, "space": space, "type": ftype,
                       "init": init, "scale": scale})
    scalars, values = [], {}
    for a in spec["args"]:
        if a["kind"] != "scalar":
            continue
        n = a["name"]
        ro = rl.get(n, set())
        if a["written"]:
            val = Fraction(77)
        elif a["dtype"] == "integer":
            if "exponent" in ro:
                val = rnd.choice([-2, -1, 0, 1, 2, 3])
            else:
                val = rnd.choice([-4, -3, -2, -1, 1, 2, 3, 5, 0])
        else:
            if "exponent" in ro:
                val = rnd.choice([Fraction(2), Fraction(3), Fraction(1, 2)])
            elif "divisor" in ro:
                val = rnd.choice([-1, 1]) * rnd.choice(
                    [Fraction(1, 2), Fraction(2), Fraction(4), Fraction(1, 4)])
            else:
                val = Fraction(rnd.choice([-6, -5, -3, -2, -1, 1, 3, 4, 5, 7,
                                           0]), rnd.choice([1, 1, 2, 4]))
        values[n] = val
        kind = realtype if realtype != "real" else "r_def"
        if a["written"]:
            kind = "r_def"
        if literal_scalars and not a["written"] and val >= 0:
            bind[n] = _lit(val, a["dtype"], kind)
        else:
            bind[n] = pre + n
            scalars.append({"name": pre + n, "type": a["dtype"], "kind": kind,
                            "value": _lit(val, a["dtype"], kind)})
    call = "%s(%s)" % (spec["name"],
                       ", ".join(bind[a["name"]] for a in spec["args"]))
    return {"bi": spec["name"], "idx": idx, "alias": alias_desc,
            "space": space, "realtype": realtype, "fields": fields,
            "scalars": scalars, "bind": bind, "call": call,
            "values": {k: str(v) for k, v in values.items()},
            "literal": bool(literal_scalars)}


def cfg_name(cfg):
    return "dm%d_r%d_ann%d_%s" % (cfg["dm"], cfg["ranks"], cfg["annexed"],
                                  cfg["omp"] or "serial")


# ================================================================== mutations
def selftest_mutate(psy):
    """VF_C20_SELFTEST: break the generated text (a scratch copy, never the
    repository) to show that the oracle fires."""
    n = 0
    if "swap" in SELFTEST or SELFTEST == "1":
        def sw(m):
            return "%s = %s %s %s" % (m.group(1), m.group(4), m.group(3),
                                      m.group(2))
        psy, k = re.subn(r"(\w+_data\(df\)) = (\w+_data\(df\)) (-|/) "
                         r"(\w+_data\(df\))$", sw, psy, flags=re.M)
        n += k
    if "bound" in SELFTEST or SELFTEST == "1":
        # reductions: owned -> annexed
        out = []
        for sub in re.split(r"(?=^\s*SUBROUTINE )", psy, flags=re.M):
            if "global_sum" in sub or "intent(out)" in sub:
                sub, k = re.subn(r"get_last_dof_owned\(\)",
                                 "get_last_dof_annexed()", sub)
                n += k
            out.append(sub)
        psy = "".join(out)
    return psy, n


# ===================================================================== worker
def _classify_reduction(obs, per_dof, sp):
    """Which DoF range would explain the observed reduction value?"""
    for nm, last in [("owned", sp["owned"]), ("annexed", sp["annexed"])] + \
            [("halo%d" % (d + 1), h) for d, h in enumerate(sp["halo"])] + \
            [("undf", sp["undf"])]:
        if sum(per_dof[:last], Fraction(0)) == obs:
            return nm
    return None


def evaluate_case(part, case, spec, cfg, out, psy_text):
    """Compare the final dump with the documented formula applied to the
    initial dump."""
    init, final = out["dumps"]["init"], out["dumps"]["final"]
    sp = out["spaces"][case["space"]]
    undf = sp["undf"]
    cname = cfg_name(cfg)
    # documented range
    if cfg["dm"]:
        need = sp["annexed"] if cfg["annexed"] else sp["owned"]
        red_last = sp["owned"]
    else:
        need = undf
        red_last = undf
    bind = case["bind"]
    argd = {a["name"]: a for a in spec["args"]}

    def val_at(name, df, dump):
        a = argd[name]
        act = bind[name]
        if a["kind"] == "field":
            return dump["fields"][act]["data"][df]
        if act in dump["scalars"]:
            return dump["scalars"][act]
        v = Fraction(case["values"][name])
        return int(v) if a["dtype"] == "integer" else v

    wit = {"builtin": case["bi"], "call": case["call"], "config": cname,
           "alias": case["alias"], "space": case["space"],
           "formula": spec["formula"], "ranges": sp,
           "fields": case["fields"], "scalars": case["scalars"]}
    lhs = spec["lhs"]
    written = argd[lhs]
    ncmp = 0
    # ---- scalars read by the built-in must agree with what I meant to pass
    for a in spec["args"]:
        if a["kind"] == "scalar" and not a["written"] and \
                bind[a["name"]] in init["scalars"]:
            got = init["scalars"][bind[a["name"]]]
            want = Fraction(case["values"][a["name"]])
            if Fraction(got) != want:
                part.inconclusive("scalar initialisation differs from "
                                  "intended value (harness)")
                return
    if spec.get("hand") == "random01":
        act = bind[lhs]
        fin = final["fields"][act]["data"]
        bad = [(df + 1, fin[df]) for df in range(need)
               if fin[df] is None or not 0 <= fin[df] < 1]
        ncmp = need
        part.count("dofs_compared", ncmp)
        if bad:
            part.violation(dict(wit, kind="random_out_of_range",
                                mechanism="setval_random:outside_[0,1)",
                                what="%s under %s: DoF %d = %s is not in "
                                "[0,1)" % (case["call"], cname, bad[0][0],
                                           bad[0][1]),
                                dedupe=[case["bi"], "random", cname]))
        part.case(key=[case["bi"], cname, case["alias"]], nontrivial=ncmp > 0)
        part.count("cases:" + cname)
        if ncmp > 0:
            part.count("covered:" + case["bi"])
        return
    ast = spec["ast"]
    reduction = written["kind"] == "scalar"
    inner = ast
    if reduction:
        if not (ast[0] == "call" and ast[1] in ("SUM",) and len(ast[2]) == 1):
            part.inconclusive("reduction formula of %s is not SUM(...)"
                              % case["bi"])
            return
        inner = ast[2][0]
    names = sorted(_vars(inner))
    exp = []
    try:
        for df in range(undf):
            env = {n: val_at(n, df, init) for n in names}
            exp.append(ev(inner, env))
    except Inexact as err:
        part.count("inexact_domain_skipped")
        part.inconclusive("data left the exact domain for %s: %s (harness)"
                          % (case["bi"], err))
        return
    if reduction:
        act = bind[lhs]
        obs = final["scalars"][act]
        want = sum(exp[:red_last], Fraction(0))
        try:
            _chk(want)
        except Inexact:
            part.inconclusive("reduction sum not exact (harness)")
            return
        part.count("reductions_compared")
        part.count("dofs_compared", red_last)
        ncmp = red_last
        if obs != want:
            why = _classify_reduction(obs, [Fraction(x) for x in exp], sp) \
                if obs is not None else None
            mech = "reduction_over_%s_instead_of_owned" % why if why else \
                "reduction_value_differs"
            part.violation(dict(
                wit, kind="reduction_differs", mechanism="%s:%s" % (
                    "reduction", mech),
                what="%s under %s: %s = %s but documented %s over the %d "
                     "owned DoFs gives %s%s" % (
                         case["call"], cname, lhs, obs, spec["formula"],
                         red_last, want,
                         " (value equals the sum over 1..%s)" % why
                         if why else ""),
                observed=str(obs), expected=str(want),
                dedupe=[case["bi"], "reduction", mech, cfg["dm"],
                        cfg["annexed"], cfg["omp"]],
                psy=_extract_invoke(psy_text, case)))
    else:
        act = bind[lhs]
        fin = final["fields"][act]["data"]
        ini = init["fields"][act]["data"]
        bad = None
        nbad = 0
        for df in range(need):
            if fin[df] != exp[df]:
                nbad += 1
                if bad is None:
                    bad = df
        ncmp = need
        part.count("dofs_compared", need)
        out_unt = out_formula = out_other = 0
        for df in range(need, undf):
            if fin[df] == exp[df]:
                out_formula += 1
            elif fin[df] == ini[df]:
                out_unt += 1
            else:
                out_other += 1
        part.count("outside_range_untouched", out_unt)
        part.count("outside_range_equal_formula", out_formula)
        part.count("outside_range_other_value", out_other)
        if bad is not None:
            if bad < sp["owned"]:
                zone = "owned"
            elif bad < sp["annexed"]:
                zone = "annexed"
            else:
                zone = "halo"
            untouched = fin[bad] == ini[bad]
            mech = "%s_dof_%s" % (zone, "not_computed" if untouched
                                  else "wrong_value")
            part.violation(dict(
                wit, kind="dof_differs", mechanism="field:" + mech,
                what="%s under %s: %s(%d) = %s but documented '%s' gives %s "
                     "from initial data %s (%d of %d DoFs in the documented "
                     "range 1..%d differ; first is %s)" % (
                         case["call"], cname, lhs, bad + 1, fin[bad],
                         spec["formula"], exp[bad],
                         {n: str(val_at(n, bad, init)) for n in names},
                         nbad, need, need, zone),
                observed=str(fin[bad]), expected=str(exp[bad]), dof=bad + 1,
                dedupe=[case["bi"], "field", mech, cfg["dm"], cfg["annexed"],
                        cfg["omp"]],
                psy=_extract_invoke(psy_text, case)))
    # ---- arguments the guide marks as read-only (counted, not judged)
    for a in spec["args"]:
        if a["written"] or a["kind"] != "field":
            continue
        act = bind[a["name"]]
        if act == bind.get(lhs):
            continue
        if final["fields"][act]["data"] != init["fields"][act]["data"]:
            part.count("readonly_field_args_changed")
    part.case(key=[case["bi"], cname, case["alias"]], nontrivial=ncmp > 0,
              sample={"call": case["call"], "config": cname,
                      "formula": spec["formula"], "dofs_compared": ncmp,
                      "ranges": sp} if case["idx"] == 0 else None)
    part.count("cases:" + cname)
    part.count("alias:" + case["alias"].split(":")[0])
    if ncmp > 0:
        part.count("covered:" + case["bi"])


def _extract_invoke(psy, case):
    m = re.search(r"SUBROUTINE invoke_inv_%d\b.*?END SUBROUTINE invoke_inv_%d"
                  % (case["idx"], case["idx"]), psy, flags=re.S | re.I)
    txt = m.group(0) if m else ""
    body = [l for l in txt.splitlines()
            if re.search(r"loop\d+_st|DO |!\$omp|_data\(df\)|global_sum|"
                         r"l_\w+\(", l)]
    return "\n".join(body[:60])


def reduction_clause_monitor(psy_text):
    """Generated-code monitor: a work-shared loop (!$omp do / parallel do)
    whose body accumulates into a plain scalar (x = x + ...) must name that
    scalar in a reduction clause (the reproducible variant accumulates into
    an array element l_x(1,th_idx) instead and needs none).  Returns a list
    of (scalar, directive text)."""
    lines = psy_text.splitlines()
    bad = []
    k = 0
    while k < len(lines):
        s = lines[k].strip().lower()
        if s.startswith("!$omp do") or s.startswith("!$omp parallel do"):
            direc = s
            j = k + 1
            while j < len(lines) and lines[j].strip().lower().startswith(
                    "!$omp&"):
                direc += " " + lines[j].strip().lower()[6:]
                j += 1
            depth = 0
            while j < len(lines):
                t = lines[j].strip().lower()
                if re.match(r"^do\b", t):
                    depth += 1
                elif t.startswith("end do") or t.startswith("enddo"):
                    depth -= 1
                    if depth == 0:
                        break
                m = re.match(r"^([a-z_]\w*)\s*=\s*\1\s*[+]", t)
                if m and depth > 0:
                    name = m.group(1)
                    if not re.search(r"reduction\(\s*\+\s*:[^)]*\b%s\b"
                                     % re.escape(name), direc):
                        bad.append((name, direc))
                j += 1
            k = j
        k += 1
    return bad


def run_program(part, job, cases, specs, depth=0):
    """Generate, compile, run one program for `cases` under job['cfg']."""
    cfg = job["cfg"]
    cname = cfg_name(cfg)
    wd = tempfile.mkdtemp(prefix="vf_c20_")
    try:
        desc = {"name": "c20prog", "ranks": cfg["ranks"],
                "nlayers": job.get("nlayers", 3), "fields": [], "scalars": [],
                "steps": [{"dump": "init"}]}
        for c in cases:
            desc["fields"] += c["fields"]
            desc["scalars"] += c["scalars"]
        if job.get("grouped"):
            desc["steps"].append({"invoke": [c["call"] for c in cases],
                                  "name": "inv_%d" % cases[0]["idx"]})
        else:
            for c in cases:
                desc["steps"].append({"invoke": [c["call"]],
                                      "name": "inv_%d" % c["idx"]})
        desc["steps"].append({"dump": "final"})
        x90 = lfric.algorithm_program(desc)
        script = lfric.omp_script(cfg["omp"]) if cfg["omp"] else None
        try:
            alg, psy = lfric.generate(x90, None, bool(cfg["dm"]),
                                      bool(cfg["annexed"]), script=script,
                                      workdir=os.path.join(wd, "gen"))
            part.count("psyclone_runs")
        except lfric.HarnessError as err:
            part.count("psyclone_refused_or_failed")
            if len(cases) > 1:
                for c in cases:
                    run_program(part, job, [c], specs, depth + 1)
                return
            msg = str(err)
            last = [l for l in msg.strip().splitlines() if l.strip()][-1:]
            # a refusal is not a generated PSy layer: counted, not judged
            short = re.sub(r"'[^']*'", "'*'", " ".join(" ".join(last).split()))
            part.count("refused[alias=%s,omp=%s]: %s" % (
                cases[0]["alias"].split(":")[0], cfg["omp"], short[:150]))
            part.count("generation_refused_single_case")
            if cases[0]["alias"] == "none":
                part.count("refused_plain_call:" + cases[0]["bi"])
            return
        if cfg["omp"]:
            part.count("reduction_clause_monitor_evaluations")
            for name, direc in reduction_clause_monitor(psy):
                part.violation({
                    "kind": "reduction_without_clause", "mechanism": None,
                    "what": "[%s] the work-shared loop under '%s' "
                            "accumulates into the shared scalar '%s' without "
                            "a reduction clause (%s)" % (
                                cname, direc[:120], name,
                                ",".join(c["bi"] for c in cases)),
                    "psy": psy, "dedupe": ["redclause", cfg["omp"]]})
        if SELFTEST:
            psy, nmut = selftest_mutate(psy)
            part.count("selftest_mutations", nmut)
        flags = list(job["inc"]) + (["-fopenmp"] if cfg["omp"] else []) + \
            list(job["lib"])
        res = lfric.compile_and_run(
            os.path.join(wd, "run"), [("psy.f90", psy), ("alg.f90", alg)],
            flags, env={"OMP_NUM_THREADS": str(job.get("threads", 4))})
        if res["ok"] is None:
            part.inconclusive("watchdog during %s of a generated program"
                              % res["stage"])
            return
        if res["stage"] == "compile":
            part.count("compile_failures")
            if len(cases) > 1:
                for c in cases:
                    run_program(part, job, [c], specs, depth + 1)
                return
            part.violation({
                "kind": "generated_code_does_not_compile", "mechanism": None,
                "what": "gfortran rejects the code generated for %s under %s: "
                        "%s" % (cases[0]["call"], cname,
                                " ".join(res["stderr"].split())[:400]),
                "psy": psy, "alg": alg, "stderr": res["stderr"][-2000:],
                "dedupe": [cases[0]["bi"], "compile", cfg["omp"]]})
            return
        part.count("programs_compiled")
        if not res["ok"]:
            part.count("run_failures")
            if len(cases) > 1:
                for c in cases:
                    run_program(part, job, [c], specs, depth + 1)
                return
            part.violation({
                "kind": "generated_program_fails_at_run_time",
                "mechanism": None,
                "what": "program for %s under %s ends with rc=%s: %s" % (
                    cases[0]["call"], cname, res["rc"],
                    " ".join(res["stderr"].split())[:400]),
                "psy": psy, "alg": alg, "stderr": res["stderr"][-2000:],
                "dedupe": [cases[0]["bi"], "run", cfg["omp"]]})
            return
        part.count("programs_run")
        out = lfric.parse_dump(res["stdout"])
        if "init" not in out["complete"] or "final" not in out["complete"]:
            part.inconclusive("program output incomplete (harness)")
            return
        for c in cases:
            evaluate_case(part, c, specs[c["bi"]], cfg, out, psy)
    finally:
        shutil.rmtree(wd, ignore_errors=True)


def batch(job):
    import random
    part = Part()
    specs, _ = load_guide()
    specs = {s["name"]: s for s in specs}
    rnd = random.Random(job["seed"])
    cases = []
    for k, it in enumerate(job["items"]):
        spec = specs[it["bi"]]
        cases.append(make_case(spec, rnd, job["base_idx"] + k, it["alias"],
                               it["space"], it["realtype"], it["literal"]))
    run_program(part, job, cases, specs)
    return part


# ======================================================================= main
def alias_patterns(spec):
    fargs = [a for a in spec["args"] if a["kind"] == "field"]
    by = {}
    for a in fargs:
        by.setdefault(a["dtype"], []).append(a)
    g = max(by.values(), key=len)
    pats = ["none"]
    if len(g) >= 2:
        pats.append("pair")
        if len(g) >= 3:
            pats.append("all")
            if len([a for a in g if not a["written"]]) >= 2:
                pats.append("reads")
    return pats


def main(ctx):
    ctx.rule = ("case = (built-in of the user guide, configuration (dm, rank "
                "layout, COMPUTE_ANNEXED_DOFS, OpenMP variant), aliasing "
                "pattern); the generated PSy layer is compiled and run on the "
                "stub LFRic infrastructure with per-DoF distinct exactly "
                "representable data; non-trivial = at least one DoF of the "
                "documented range (or one reduction over >= 1 owned DoF) was "
                "compared with the documented formula; distinct = distinct "
                "(built-in, configuration, aliasing)")
    specs, problems = load_guide()
    api = api_builtin_names()
    documented = [s["name"] for s in specs]
    ctx.extra["builtins_in_api_metadata"] = len(api)
    ctx.extra["builtins_documented_and_parsed"] = len(documented)
    ctx.extra["guide_problems"] = problems
    low = {d.lower() for d in documented}
    ctx.extra["api_builtins_without_usable_documentation"] = sorted(
        n for n in api if n.lower() not in low)
    ctx.extra["documented_but_not_in_api_metadata"] = sorted(
        d for d in documented if d.lower() not in {n.lower() for n in api})
    ctx.count("builtins_documented", len(documented))
    if problems:
        ctx.inconclusive("user-guide entries that could not be turned into an "
                         "oracle: " + "; ".join(problems)[:400])
    if len(documented) < 2:
        ctx.inconclusive("built-ins section of the user guide not found")
        return
    # ---- infrastructure, once, shared read-only
    import time
    t0 = time.time()
    try:
        infra = lfric.build_infrastructure(ctx.tmp, jobs=16)
        ctx.extra["infrastructure_build_s"] = round(time.time() - t0, 1)
    except lfric.HarnessError as err:
        ctx.inconclusive("LFRic infrastructure did not build: %s" % err)
        return
    # ---- configurations
    full = []
    for dm, ranks in ((0, 1), (1, 2), (1, 1)):
        for ann in (0, 1):
            for omp in (None, "parallel_do", "do", "do_reprod", "do_region",
                        "do_nosched", "do_dynamic"):
                full.append({"dm": dm, "ranks": ranks, "annexed": ann,
                             "omp": omp})
    if ctx.quick:
        rnd = ctx.rng("cfg")
        cfgs = [{"dm": 0, "ranks": 1, "annexed": 0, "omp": None},
                {"dm": 1, "ranks": 2, "annexed": 0, "omp": None},
                {"dm": 1, "ranks": 2, "annexed": 1, "omp": None},
                {"dm": rnd.choice([0, 1, 1]), "ranks": 2, "annexed":
                 rnd.choice([0, 1]),
                 "omp": rnd.choice(["parallel_do", "do", "do_reprod",
                                    "do_region", "do_nosched",
                                    "do_dynamic"])}]
        if cfgs[3]["dm"] == 0:
            cfgs[3]["ranks"] = 1
        rounds = 1
    else:
        cfgs = full
        rounds = 2
    if SELFTEST:
        cfgs = [c for c in cfgs if c["dm"] and c["ranks"] == 2][:3]
    per = 10
    jobs = []
    nj = 0

    def item(s, al, cfg, rnd):
        reduction = any(a["written"] and a["kind"] == "scalar"
                        for a in s["args"])
        # dm on as rank 0 of 2: prefer spaces with annexed DoFs
        if cfg["ranks"] == 2 and rnd.random() < 0.8:
            space = rnd.choice(CONT_SPACES)
        else:
            space = rnd.choice(CONT_SPACES + DISC_SPACES)
        realtype = "real"
        if not reduction and rnd.random() < (0.15 if ctx.quick else 0.3):
            realtype = rnd.choice(["r_solver", "r_tran", "r_bl", "r_phys"])
        return {"bi": s["name"], "alias": al, "space": space,
                "realtype": realtype, "literal": rnd.random() < 0.4}

    def job(cfg, items, grouped=False):
        nonlocal nj
        nj += 1
        return {"cfg": cfg, "items": items, "base_idx": 0,
                "seed": ctx.rng("job", nj).random(), "inc": infra["inc"],
                "lib": infra["lib"], "threads": 4, "grouped": grouped}

    for rd in range(rounds):
        for ci, cfg in enumerate(cfgs):
            rnd = ctx.rng("plan", rd, cfg_name(cfg))
            items = [item(s, "none", cfg, rnd) for s in specs]
            rnd.shuffle(items)
            for b in range(0, len(items), per):
                # thorough, second round: some programs put all their
                # built-ins into ONE invoke (several loops / reductions per
                # PSy-layer routine, one OpenMP region for "do_region")
                jobs.append(job(cfg, items[b:b + per],
                                grouped=(not ctx.quick) and rd == 1
                                and (b // per) % 2 == 0))
    # ---- every reduction built-in under every OpenMP variant (the data-
    # sharing of the reduction variable differs between them)
    red_specs = [s for s in specs if any(a["written"] and a["kind"] == "scalar"
                                         for a in s["args"])]
    for omp in ("parallel_do", "do", "do_reprod", "do_region", "do_nosched",
                "do_dynamic"):
        rcfg = {"dm": 0, "ranks": 1, "annexed": 0, "omp": omp}
        rnd = ctx.rng("red", omp)
        jobs.append(job(rcfg, [item(s, "none", rcfg, rnd)
                               for s in red_specs]))
        ctx.count("reduction_sweep_programs")
    # ---- aliasing probes (same field in several argument positions).  The
    # pinned PSyclone refuses every such call; a probe that is accepted is
    # evaluated like any other case.  One single-case program each.
    acfg = {"dm": 1, "ranks": 2, "annexed": 1, "omp": None}
    rnd = ctx.rng("alias")
    probes = [(s, al) for s in specs for al in alias_patterns(s)[1:]]
    if ctx.quick or SELFTEST:
        probes = rnd.sample(probes, 4)
    for s, al in probes:
        jobs.append(job(acfg, [item(s, al, acfg, rnd)]))
    ctx.count("configurations", len(cfgs))
    for res in ctx.pmap("vf.checks.c20", "batch", jobs,
                        timeout=1500 if ctx.quick else 3000):
        if res:
            ctx.merge(res)
    # ---- coverage accounting
    covered = set()
    # (distinct keys are hashed; recover per-built-in coverage from counters)
    for k in list(ctx.counters):
        if k.startswith("covered:"):
            covered.add(k.split(":", 1)[1])
    missing = sorted(set(documented) - covered)
    ctx.extra["builtins_not_exercised"] = missing
    ctx.counters["builtins_covered"] = len(covered)
    for k in [k for k in ctx.counters if k.startswith("covered:")]:
        del ctx.counters[k]
    if missing and not SELFTEST:
        ctx.inconclusive("documented built-ins never exercised: "
                         + ", ".join(missing)[:300])
    if ctx.counters.get("dofs_compared", 0) == 0:
        ctx.inconclusive("no DoF was ever compared")
    if ctx.counters.get("reductions_compared", 0) == 0:
        ctx.inconclusive("no reduction was ever compared")
    ctx.assumptions += [
        "the stub LFRic infrastructure of the repository (test support code) "
        "and gfortran are trusted; halo exchange and global sum are no-ops "
        "there, so 'rank 0 of 2' observes one rank's contribution only",
        "the formula line of the user guide is read with Fortran semantics "
        "(SIGN(a,x) = |a| with the sign of x, INT truncates, REAL converts); "
        "data is kept in an exactly representable domain (small dyadic "
        "rationals, power-of-two divisors, perfect squares under real "
        "exponents) so the comparison is exact equality",
        "setval_random: only 0 <= x < 1 is checked",
        "DoFs outside the documented range may hold the initial value or the "
        "formula value; other values there are counted, not judged; "
        "modification of read-only arguments is counted, not judged"]
