"""E4: monitors installed under the repository's own test suite.

    PYTHONPATH=/verif VF_SUITE_OUT=<dir> pytest -p vf.pytest_plugin ...

Three pass-through monitors wrap the real classes (results are unchanged):
 * TreeMonitor   (C14) - every public ChildrenList mutator: if the node's
   children were locally well-formed before, they must be after; if the
   operation raised, the child list and the parent links must be unchanged.
 * SymTabMonitor (C16) - after every public SymbolTable mutator the table's
   keys equal the normalised names of its symbols, tags point at members.
 * ApplyMonitor  (C26) - around the outermost apply() of every concrete
   Transformation: after a TransformationError the root's fingerprint must be
   unchanged.
The suite deliberately builds broken states through private attributes, so
every check is LOCAL and conditional on a well-formed pre-state.  Firings are
recorded (never raised) and dumped per xdist worker at session end.
"""
import functools
import json
import os
import traceback

_STATE = {"events": {}, "firings": [], "depth": 0, "installed": False}


def _count(key, n=1):
    _STATE["events"][key] = _STATE["events"].get(key, 0) + n


def _test_id():
    return os.environ.get("PYTEST_CURRENT_TEST", "?").split(" ")[0]


def _fire(prop, kind, what, extra=None):
    if len(_STATE["firings"]) < 2000:
        d = {"property": prop, "kind": kind, "what": what[:400],
             "test": _test_id()}
        if extra:
            d.update(extra)
        _STATE["firings"].append(d)


def _is_test_class(cls):
    """Classes the tests define themselves (module 'node_test',
    'psyclone.tests....'): not PSyclone's behaviour."""
    mod = getattr(cls, "__module__", "") or ""
    return (not mod.startswith("psyclone.") or ".tests." in mod
            or mod.endswith("_test"))


# ------------------------------------------------------------------ C14
def _local_ok(clist):
    node = clist._node_reference
    try:
        for pos, c in enumerate(list.__iter__(clist)):
            if c.parent is not node:
                return False
            if not clist._validation_function(pos, c):
                return False
        ids = [id(c) for c in list.__iter__(clist)]
        return len(ids) == len(set(ids))
    except Exception:
        return False


def _wrap_children(cls):
    for name in ("append", "insert", "extend", "__setitem__", "__delitem__",
                 "remove", "pop", "reverse", "clear", "__iadd__"):
        orig = cls.__dict__.get(name)
        if orig is None:
            continue

        def make(orig, name):
            @functools.wraps(orig)
            def wrapper(self, *a, **k):
                if _STATE["depth"] > 0 or _is_test_class(type(
                        self._node_reference)):
                    # nodes of classes defined by the tests themselves
                    # (test doubles that raise from update hooks) are not
                    # PSyclone's behaviour
                    return orig(self, *a, **k)
                _STATE["depth"] += 1
                try:
                    pre_ok = _local_ok(self)
                    before = [id(c) for c in list.__iter__(self)]
                    parents = [(id(c), id(c.parent)) for c in
                               list.__iter__(self)]
                    try:
                        res = orig(self, *a, **k)
                    except Exception as err:
                        _count("c14:raised")
                        if pre_ok:
                            after = [id(c) for c in list.__iter__(self)]
                            par2 = [(id(c), id(c.parent)) for c in
                                    list.__iter__(self)]
                            if after != before or par2 != parents:
                                _fire("C14", "children_changed_by_failed_op",
                                      "%s on %s raised %s but the child list "
                                      "changed" % (name, type(
                                          self._node_reference).__name__,
                                          type(err).__name__),
                                      {"op": name})
                        raise
                    _count("c14:ok")
                    if pre_ok and not _local_ok(self):
                        _fire("C14", "children_not_well_formed",
                              "after %s on %s" % (name, type(
                                  self._node_reference).__name__),
                              {"op": name})
                    return res
                finally:
                    _STATE["depth"] -= 1
            return wrapper
        setattr(cls, name, make(orig, name))


# ------------------------------------------------------------------ C16
def _table_ok(t):
    try:
        for key, sym in t._symbols.items():
            if key != sym.name.lower():
                return "key '%s' holds symbol '%s'" % (key, sym.name)
        for tag, sym in t._tags.items():
            if t._symbols.get(sym.name.lower()) is not sym:
                return "tag '%s' -> '%s' not a member" % (tag, sym.name)
    except Exception as err:
        return None
    return None


def _wrap_symtab(cls):
    for name in ("add", "new_symbol", "find_or_create", "find_or_create_tag",
                 "rename_symbol", "remove", "swap", "merge",
                 "swap_symbol_properties"):
        orig = cls.__dict__.get(name)
        if orig is None:
            continue

        def make(orig, name):
            @functools.wraps(orig)
            def wrapper(self, *a, **k):
                if _STATE["depth"] > 0:
                    return orig(self, *a, **k)
                _STATE["depth"] += 1
                try:
                    pre = _table_ok(self)
                    snap = None
                    if pre is None:
                        snap = ([(k2, id(s), s.name) for k2, s in
                                 self._symbols.items()],
                                sorted((t, id(s)) for t, s in
                                       self._tags.items()))
                    try:
                        res = orig(self, *a, **k)
                    except Exception as err:
                        _count("c16:raised")
                        if snap is not None and name != "merge":
                            now = ([(k2, id(s), s.name) for k2, s in
                                    self._symbols.items()],
                                   sorted((t, id(s)) for t, s in
                                          self._tags.items()))
                            if now != snap:
                                _fire("C16", "table_changed_by_rejected_op",
                                      "%s raised %s but the table changed"
                                      % (name, type(err).__name__),
                                      {"op": name})
                        raise
                    _count("c16:ok")
                    if pre is None:
                        post = _table_ok(self)
                        if post is not None:
                            _fire("C16", "table_invariant", "after %s: %s"
                                  % (name, post), {"op": name})
                    return res
                finally:
                    _STATE["depth"] -= 1
            return wrapper
        setattr(cls, name, make(orig, name))


# ------------------------------------------------------------------ C26
def _wrap_apply():
    import importlib
    import inspect
    import pkgutil
    import psyclone
    from psyclone.psyGen import Transformation
    from psyclone.psyir.transformations import TransformationError
    from vf.checks.c26 import fingerprint, fp_diff, diff_shape
    for m in pkgutil.walk_packages(psyclone.__path__, "psyclone."):
        if ".tests" in m.name:
            continue
        try:
            importlib.import_module(m.name)
        except Exception:
            pass

    def subs(c):
        r = set()
        for s in c.__subclasses__():
            r.add(s)
            r |= subs(s)
        return r
    apply_depth = {"d": 0}
    for cls in subs(Transformation):
        orig = cls.__dict__.get("apply")
        if orig is None or inspect.isabstract(cls):
            continue

        def make(orig, cname):
            @functools.wraps(orig)
            def wrapper(self, node, *a, **k):
                if apply_depth["d"] > 0:
                    return orig(self, node, *a, **k)
                apply_depth["d"] += 1
                try:
                    root = None
                    fp0 = None
                    try:
                        first = node[0] if isinstance(node, (list, tuple)) \
                            and node else node
                        root = first.root
                        fp0 = fingerprint(root)
                    except Exception:
                        root = None
                    try:
                        res = orig(self, node, *a, **k)
                        _count("c26:accepted")
                        return res
                    except TransformationError:
                        _count("c26:refused")
                        if root is not None and fp0 is not None:
                            try:
                                fp1 = fingerprint(root)
                            except Exception:
                                fp1 = fp0
                            if fp1 != fp0:
                                psykal = any(
                                    "InvokeSchedule" in type(x).__name__
                                    for x in [root] + list(
                                        root.children[:3]))
                                tag = "psykal" if psykal or \
                                    "NOT_INITIALISED" in str(fp0[0][:400]) \
                                    or True else "generic"
                                _fire("C26", "tree_changed_by_refused",
                                      "%s: %s" % (cname, fp_diff(fp0, fp1)),
                                      {"transformation": cname,
                                       "mechanism": diff_shape(fp0, fp1,
                                                               "psykal")})
                        raise
                finally:
                    apply_depth["d"] -= 1
            return wrapper
        cls.apply = make(orig, cls.__name__)


def pytest_configure(config):
    if _STATE["installed"] or not os.environ.get("VF_SUITE_OUT"):
        return
    _STATE["installed"] = True
    want = os.environ.get("VF_SUITE_MONITORS", "c14,c16,c26").split(",")
    from psyclone.psyir.nodes.node import ChildrenList
    from psyclone.psyir.symbols import SymbolTable
    if "c14" in want:
        _wrap_children(ChildrenList)
    if "c16" in want:
        _wrap_symtab(SymbolTable)
    if "c26" in want:
        _wrap_apply()


def pytest_sessionfinish(session, exitstatus):
    out = os.environ.get("VF_SUITE_OUT")
    if not out or not _STATE["installed"]:
        return
    os.makedirs(out, exist_ok=True)
    worker = os.environ.get("PYTEST_XDIST_WORKER", "main")
    with open(os.path.join(out, "monitor_%s.json" % worker), "w") as fh:
        json.dump({"events": _STATE["events"],
                   "firings": _STATE["firings"]}, fh)
