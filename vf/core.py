"""E0: driver core shared by every check.

A check module (vf/checks/cXX.py) exposes

    PROPERTY = "Cxx"
    LEVEL = "exploration"
    def main(ctx): ...

and talks to the harness only through the Ctx object: it counts cases,
reports violations (which are classified against KNOWN_FINDINGS.json by
mechanism predicates in vf/kf.py) and declares itself inconclusive when a
deciding monitor was never reached.  Ctx.finish() writes the evidence file,
prints the VIOLATION / KNOWN-FINDING / INCONCLUSIVE lines and returns the exit
code (0 held, 1 violated, 2 inconclusive).
"""
import hashlib
import json
import os
import random
import shutil
import subprocess
import sys
import tempfile
import time
import traceback
from concurrent.futures import ThreadPoolExecutor

ROOT = os.path.dirname(os.path.dirname(os.path.abspath(__file__)))
REPO = os.environ.get("VERIF_REPO", "/repo")
PY = "/venv/bin/python"
GUARD = "SVALAT_PSYCLONE_VERIF"
NCPU = int(os.environ.get("VERIF_NCPU", str(os.cpu_count() or 4)))
DEPS = os.path.join(ROOT, ".deps")


def base_env():
    env = dict(os.environ)
    env["PYTHONHASHSEED"] = "0"
    env["PSYCLONE_CONFIG"] = os.path.join(REPO, "config", "psyclone.cfg")
    env[GUARD] = "1"
    pp = [ROOT, DEPS]
    if env.get("PYTHONPATH"):
        pp.append(env["PYTHONPATH"])
    env["PYTHONPATH"] = os.pathsep.join(pp)
    env["PYTHONDONTWRITEBYTECODE"] = "1"
    return env


def ensure_deps():
    """icontract/deal live in the git-ignored /verif/.deps; a fresh restore has
    only committed files, so every check installs them lazily (offline)."""
    if os.path.isdir(os.path.join(DEPS, "icontract")):
        return
    lock = DEPS + ".lock"
    os.makedirs(DEPS, exist_ok=True)
    import fcntl
    with open(lock, "w") as fh:
        fcntl.flock(fh, fcntl.LOCK_EX)
        if os.path.isdir(os.path.join(DEPS, "icontract")):
            return
        subprocess.run(
            [PY, "-m", "pip", "install", "-q", "--no-index", "--find-links",
             "/opt/veriftools/wheels", "--target", DEPS, "icontract", "deal"],
            check=False, stdout=subprocess.DEVNULL, stderr=subprocess.DEVNULL)


def stable_hash(obj):
    return hashlib.sha1(
        json.dumps(obj, sort_keys=True, default=str).encode()).hexdigest()[:16]


def seed_int(*key):
    return int(hashlib.sha1(repr(key).encode()).hexdigest()[:12], 16)


class Ctx:
    def __init__(self, prop, tier, seed, level="exploration", replay=None):
        self.prop = prop
        self.tier = tier
        self.quick = tier == "quick"
        self.seed = seed
        self.level = level
        self.replay = replay
        self.t0 = time.time()
        self.counters = {}
        self.evaluations = 0
        self._distinct = set()
        self.samples = []
        self.max_samples = 6
        self.violations = []       # unlisted
        self.known_hits = {}       # kf id -> count
        self.known_examples = {}
        self.inconclusive_reasons = []
        self.assumptions = []
        self.rule = ""
        self.extra = {}
        self._tmp = None
        self._kf = None
        self.budget_s = None       # soft time budget set by check

    # ---- randomness ----------------------------------------------------
    def rng(self, *key):
        return random.Random(seed_int(self.seed, self.prop, *key))

    # ---- scratch -------------------------------------------------------
    @property
    def tmp(self):
        if self._tmp is None:
            self._tmp = tempfile.mkdtemp(prefix="vf_%s_" % self.prop)
        return self._tmp

    def cleanup(self):
        if self._tmp and os.path.isdir(self._tmp):
            shutil.rmtree(self._tmp, ignore_errors=True)
        self._tmp = None

    # ---- time ----------------------------------------------------------
    def elapsed(self):
        return time.time() - self.t0

    def time_left(self):
        if self.budget_s is None:
            return 1e9
        return self.budget_s - self.elapsed()

    # ---- coverage accounting --------------------------------------------
    def count(self, key, n=1):
        self.counters[key] = self.counters.get(key, 0) + n

    def case(self, key=None, nontrivial=True, sample=None):
        """One evaluation.  `key` identifies the case for distinctness."""
        self.evaluations += 1
        if nontrivial and key is not None:
            self._distinct.add(key if isinstance(key, (str, int))
                               else stable_hash(key))
        if sample is not None and len(self.samples) < self.max_samples:
            self.samples.append(sample)

    def merge(self, part):
        """Merge a worker's partial result (see Part below)."""
        self.evaluations += part.get("evaluations", 0)
        self._distinct.update(part.get("distinct", []))
        for k, v in part.get("counters", {}).items():
            self.count(k, v)
        for s in part.get("samples", []):
            if len(self.samples) < self.max_samples:
                self.samples.append(s)
        for w in part.get("violations", []):
            self.violation(w)
        for r in part.get("inconclusive", []):
            self.inconclusive(r)

    # ---- verdicts --------------------------------------------------------
    def _known(self):
        if self._kf is None:
            path = os.path.join(ROOT, "KNOWN_FINDINGS.json")
            ents = []
            if os.path.exists(path):
                with open(path) as fh:
                    ents = json.load(fh).get("findings", [])
            self._kf = [e for e in ents if e.get("property") == self.prop]
        return self._kf

    def classify(self, witness):
        from vf import kf
        for ent in self._known():
            if ent.get("status") != "known":
                continue
            pred = getattr(kf, ent["predicate"], None)
            if pred is None:
                continue
            try:
                if pred(witness, ent.get("params", {})):
                    return ent
            except Exception:   # a broken predicate must not hide anything
                continue
        return None

    def violation(self, witness):
        """witness: JSON-able dict with at least 'kind' and 'what'."""
        ent = self.classify(witness)
        if ent is not None:
            kid = ent["id"]
            self.known_hits[kid] = self.known_hits.get(kid, 0) + 1
            self.known_examples.setdefault(kid, witness.get("what", ""))
            return "known"
        self.violations.append(witness)
        return "violation"

    def inconclusive(self, reason):
        if reason not in self.inconclusive_reasons:
            self.inconclusive_reasons.append(reason)

    # ---- finish ----------------------------------------------------------
    def finish(self):
        wall = time.time() - self.t0
        ev_dir = os.path.join(ROOT, "evidence")
        os.makedirs(ev_dir, exist_ok=True)
        rep_dir = os.path.join(ROOT, "replays", self.prop)
        if os.path.isdir(rep_dir) and self.replay is None:
            pre = "%s_s%d_" % (self.tier, self.seed)
            for f in os.listdir(rep_dir):
                if f.startswith(pre):
                    os.remove(os.path.join(rep_dir, f))
        lines = []
        rc = 0
        # dedupe violations by (kind, mechanism-ish key)
        shown = 0
        seen = set()
        for w in self.violations:
            k = (w.get("kind"), stable_hash(w.get("dedupe", w)))
            if k in seen:
                continue
            seen.add(k)
            if shown < 25:
                os.makedirs(rep_dir, exist_ok=True)
                path = os.path.join(
                    rep_dir, "%s_s%d_%03d.json" % (self.tier, self.seed, shown))
                with open(path, "w") as fh:
                    json.dump({"property": self.prop, "seed": self.seed,
                               "tier": self.tier, "witness": w}, fh, indent=1,
                              default=str)
                lines.append("VIOLATION property=%s replay=%s  # %s: %s" % (
                    self.prop, path, w.get("kind"),
                    str(w.get("what", ""))[:300].replace("\n", " | ")))
            shown += 1
            rc = 1
        known_by_id = {e["id"]: e for e in self._known()}
        for kid, n in sorted(self.known_hits.items()):
            lines.append("KNOWN-FINDING: property=%s %s (%s; seen %d times; "
                         "e.g. %s)" % (
                             self.prop, known_by_id[kid]["what_fails"], kid, n,
                             str(self.known_examples.get(kid, ""))[:160]
                             .replace("\n", " | ")))
        distinct = len(self._distinct)
        if rc == 0:
            if self.evaluations < 1 or distinct < 2:
                self.inconclusive("only %d evaluations / %d distinct "
                                  "non-trivial cases" % (self.evaluations,
                                                         distinct))
            if self.inconclusive_reasons:
                rc = 2
                for r in self.inconclusive_reasons:
                    lines.append("INCONCLUSIVE property=%s reason=%s" % (
                        self.prop, r))
        cov = {
            "evaluations": max(self.evaluations, 0),
            "distinct_nontrivial": distinct,
            "rule": self.rule,
            "samples": self.samples[:self.max_samples] or ["<none>"],
            "counters": dict(sorted(self.counters.items())),
            "known_finding_hits": dict(sorted(self.known_hits.items())),
            "inconclusive": self.inconclusive_reasons,
        }
        cov.update(self.extra)
        evd = {
            "property_id": self.prop,
            "tier": self.tier,
            "seed": self.seed,
            "level": self.level,
            "coverage": cov,
            "assumptions": self.assumptions,
            "wall_s": round(wall, 2),
            "violations": len(seen),
        }
        if self.replay is None:
            with open(os.path.join(ev_dir, self.prop + ".json"), "w") as fh:
                json.dump(evd, fh, indent=1, default=str)
                fh.write("\n")
        for ln in lines:
            print(ln)
        print("%s tier=%s seed=%d evaluations=%d distinct=%d violations=%d "
              "known=%d wall=%.1fs rc=%d" % (
                  self.prop, self.tier, self.seed, self.evaluations, distinct,
                  len(seen), sum(self.known_hits.values()), wall, rc))
        if self.counters:
            print("  counters: " + ", ".join(
                "%s=%s" % kv for kv in sorted(self.counters.items())))
        self.cleanup()
        return rc

    # ---- parallel fan-out ---------------------------------------------
    def pmap(self, module, func, arglist, timeout=600, nproc=None):
        """Run module.func(arg) for each arg in its own subprocess (robust to
        crashes and hangs; multiprocessing.Pool hangs if a child dies).
        Returns list of results (None where the worker failed/timed out;
        those are recorded as inconclusive)."""
        nproc = nproc or NCPU
        env = base_env()

        def one(arg):
            try:
                p = subprocess.run(
                    [PY, "-m", "vf.worker", module, func],
                    input=json.dumps(arg), capture_output=True, text=True,
                    timeout=timeout, env=env, cwd=ROOT)
            except subprocess.TimeoutExpired:
                self.count("worker_timeouts")
                self.inconclusive("worker watchdog fired (%s.%s)" % (
                    module, func))
                return None
            if p.returncode != 0:
                self.count("worker_failures")
                self.inconclusive("worker failed (%s.%s): %s" % (
                    module, func, p.stderr.strip()[-400:]))
                return None
            try:
                # result is the last line of stdout
                res = json.loads(p.stdout.strip().splitlines()[-1])
                if isinstance(res, dict):
                    for w in res.get("violations", []):
                        if isinstance(w, dict):
                            # generic replay recipe: re-run this batch
                            w.setdefault("replay_batch", {
                                "module": module, "func": func, "arg": arg})
                return res
            except Exception:
                self.count("worker_failures")
                self.inconclusive("worker output unparsable (%s.%s): %s" % (
                    module, func, p.stdout[-200:]))
                return None

        with ThreadPoolExecutor(max_workers=nproc) as ex:
            return list(ex.map(one, arglist))


class Part:
    """Partial result built inside a worker; .to_json() is merged by
    Ctx.merge()."""

    def __init__(self):
        self.d = {"evaluations": 0, "distinct": [], "counters": {},
                  "samples": [], "violations": [], "inconclusive": []}
        self._seen = set()
        self._vcount = {}

    def count(self, key, n=1):
        c = self.d["counters"]
        c[key] = c.get(key, 0) + n

    def case(self, key=None, nontrivial=True, sample=None):
        self.d["evaluations"] += 1
        if nontrivial and key is not None:
            k = key if isinstance(key, (str, int)) else stable_hash(key)
            if k not in self._seen:
                self._seen.add(k)
                self.d["distinct"].append(k)
        if sample is not None and len(self.d["samples"]) < 3:
            self.d["samples"].append(sample)

    def violation(self, witness):
        # keep at most 12 witnesses per (kind, mechanism) so that a frequent
        # class cannot crowd out a rare one; every firing is still counted
        key = "%s/%s" % (witness.get("kind"), witness.get("mechanism"))
        n = self._vcount.get(key, 0)
        self._vcount[key] = n + 1
        if n < 12 and len(self.d["violations"]) < 400:
            self.d["violations"].append(witness)
        else:
            self.count("violations_not_listed:" + key)
        self.count("raw_violations")

    def inconclusive(self, reason):
        if reason not in self.d["inconclusive"]:
            self.d["inconclusive"].append(reason)

    def to_json(self):
        return self.d


def generic_replay(ctx, witness):
    """Re-run the batch that produced the witness (same module, function and
    arguments, hence the same seeded cases) and report what it finds."""
    rb = witness.get("replay_batch")
    print("replaying: %s" % str(witness.get("what", ""))[:300])
    if not rb:
        ctx.inconclusive("witness carries no replay recipe")
        return
    import importlib
    fn = getattr(importlib.import_module(rb["module"]), rb["func"])
    res = fn(rb["arg"])
    if hasattr(res, "to_json"):
        res = res.to_json()
    ctx.merge(res)
    same = [w for w in res.get("violations", [])
            if w.get("kind") == witness.get("kind")]
    print("replay reproduced %d violation(s) of kind %s" % (
        len(same), witness.get("kind")))


def run_check(prop, tier, replay=None):
    import importlib
    seed = int(os.environ.get("VERIF_SEED", "0") or 0)
    mod = importlib.import_module("vf.checks.%s" % prop.lower())
    ctx = Ctx(prop, tier, seed, getattr(mod, "LEVEL", "exploration"), replay)
    try:
        if replay:
            with open(replay) as fh:
                rep = json.load(fh)
            if hasattr(mod, "replay"):
                mod.replay(ctx, rep["witness"])
            else:
                generic_replay(ctx, rep["witness"])
        else:
            mod.main(ctx)
    except Exception:
        # a harness crash is never a verdict on PSyclone
        ctx.inconclusive("harness error: " + traceback.format_exc()[-800:])
    return ctx.finish()
