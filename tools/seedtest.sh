#!/bin/sh
# usage: tools/seedtest.sh <patch.diff> <Cxx> [tier]
# applies a seeded change to /repo, runs one check, always reverts.
patch="$1"; prop="$2"; tier="${3:-quick}"
cd /repo || exit 2
if [ -n "$(git status --porcelain)" ]; then echo "/repo not clean"; exit 2; fi
git apply "$patch" || { echo "patch does not apply"; exit 2; }
cd /verif && ./check "$prop" "$tier" > /tmp/seedtest_$$.log 2>&1
rc=$?
cd /repo && git checkout -- . 
echo "rc=$rc"; grep -c "^VIOLATION" /tmp/seedtest_$$.log; grep "^VIOLATION" /tmp/seedtest_$$.log | head -3 | cut -c1-400; tail -2 /tmp/seedtest_$$.log | cut -c1-300
rm -f /tmp/seedtest_$$.log
