"""Differential execution of accepted transformations (engine shared by
C05/C06/C07/C04).

For one F-lite unit: the module text goes through the real reader; the
re-written untransformed text is the baseline (so reader/writer defects are
not blamed on a transformation); every (transformation, target, options)
attempt is made on a freshly read tree; accepted ones are written, compiled
with the unit's main program and run on the inputs the reference interpreter
accepts; stdout must equal the baseline's.
"""
import os
import traceback

from vf import flite, diffrun, fx, psy


class Attempt:
    def __init__(self, tname, target_desc, options, apply_fn):
        self.tname = tname
        self.target_desc = target_desc
        self.options = options
        self.apply_fn = apply_fn     # fn(psyir) -> None, raises to refuse


def short_tb(err):
    tb = traceback.extract_tb(err.__traceback__)
    if not tb:
        return "?"
    return "%s:%d" % (os.path.basename(tb[-1].filename), tb[-1].lineno)


def run_case(unit, attempts_fn, wd, part, inputs, flags=None,
             max_accepted=12, rnd=None, want_texts=False):
    """attempts_fn(psyir) -> list[Attempt] (evaluated on a throw-away tree to
    enumerate the attempts; each attempt is then re-made on a fresh tree).

    Returns list of result dicts for accepted attempts:
       {tname, target, options, status: 'equal'|'violation', witness}
    """
    from psyclone.psyir.transformations import TransformationError
    mod_text = flite.module_text(unit)
    main_text = flite.main_text(unit)
    good = diffrun.valid_inputs(unit, inputs)
    if not good:
        part.count("no_valid_input")
        return []
    ins = sorted(good)
    try:
        tree0 = psy.read(mod_text)
        base_text = psy.write(tree0)
    except Exception as err:
        part.count("reader_failed_on_original")
        return []
    ok, err, base = diffrun.run_all(os.path.join(wd, "base"),
                                    base_text + main_text, ins, flags=flags)
    if not ok:
        part.count("baseline_does_not_compile")
        return []
    for k in ins:
        rc, out, serr = base[k]
        if rc != 0 or out != good[k]:
            # re-written original differs from the interpreter: C01's business
            part.count("baseline_differs_from_interpreter")
            return []
    part.count("interp_validated_runs", len(ins))
    attempts = attempts_fn(tree0)
    if rnd is not None:
        rnd.shuffle(attempts)
    results = []
    accepted = 0
    for k, att in enumerate(attempts):
        if accepted >= max_accepted:
            break
        tree = psy.read(mod_text)
        # enumerate again on this tree and take the k-th attempt: node
        # identities differ between trees, positions do not
        again = attempts_fn(tree)
        match = [a for a in again if (a.tname, a.target_desc,
                                      repr(a.options)) ==
                 (att.tname, att.target_desc, repr(att.options))]
        if not match:
            part.count("attempt_not_reproducible")
            continue
        a = match[0]
        try:
            a.apply_fn(tree)
        except TransformationError as err:
            part.count("refused:" + a.tname)
            continue
        except Exception as err:
            part.count("crashed:%s:%s" % (a.tname, type(err).__name__))
            results.append({"tname": a.tname, "target": a.target_desc,
                            "options": a.options, "status": "crash",
                            "what": "%s: %s [%s]" % (type(err).__name__,
                                                     str(err)[:200],
                                                     short_tb(err))})
            continue
        accepted += 1
        part.count("accepted:" + a.tname)
        res = {"tname": a.tname, "target": a.target_desc,
               "options": a.options}
        try:
            ttext = psy.write(tree)
        except Exception as err:
            res.update(status="violation", kind="writer_failed_after_accept",
                       what="%s: %s" % (type(err).__name__, str(err)[:300]))
            results.append(res)
            continue
        if want_texts:
            res["text"] = ttext
        ok2, err2, got = diffrun.run_all(os.path.join(wd, "t"),
                                         ttext + main_text, ins, flags=flags)
        if not ok2:
            res.update(status="violation", kind="transformed_does_not_compile",
                       what=err2.strip()[:500], transformed=ttext)
            results.append(res)
            continue
        bad = None
        failing = []
        for key in ins:
            rc, out, serr = got[key]
            if rc != 0:
                failing.append(key)
                if bad is None:
                    bad = ("transformed_fails_at_runtime",
                           "input %s: rc=%s %s" % (key, rc, serr[-250:]), key)
                continue
            if out != base[key][1]:
                failing.append(key)
                if bad is None:
                    a_l = base[key][1].splitlines()
                    b_l = out.splitlines()
                    d = [(x, y) for x, y in zip(a_l, b_l) if x != y][:1]
                    bad = ("output_differs",
                           "input %s: baseline %r vs transformed %r" % (
                               key, d[0][0][:110] if d else "?",
                               d[0][1][:110] if d else "?"), key)
        if bad:
            res.update(status="violation", kind=bad[0], what=bad[1],
                       input=list(bad[2]), transformed=ttext,
                       baseline=base_text,
                       failing_inputs=[list(k) for k in failing],
                       passing_inputs=[list(k) for k in ins
                                       if k not in failing])
        else:
            res.update(status="equal", changed=ttext != base_text)
            part.count("equal:" + a.tname)
            part.count("runs_compared", len(ins))
        results.append(res)
    return results
