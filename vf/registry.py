"""Per-property registration used by vf.mkmanifest.  A property appears here
only once its check exists and has been run on the unchanged tree."""

CHECKS = {}
NOT_APPLICABLE = {}


def reg(pid, technique, text, note, design_ref, category="exploration"):
    CHECKS[pid] = dict(technique=technique, text=text, note=note,
                       design_ref=design_ref, category=category)


reg("C27",
    "icontract post-condition on the real sort_modules under exhaustive + "
    "random dependency maps",
    "Runtime contract (permutation of keys; dependencies-first when the known "
    "graph is acyclic; input untouched) evaluated on every call of the real "
    "ModuleManager.sort_modules while the workload enumerates every dependency "
    "map over <=4 modules with self loops and an unknown name (thorough: also "
    "all loop-free maps over 5 modules) and random maps up to 9 modules. "
    "Exhaustive within that bound, sampled beyond; not a proof.",
    "Trusts icontract to evaluate the condition on each call (evaluations are "
    "counted; zero => inconclusive) and my 15-line acyclicity test.",
    "DESIGN.md §5 C27")

reg("C17",
    "reference-evaluator monitor: every claim of the real SymbolicMaths is "
    "checked over integer valuations by an independent Fortran-integer "
    "evaluator (validated against gfortran each run)",
    "Each equal/never_equal/solve_equal_for/expand answer given by the real "
    "SymbolicMaths on generated near-identity pairs (size<=9, + - * / ** neg "
    "MOD MIN MAX ABS, index arrays) is refuted or not by evaluating both "
    "sides under Fortran INTEGER semantics on every valuation in [-6,6]^3 "
    "plus large ones. Sampled expression pairs, exhaustive small valuations; "
    "held-on-what-was-observed, not a proof.",
    "Trusts vf.iexpr (200 lines; compared with gfortran on 150+ "
    "expression/valuation samples per run, disagreement => inconclusive); "
    "known defects int_division_as_real and mod_floored_not_truncated are "
    "recognised by mechanism (claim true over rationals/floored Mod AND a "
    "truncating division / negative MOD operand at the witness).",
    "DESIGN.md §5 C17")

reg("C18",
    "output monitor: independent free-form continuation joiner + tokeniser "
    "compares logical lines of input and of the real limiter's output; "
    "limit, idempotence and no-exception monitors",
    "The real FortLineLength.process runs on generated texts (statements, "
    "declarations, calls with string literals, directives, comments, "
    "trailing comments) at limits 40..132; my joiner (F2008 3.3.2.4 incl. "
    "character context, !$omp&/!$acc& sentinels, '!& ' comments) must "
    "recover the same logical lines token for token. Sampled inputs.",
    "Trusts my joiner/tokeniser (it rejects what it cannot join: such inputs "
    "are counted, not judged). A raise on a line outside the generator's "
    "breakability guarantee is counted, not judged. Known defect "
    "trailing_comment_split needs the comment-free twin to pass.",
    "DESIGN.md §5 C18")

reg("C14",
    "invariant monitor at the public-operation boundary over generated and "
    "enumerated edit histories on the real PSyIR classes",
    "After every public child-list operation (append/insert/extend/[]=/del/"
    "remove/pop/reverse/clear/addchild/children=/+=/replace_with/detach/"
    "pop_all_children, indices in [-6,6]) the whole forest of nodes is "
    "walked: parent lists child exactly once, every child passes the "
    "parent's own _validate_child at its position, parent links agree; an "
    "operation that raised must leave the identity structure unchanged. All "
    "single operations of a small alphabet on 6-10 target node types and "
    "pairs of them are enumerated; longer histories are random.",
    "Trusts PSyIR's own _validate_child as the definition of 'valid at its "
    "position'. Cycles are not generated (outside the statement).",
    "DESIGN.md §5 C14")

reg("C16",
    "invariant + post-condition monitor over generated operation histories "
    "on real nested SymbolTables",
    "After every public SymbolTable operation in random histories (<=15 "
    "quick / <=50 thorough) over Container>Routine>loop-body scopes, an "
    "independent routine and a free table: key == normalised name, tags and "
    "arguments are members, lookup() returns the innermost symbol computed "
    "by my own walk of the scope chain (any spelling), fresh names clash "
    "with nothing visible nor the other table, merge represents every "
    "non-skipped symbol exactly once and renames only clashing names, and a "
    "raising operation leaves every table view unchanged.",
    "A table that was merged from is retired (as real callers do); sharing "
    "one symbol between two live tables is not judged. Accepted merge "
    "de-duplications are the documented ones.",
    "DESIGN.md §5 C16")

reg("C01",
    "differential execution: original vs FortranReader->FortranWriter text "
    "compiled with gfortran -fcheck=all, inputs vetted by a reference "
    "interpreter that is itself compared with gfortran",
    "Generated programs (DO incl. zero-trip/negative-step, IF chains, SELECT "
    "CASE lists/ranges, WHERE/ELSEWHERE, sections, intrinsics, CodeBlock "
    "WRITE statements, module + main) are read and re-written by the real "
    "frontend/backend; both texts are compiled and run on up to 8 inputs "
    "(n = 0,1,...) and stdout compared exactly. Sampled programs; held on "
    "what was observed.",
    "Only inputs my interpreter accepts and on which it equals gfortran are "
    "judged. Four WHERE-lowering defects are known findings recognised by an "
    "AST fact of the source plus a passing hazard-free twin.",
    "DESIGN.md §5 C01")
