"""E2: gfortran build / run harness."""
import os
import subprocess

STRICT = ["-O0", "-g", "-fimplicit-none", "-fcheck=all",
          "-ffpe-trap=invalid,zero,overflow", "-ffree-line-length-none",
          "-fmax-errors=5"]
SAN = ["-fsanitize=address,undefined", "-fno-sanitize-recover=all"]


def compile_f(workdir, files, exe="a.out", flags=None, extra=None,
              timeout=300, compile_only=False):
    """files: list of (name, text) in compilation order.  Returns
    (ok, stderr)."""
    os.makedirs(workdir, exist_ok=True)
    names = []
    for name, text in files:
        with open(os.path.join(workdir, name), "w") as fh:
            fh.write(text)
        names.append(name)
    cmd = ["gfortran"] + (STRICT if flags is None else flags) + (extra or [])
    if compile_only:
        cmd += ["-c"] + names
    else:
        cmd += names + ["-o", exe]
    try:
        p = subprocess.run(cmd, cwd=workdir, capture_output=True, text=True,
                           timeout=timeout)
    except subprocess.TimeoutExpired:
        return None, "compile watchdog"
    return p.returncode == 0, p.stderr


def run_exe(workdir, exe="a.out", stdin="", timeout=60, env=None):
    """Returns (rc, stdout, stderr); rc None on watchdog."""
    e = dict(os.environ)
    if env:
        e.update(env)
    try:
        p = subprocess.run([os.path.join(workdir, exe)], cwd=workdir,
                           input=stdin, capture_output=True, text=True,
                           timeout=timeout, env=e, errors="replace")
    except subprocess.TimeoutExpired:
        return None, "", "run watchdog"
    return p.returncode, p.stdout, p.stderr


def canon(out):
    """Canonical stdout: strip trailing blanks, collapse runs of blanks."""
    out = out.replace("-0.000000000000000E+000", "0.000000000000000E+000")
    return "\n".join(" ".join(l.split()) for l in out.strip().splitlines())
