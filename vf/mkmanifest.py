"""Regenerate MANIFEST.json from vf.registry (python -m vf.mkmanifest)."""
import json
import os
import subprocess

from vf import registry
from vf.core import ROOT, REPO

ALL = ["C%02d" % i for i in range(1, 30)]


def ready_ids():
    rp = os.path.join(ROOT, "READY")
    if not os.path.exists(rp):
        return set()
    return {l.strip() for l in open(rp) if l.strip()
            and not l.startswith("#")}


def main():
    hooks_commits = []
    hc = os.path.join(ROOT, "HOOK_COMMITS.txt")
    if os.path.exists(hc):
        hooks_commits = [l.split()[0] for l in open(hc) if l.strip()
                         and not l.startswith("#")]
    man = {
        "version": 1,
        "setup_cmd": "./setup.sh",
        "hooks": {
            "guard": "SVALAT_PSYCLONE_VERIF",
            "enable": "checks import /repo in place (editable install in "
                      "/venv) with SVALAT_PSYCLONE_VERIF=1 in the environment; "
                      "all monitors are attached from /verif (method "
                      "wrappers, pytest plugin, sitecustomize)",
            "baseline_off_cmd": "cd /repo && env -u SVALAT_PSYCLONE_VERIF "
                                "/venv/bin/python -m pytest -ra -q -p "
                                "no:cacheprovider --timeout=900 "
                                "--continue-on-collection-errors -n 16",
            "source_commits": hooks_commits,
            "add_only": True,
        },
        "engines": [
            {"name": "vf", "path": "vf/",
             "serves_properties": sorted(
                 p for p in registry.CHECKS if p in ready_ids()),
             "kind_free_text": "Python runtime-monitoring framework: "
             "generators + monitors on the real PSyclone classes + compiled "
             "execution of generated Fortran (gfortran -fcheck=all)"}],
        "checks": [],
        "not_applicable": [],
        "notes": "All checks: ./check <id> quick|thorough.  Exit 0 held on "
                 "what was observed, 1 violation, 2 inconclusive (monitor not "
                 "reached / watchdog).  Known findings: KNOWN_FINDINGS.json.",
    }
    ready = set()
    rp = os.path.join(ROOT, "READY")
    if os.path.exists(rp):
        ready = {l.strip() for l in open(rp) if l.strip()
                 and not l.startswith("#")}
    for pid in ALL:
        if pid in registry.CHECKS and pid in ready:
            c = registry.CHECKS[pid]
            man["checks"].append({
                "property_id": pid,
                "quick_cmd": "./check %s quick" % pid,
                "thorough_cmd": "./check %s thorough" % pid,
                "evidence_file": "evidence/%s.json" % pid,
                "replay_cmd_template": "./check %s quick --replay {path}" % pid,
                "engine": "vf",
                "level_claimed": {"category": c["category"],
                                  "text": c["text"],
                                  "design_ref": c["design_ref"]},
                "level_note": c["note"],
                "technique": c["technique"],
            })
        else:
            man["not_applicable"].append({
                "property_id": pid,
                "reason": registry.NOT_APPLICABLE.get(
                    pid, "check not built yet in this session (design in "
                    "DESIGN.md §5); not claimed until it runs clean on the "
                    "unchanged tree")})
    with open(os.path.join(ROOT, "MANIFEST.json"), "w") as fh:
        json.dump(man, fh, indent=1)
        fh.write("\n")
    import jsonschema
    schema = json.load(open("/root/.vp/MANIFEST.schema.json"))
    jsonschema.validate(man, schema)
    print("MANIFEST.json: %d checks, %d not_applicable" % (
        len(man["checks"]), len(man["not_applicable"])))


if __name__ == "__main__":
    main()
