"""Differential execution helper: compile two (or more) program texts and
compare their canonical stdout on a vector of inputs, with the reference
interpreter deciding which inputs are valid."""
import os
import shutil

from vf import fx, finterp

INPUTS = [(1, 5), (2, 7), (3, 0), (4, 1), (5, 3), (6, 2), (7, 6), (8, 4)]


def valid_inputs(unit, inputs, tracer_factory=None):
    """Run the reference interpreter; returns {input: printed_text} for the
    inputs on which the program has defined behaviour."""
    good = {}
    for seed, n in inputs:
        it = finterp.Interp(unit)
        try:
            fr = it.run_main(seed, n)
        except (finterp.Trap, finterp.Poison, RecursionError):
            continue
        good[(seed, n)] = fx.canon(it.printed(fr))
    return good


def strip_markers(out):
    return "\n".join(l for l in out.splitlines()
                     if not l.startswith("marker"))


def run_all(workdir, text, inputs, flags=None, exe="a.out", env=None,
            keep_markers=False, extra=None):
    """Compile `text` and run it on every input.  Returns
    (ok, compile_err, {input: (rc, canon_stdout, stderr)})."""
    ok, err = fx.compile_f(workdir, [("p.f90", text)], exe=exe, flags=flags,
                           extra=extra)
    if not ok:
        return False, err, {}
    res = {}
    for seed, n in inputs:
        rc, out, serr = fx.run_exe(workdir, exe, stdin="%d %d\n" % (seed, n),
                                   env=env)
        if not keep_markers:
            out = strip_markers(out)
        res[(seed, n)] = (rc, fx.canon(out), serr[-300:])
    return True, "", res


def cleanup(workdir):
    shutil.rmtree(workdir, ignore_errors=True)
