"""C18 Line-length limiting keeps the program and respects the limit.

Monitor: my own implementation of the free-form continuation rules (F2008
3.3.2.4, character context, OpenMP/OpenACC sentinel continuation, PSyclone's
'!& ' comment continuation) joins the physical lines of the limiter's output
back into logical lines, which must equal the logical lines of the input token
for token; plus limit, idempotence and no-exception monitors on the real
FortLineLength.process.
"""
import re

from vf.core import Part

PROPERTY = "C18"
LEVEL = "exploration"


class JoinError(Exception):
    def __init__(self, msg, lineno):
        super().__init__(msg)
        self.msg = msg
        self.lineno = lineno


def scan_statement_line(text, quote):
    """Scan one physical (non-comment) line.  `quote` is the open quote
    character when the line starts in character context, else None.
    Returns (body, comment, continued, quote_at_end) where body excludes a
    trailing comment and the trailing '&'."""
    i = 0
    n = len(text)
    comment = None
    while i < n:
        c = text[i]
        if quote:
            if c == quote:
                if i + 1 < n and text[i + 1] == quote:
                    i += 2
                    continue
                quote = None
        else:
            if c in "'\"":
                quote = c
            elif c == "!":
                comment = text[i:]
                text = text[:i]
                break
        i += 1
    stripped = text.rstrip()
    continued = stripped.endswith("&")
    if continued:
        body = stripped[:-1]
    else:
        body = text if quote else stripped
    return body, comment, continued, quote


SENT = re.compile(r"^\s*!\$(omp|acc)(&?)", re.I)


def logical_lines(text):
    """Join physical lines into logical lines:
    list of (kind, content, [comments])."""
    out = []
    cur = None           # open statement: dict(body, comments, quote)
    curdir = None        # open directive: dict(sent, body)
    for lineno, raw in enumerate(text.split("\n")):
        m = SENT.match(raw)
        if m:
            if cur is not None:
                raise JoinError("directive inside a continued statement",
                                lineno)
            sent = m.group(1).lower()
            rest = raw[m.end():]
            has_amp = m.group(2) == "&"
            if curdir is not None:
                if sent != curdir["sent"]:
                    raise JoinError("continued directive followed by a "
                                    "different sentinel", lineno)
                body = rest
            else:
                if has_amp:
                    raise JoinError("directive continuation line without a "
                                    "continued directive before it", lineno)
                body = rest
                curdir = {"sent": sent, "body": ""}
            b = body.rstrip()
            if b.endswith("&"):
                curdir["body"] += b[:-1]
            else:
                curdir["body"] += b
                out.append(("dir:" + curdir["sent"], curdir["body"], []))
                curdir = None
            continue
        if curdir is not None:
            raise JoinError("continued directive not followed by its "
                            "continuation", lineno)
        s = raw.lstrip()
        if s.startswith("!"):
            if cur is not None:
                if cur["quote"]:
                    raise JoinError("comment line inside a continued "
                                    "character context", lineno)
                cur["comments"].append(s)     # legal between continuations
                continue
            if s.startswith("!& ") or s == "!&":
                if not out or out[-1][0] != "comment":
                    raise JoinError("comment continuation without a comment "
                                    "before it", lineno)
                k, c, cm = out[-1]
                out[-1] = (k, c + s[3:], cm)
            else:
                out.append(("comment", s, []))
            continue
        if not s:
            if cur is not None:
                continue      # blank lines are comment lines
            out.append(("blank", "", []))
            continue
        if cur is None:
            if s.startswith("&"):
                raise JoinError("line starts with '&' but the previous line "
                                "is not continued", lineno)
            body, comment, cont, q = scan_statement_line(raw, None)
            cur = {"body": body, "comments": [comment] if comment else [],
                   "quote": q}
            if q and comment:
                raise JoinError("internal: comment in char context", lineno)
        else:
            if s.startswith("&"):
                piece = s[1:]
            else:
                if cur["quote"]:
                    raise JoinError("character context continued on a line "
                                    "that does not start with '&'", lineno)
                piece = " " + raw      # token boundary
            body, comment, cont, q = scan_statement_line(piece, cur["quote"])
            cur["body"] += body
            cur["quote"] = q
            if comment:
                cur["comments"].append(comment)
        if not cont:
            if cur["quote"]:
                raise JoinError("unterminated character literal", lineno)
            out.append(("stmt", cur["body"], cur["comments"]))
            cur = None
        elif cur["quote"] and comment:
            raise JoinError("comment after '&' in character context", lineno)
    if cur is not None:
        raise JoinError("statement continued past end of text", lineno)
    if curdir is not None:
        raise JoinError("directive continued past end of text", lineno)
    return out


TOK = re.compile(r"""\s*(?:('(?:[^']|'')*'|"(?:[^"]|"")*")|
                      ([A-Za-z_][A-Za-z0-9_]*)|
                      (\d+\.?\d*(?:[edED][+-]?\d+)?(?:_\w+)?|\.\d+)|
                      (\*\*|//|==|/=|<=|>=|=>|::|\.[A-Za-z]+\.|.))""", re.X)


def tokens(s):
    out = []
    pos = 0
    s = s.rstrip()
    while pos < len(s):
        m = TOK.match(s, pos)
        if not m or m.end() == pos:
            break
        tok = m.group(1) or m.group(2) or m.group(3) or m.group(4)
        if tok and tok.strip():
            out.append(tok)
        pos = m.end()
    return out


def canon(ll):
    res = []
    for kind, content, comments in ll:
        if kind == "blank":
            continue
        if kind == "comment":
            res.append((kind, content.rstrip(), ()))
        else:
            res.append((kind, tuple(tokens(content)),
                        tuple(c.rstrip() for c in comments)))
    return res


# ---------------------------------------------------------------- generator
WORDS = ["alpha", "beta", "gamma", "delta", "field_proxy", "ncell_2d",
         "undf_w2", "map_w3", "nlayers", "x", "tmp_1", "basis_w1_qr",
         "diff_basis", "ndf_any_space_1", "istp", "zwx", "jpk", "cell",
         "weights_xy", "r_def", "i_def", "dofmap", "rhs", "u", "v", "idx"]


def ident(rnd):
    w = rnd.choice(WORDS)
    if rnd.random() < 0.3:
        w += "_" + rnd.choice(WORDS)
    if rnd.random() < 0.1:
        w += str(rnd.randint(0, 99))
    return w[:22]


def strlit(rnd):
    q = rnd.choice("'\"")
    parts = []
    for _ in range(rnd.randint(1, 7)):
        w = rnd.choice(["hello", "world", "a", "value of x", "it", "wrap me",
                        "semi;colon", "bang! here", "amp & sand", "co,mma",
                        "eq=", "1+2", "(paren)", "don" + q + q + "t",
                        "other" + ("'" if q == '"' else '"') + "quote"])
        parts.append(w)
    return q + " ".join(parts) + q


def expr(rnd, depth=0):
    r = rnd.random()
    if depth > 3 or r < 0.3:
        r2 = rnd.random()
        if r2 < 0.6:
            return ident(rnd)
        if r2 < 0.8:
            return rnd.choice(["1", "2.0", "3.5e-2", "1.0_r_def", "0.5d0",
                               "42_i_def"])
        return "%s(%s)" % (ident(rnd), ", ".join(
            expr(rnd, depth + 2) for _ in range(rnd.randint(1, 3))))
    if r < 0.75:
        op = rnd.choice([" + ", " - ", "*", "/", " ** ", "+", "-"])
        return expr(rnd, depth + 1) + op + expr(rnd, depth + 1)
    if r < 0.85:
        return "(" + expr(rnd, depth + 1) + ")"
    return "%s(%s)" % (rnd.choice(["max", "min", "abs", "real", "sum"]),
                       ", ".join(expr(rnd, depth + 1)
                                 for _ in range(rnd.randint(1, 3))))


def logical(rnd, depth=0):
    if depth > 2 or rnd.random() < 0.4:
        return expr(rnd, 2) + rnd.choice([" == ", " /= ", " >= ", " <= ",
                                          " > ", " < ", ">=", "=="]) + \
            expr(rnd, 2)
    return logical(rnd, depth + 1) + rnd.choice([" .and. ", " .or. "]) + \
        logical(rnd, depth + 1)


def comment_text(rnd):
    n = rnd.randint(3, 30)
    return "! " + " ".join(rnd.choice(
        ["this", "is", "a", "comment", "that", "may", "need", "wrapping,",
         "loop", "over", "cells.", "TODO", "#1234", "x = y", "call foo()",
         "don't", "\"quoted\"", "& amp"]) for _ in range(n))


def gen_line(rnd):
    """Returns (kind, text, has_trailing_comment)."""
    ind = " " * rnd.choice([0, 2, 4, 4, 6, 8, 10, 12, 12, 20, 28, 36, 44])
    r = rnd.random()
    if r < 0.22:
        t = ident(rnd)
        if rnd.random() < 0.4:
            t += "(%s)" % ", ".join(expr(rnd, 3)
                                    for _ in range(rnd.randint(1, 3)))
        line = ind + t + " = " + " + ".join(
            expr(rnd) for _ in range(rnd.randint(1, 5)))
        kind = "assign"
    elif r < 0.36:
        typ = rnd.choice(["integer", "real(kind=r_def)", "INTEGER(KIND=i_def)",
                          "real", "type(field_type)", "REAL(KIND=r_def)"])
        attrs = rnd.sample([", intent(in)", ", dimension(%s)" % ident(rnd),
                            ", pointer", ", allocatable", ", target"],
                           rnd.randint(0, 2))
        names = [ident(rnd) + (rnd.choice(["", "(:,:)", " => null()"]))
                 for _ in range(rnd.randint(1, 12))]
        line = ind + typ + "".join(attrs) + " :: " + ", ".join(names)
        kind = "decl"
    elif r < 0.50:
        args = [rnd.choice([expr(rnd, 2), strlit(rnd), ident(rnd),
                            ident(rnd) + "=" + ident(rnd)])
                for _ in range(rnd.randint(1, 14))]
        line = ind + rnd.choice(["call ", "CALL "]) + ident(rnd) + "(" + \
            rnd.choice([", ", ","]).join(args) + ")"
        kind = "call"
    elif r < 0.57:
        line = ind + rnd.choice(["use ", "USE "]) + ident(rnd) + \
            ", only: " + ", ".join(ident(rnd)
                                    for _ in range(rnd.randint(1, 14)))
        kind = "use"
    elif r < 0.70:
        sent = rnd.choice(["!$omp", "!$OMP", "!$acc", "!$ACC"])
        if sent.lower() == "!$omp":
            cl = [rnd.choice(["parallel do", "do", "parallel", "target",
                              "taskloop"])]
            for _ in range(rnd.randint(1, 4)):
                c = rnd.choice(["private", "firstprivate", "shared",
                                "reduction(+"])
                vs = rnd.choice([",", ", "]).join(
                    ident(rnd) for _ in range(rnd.randint(1, 9)))
                if c.startswith("reduction"):
                    cl.append("reduction(+:%s)" % vs)
                else:
                    cl.append("%s(%s)" % (c, vs))
            cl.append(rnd.choice(["default(shared)", "schedule(static)",
                                  "schedule(dynamic,4)", "collapse(2)"]))
        else:
            cl = [rnd.choice(["parallel", "kernels", "data", "enter data",
                              "loop", "update"])]
            for _ in range(rnd.randint(1, 4)):
                c = rnd.choice(["copyin", "copyout", "copy", "present",
                                "private", "device", "self"])
                vs = rnd.choice([",", ", "]).join(
                    ident(rnd) + rnd.choice(["", "%data", "(:,:)"])
                    for _ in range(rnd.randint(1, 9)))
                cl.append("%s(%s)" % (c, vs))
        line = ind + sent + " " + rnd.choice([" ", ", "]).join(cl)
        kind = "directive"
    elif r < 0.80:
        line = ind + comment_text(rnd)
        kind = "comment"
    elif r < 0.88:
        line = ind + rnd.choice(["if (", "IF (", "do while (",
                                 "else if ("]) + logical(rnd) + ")" + \
            rnd.choice([" then", " THEN", ""])
        kind = "control"
    elif r < 0.94:
        line = ind + rnd.choice(["write(*,*) ", "print *, ",
                                 "WRITE(6, '(A)') "]) + ", ".join(
            rnd.choice([strlit(rnd), expr(rnd, 2)])
            for _ in range(rnd.randint(1, 5)))
        kind = "io"
    else:
        line = ind + ident(rnd) + " = " + strlit(rnd) + " // " + strlit(rnd)
        kind = "strassign"
    trailing = False
    if kind not in ("comment", "directive") and rnd.random() < 0.18:
        line += " " + comment_text(rnd)
        trailing = True
    elif rnd.random() < 0.12:
        line += " " * rnd.randint(1, 12)        # trailing blanks
    return kind, line, trailing


def stmt_part_len(line):
    """Column where a trailing comment starts (len(line) if none)."""
    body, comment, _, _ = scan_statement_line(line, None)
    return len(line) - len(comment) if comment else len(line)


STAT = re.compile(r'^\s*(INTEGER|REAL|TYPE|CALL|SUBROUTINE|USE)', re.I)
KEYS = {"statement": ", ", "directive": " ,)=", "comment": " .,",
        "unknown": " ,=+)"}


KEYS = {"statement": ", ", "directive": " ,)=", "comment": " .,",
        "unknown": " ,=+)"}


def wrappable(line, limit):
    """The generator's guarantee, evaluated on the actual line: every run of
    characters that contains none of the limiter's documented break
    characters for this kind of line is short enough (limit - indent - 12)
    for *some* legal break to exist in every window.  Lines outside the
    guarantee are counted and a failure on them is not judged (but see the
    trailing-blank metamorphic monitor in check_text)."""
    if STAT.match(line):
        keys = KEYS["statement"]
    elif SENT.match(line):
        keys = KEYS["directive"]
    elif line.lstrip().startswith("!"):
        keys = KEYS["comment"]
    else:
        keys = KEYS["unknown"]
    indent = len(line) - len(line.lstrip())
    run = longest = 0
    for c in line[indent:]:
        if c in keys:
            run = 0
        else:
            run += 1
            longest = max(longest, run)
    return longest <= limit - indent - 12


def strip_trailing_comments(text):
    out = []
    for l in text.split("\n"):
        if l.lstrip().startswith("!"):
            out.append(l)
            continue
        p = stmt_part_len(l)
        out.append(l[:p].rstrip() if p < len(l) else l)
    return "\n".join(out)


def check_text(fll_cls, text, limit, part, meta, twin=False):
    """Run the real limiter on `text` and apply all monitors."""
    fll = fll_cls(line_length=limit)
    guaranteed = all(wrappable(l, limit) for l in text.split("\n")
                     if len(l) > limit)
    try:
        out = fll.process(text)
    except Exception as err:
        # metamorphic monitor: trailing blanks carry no meaning, so if the
        # limiter wraps the same text without them it was asked to wrap
        # wrappable text and must not fail on it
        stripped = "\n".join(l.rstrip() for l in text.split("\n"))
        if stripped != text:
            try:
                fll_cls(line_length=limit).process(stripped)
                part.violation({
                    "kind": "limiter_raised_only_with_trailing_blanks",
                    "limit": limit, "mechanism": None,
                    "what": "process() raised %s on %r but wraps the same "
                            "text without its trailing blanks" % (
                                type(err).__name__, text[:160]),
                    "text": text})
                return False
            except Exception:
                pass
        if not guaranteed:
            part.count("raised_outside_generator_guarantee")
            return False
        part.violation({"kind": "limiter_raised", "limit": limit,
                        "mechanism": None,
                        "what": "process() raised %s: %s on %r" % (
                            type(err).__name__, str(err)[:120], text[:200]),
                        "text": text})
        return False
    wrapped = out != text
    longest = max(len(l) for l in out.split("\n"))
    if longest > limit:
        bad = [l for l in out.split("\n") if len(l) > limit][0]
        part.violation({"kind": "line_longer_than_limit", "limit": limit,
                        "mechanism": None,
                        "what": "limit %d, output line of %d chars: %r" % (
                            limit, len(bad), bad), "text": text})
    # fact computed from the input alone: an over-long statement line carries
    # a trailing comment (the planted hazard 'trailing_comment')
    tc = False
    for l in text.split("\n"):
        if len(l) > limit and not l.lstrip().startswith("!"):
            if stmt_part_len(l) < len(l):
                tc = True
    try:
        want = canon(logical_lines(text))
    except JoinError as err:
        part.count("input_not_joinable")
        return wrapped
    bad = None
    try:
        got = canon(logical_lines(out))
        if want != got:
            k = 0
            while k < min(len(want), len(got)) and want[k] == got[k]:
                k += 1
            bad = {"kind": "logical_lines_differ",
                   "what": "limit %d: logical line %d differs: want %r got "
                           "%r" % (limit, k,
                                   want[k] if k < len(want) else None,
                                   got[k] if k < len(got) else None)}
    except JoinError as err:
        bad = {"kind": "output_not_valid_free_form",
               "what": "limit %d: %s at output line %d: %r" % (
                   limit, err.msg, err.lineno,
                   out.split("\n")[max(0, err.lineno - 1):err.lineno + 1])}
    if bad:
        mech = None
        if tc and not twin:
            # hazard-free twin: the same text without trailing comments must
            # pass, otherwise something else is wrong as well and the twin's
            # own violation is reported unclassified.
            sub = Part()
            check_text(fll_cls, strip_trailing_comments(text), limit, sub,
                       meta, twin=True)
            if not sub.d["violations"]:
                mech = "trailing_comment_split"
            else:
                for w in sub.d["violations"]:
                    part.violation(w)
            part.count("twins_run")
        bad.update({"limit": limit, "mechanism": mech, "text": text})
        part.violation(bad)
    try:
        again = fll.process(out)
        if again != out:
            part.violation({"kind": "not_idempotent", "limit": limit,
                            "mechanism": None,
                            "what": "process(process(x)) != process(x) "
                                    "(limit %d) for %r" % (limit, text[:200]),
                            "text": text})
    except Exception as err:
        part.violation({"kind": "limiter_raised_second_pass", "limit": limit,
                        "mechanism": None,
                        "what": "%s: %s" % (type(err).__name__, err),
                        "text": text})
    return wrapped


def check_rewrap(fll_cls, text, l1, l2, part):
    """Text already wrapped at limit l1 is wrapped again at the smaller
    limit l2 (continuation lines of directives / statements / comments are
    themselves inputs): still the same program, every line <= l2."""
    try:
        out1 = fll_cls(line_length=l1).process(text)
        want = canon(logical_lines(text))
        if canon(logical_lines(out1)) != want:
            return          # first pass already judged by check_text
    except Exception:
        return
    if all(len(l) <= l2 for l in out1.split("\n")):
        return
    tc = any(stmt_part_len(l) < len(l) for l in text.split("\n")
             if not l.lstrip().startswith("!"))
    if tc:
        return              # planted hazard: judged (with twin) elsewhere
    part.count("rewrap_chains")
    guaranteed = all(wrappable(l, l2) for l in out1.split("\n")
                     if len(l) > l2)
    try:
        out2 = fll_cls(line_length=l2).process(out1)
    except Exception as err:
        if guaranteed:
            part.violation({"kind": "limiter_raised_on_rewrap",
                            "mechanism": None,
                            "what": "re-wrap %d -> %d raised %s: %s" % (
                                l1, l2, type(err).__name__, str(err)[:100]),
                            "text": text})
        else:
            part.count("raised_outside_generator_guarantee")
        return
    long = [l for l in out2.split("\n") if len(l) > l2]
    if long:
        part.violation({"kind": "line_longer_than_limit_on_rewrap",
                        "mechanism": None,
                        "what": "re-wrap %d -> %d leaves a line of %d chars:"
                                " %r" % (l1, l2, len(long[0]), long[0]),
                        "text": text})
    try:
        got = canon(logical_lines(out2))
    except JoinError as err:
        part.violation({"kind": "rewrap_output_not_valid_free_form",
                        "mechanism": None,
                        "what": "re-wrap %d -> %d: %s at line %d: %r" % (
                            l1, l2, err.msg, err.lineno,
                            out2.split("\n")[max(0, err.lineno - 1):
                                              err.lineno + 1]),
                        "text": text})
        return
    if got != want:
        k = 0
        while k < min(len(want), len(got)) and want[k] == got[k]:
            k += 1
        part.violation({"kind": "rewrap_logical_lines_differ",
                        "mechanism": None,
                        "what": "re-wrap %d -> %d: logical line %d differs: "
                                "want %r got %r" % (
                                    l1, l2, k,
                                    want[k] if k < len(want) else None,
                                    got[k] if k < len(got) else None),
                        "text": text})


def batch(arg):
    import random
    from psyclone.line_length import FortLineLength
    part = Part()
    rnd = random.Random(arg["seed"])
    for n in range(arg["count"]):
        nlines = rnd.choice([1, 1, 1, 2, 3, 6])
        lines = []
        kinds = []
        for _ in range(nlines):
            k, l, tr = gen_line(rnd)
            lines.append(l)
            kinds.append(k + ("+tc" if tr else ""))
        text = "\n".join(lines)
        limits = [40, 132] + rnd.sample(range(41, 132), 3)
        l1 = rnd.choice([132, 120, 100, 80])
        check_rewrap(FortLineLength, text, l1, rnd.randint(40, l1 - 15), part)
        for limit in limits:
            wrapped = check_text(FortLineLength, text, limit, part,
                                 {"kinds": kinds})
            part.case(key=(text, limit) if wrapped else None,
                      nontrivial=wrapped,
                      sample={"limit": limit, "kinds": kinds,
                              "text": text[:300]} if wrapped and n < 2
                      else None)
            for k in kinds:
                if wrapped:
                    part.count("wrapped:" + k)
    return part


ANCHORS = [
    "      call subroutine_name(argument_one, argument_two, argument_three, "
    "argument_four, 'a string with spaces', argument_six)",
    "!$omp parallel do default(shared), private(cell, df, idx, tmp_1, "
    "tmp_2, tmp_3, loop_var), schedule(static)",
    "  ! this is a very long comment line that certainly needs to be wrapped "
    "by the line length limiter, twice probably",
    "  x = alpha + beta*gamma(i, j) - delta / field_proxy(map_w3(1, cell)) + "
    "undf_w2 ** 2 + another_long_name",
]


def main(ctx):
    ctx.rule = ("random free-form texts (1-6 lines: assignments, "
                "declarations, calls with string arguments, USE, OpenMP/"
                "OpenACC directives, comments, control, I/O; 18% with a "
                "trailing comment) x limits {40,132,+3 random}; a case is "
                "non-trivial when the limiter changed the text; distinct by "
                "(text, limit)")
    from psyclone.line_length import FortLineLength
    p0 = Part()
    for a in ANCHORS:
        for limit in (40, 60, 80, 100, 132):
            w = check_text(FortLineLength, a, limit, p0, {})
            p0.case(key=(a, limit) if w else None, nontrivial=w)
    ctx.merge(p0.to_json())
    nb = 32 if ctx.quick else 160
    cnt = 150 if ctx.quick else 800
    jobs = [{"seed": ctx.rng("b", i).random(), "count": cnt}
            for i in range(nb)]
    for res in ctx.pmap("vf.checks.c18", "batch", jobs, timeout=1200):
        if res:
            ctx.merge(res)
    ctx.assumptions += [
        "the generator keeps every run of characters without a possible "
        "break point shorter than 40-12-4, so a correct wrapper can always "
        "wrap; lines are free-form without tabs",
        "my joiner implements F2008 3.3.2.4 continuation incl. character "
        "context and the OpenMP/OpenACC '!$omp&' sentinel form; comment "
        "continuation is PSyclone's '!& ' convention"]
