"""C02 Written expressions keep the operation order of the PSyIR tree.

Monitors on the real FortranWriter / FortranReader:
 (a) the written text is accepted by gfortran -std=f2008 -pedantic-errors and
     by PSyclone's own reader,
 (b) reading the text back gives a tree == the original (trees are built in
     reader-normal form: unsigned literals, no redundant nodes),
 (c) the value gfortran computes for the text equals the value of the tree
     under my exact evaluator.
Trees are enumerated exhaustively to depth 3 over a small alphabet and sampled
beyond.
"""
import itertools
import os
import random
import tempfile
from fractions import Fraction

from vf import fx
from vf.core import Part

PROPERTY = "C02"
LEVEL = "exploration"

NUM_BIN = ["ADD", "SUB", "MUL", "DIV", "POW"]
REL_BIN = ["EQ", "NE", "GT", "LT", "GE", "LE"]
LOG_BIN = ["AND", "OR", "EQV", "NEQV"]
LEAVES = ["a", "b", "2", "i", "3.0", "arr", "0.5n"]
VALUES = {"a": Fraction(3), "b": Fraction(-2), "i": 5, "arr": Fraction(4)}


# A tiny tree language of my own: ("leaf", name) ("un", OP, t) ("bin", OP, l, r)
def enum_numeric(depth, leaves):
    if depth == 1:
        return [("leaf", l) for l in leaves]
    smaller = enum_numeric(depth - 1, leaves)
    out = list(smaller)
    for t in smaller:
        out.append(("un", "MINUS", t))
        out.append(("un", "PLUS", t))
    for op in NUM_BIN:
        for l in smaller:
            for r in smaller:
                out.append(("bin", op, l, r))
    # unique
    return list(dict.fromkeys(out))


def rand_tree(rnd, depth, kind="num"):
    if kind == "num":
        if depth <= 1 or rnd.random() < 0.25:
            return ("leaf", rnd.choice(LEAVES))
        x = rnd.random()
        if x < 0.22:
            return ("un", rnd.choice(["MINUS", "MINUS", "PLUS"]),
                    rand_tree(rnd, depth - 1))
        if x < 0.3:
            l, r = rand_tree(rnd, depth - 1), rand_tree(rnd, depth - 1)
            if is_int_tree(l) != is_int_tree(r):
                return ("bin", "ADD", l, r)     # keep intrinsics well typed
            return ("call", rnd.choice(["ABS", "MAX", "MIN", "SIGN"]), l, r)
        return ("bin", rnd.choice(NUM_BIN), rand_tree(rnd, depth - 1),
                rand_tree(rnd, depth - 1))
    # logical
    if depth <= 1 or rnd.random() < 0.3:
        return ("bin", rnd.choice(REL_BIN), rand_tree(rnd, max(1, depth - 1)),
                rand_tree(rnd, max(1, depth - 1)))
    x = rnd.random()
    if x < 0.25:
        return ("un", "NOT", rand_tree(rnd, depth - 1, "log"))
    if x < 0.35:
        return ("leaf", rnd.choice([".true.", ".false.", "flag"]))
    return ("bin", rnd.choice(LOG_BIN), rand_tree(rnd, depth - 1, "log"),
            rand_tree(rnd, depth - 1, "log"))


def is_int_tree(t):
    """Integer-typed iff all leaves are integer."""
    if t[0] == "leaf":
        return t[1] in ("2", "i")
    if t[0] == "un":
        return is_int_tree(t[2])
    if t[0] == "call":
        return is_int_tree(t[2]) and is_int_tree(t[3])
    return is_int_tree(t[2]) and is_int_tree(t[3])


class Undefined(Exception):
    pass


def tdiv(a, b):
    if b == 0:
        raise Undefined()
    q = abs(a) // abs(b)
    return q if (a >= 0) == (b >= 0) else -q


def ev(t):
    """Exact value of a tree: int for integer trees, Fraction for real,
    bool for logical.  Undefined where Fortran leaves it undefined or where
    exactness would be lost."""
    k = t[0]
    if k == "leaf":
        n = t[1]
        if n == "2":
            return 2
        if n == "3.0":
            return Fraction(3)
        if n in ("0.5n", "0.5e"):
            return Fraction(1, 2)
        if n == ".true.":
            return True
        if n in (".false.", "flag"):
            return False if n == ".false." else True
        return VALUES[n]
    if k == "un":
        v = ev(t[2])
        if t[1] == "MINUS":
            return -v
        if t[1] == "PLUS":
            return v
        return not v
    if k == "call":
        a, b = ev(t[2]), ev(t[3])
        isint = isinstance(a, int) and isinstance(b, int)
        if not isint:
            a, b = Fraction(a), Fraction(b)
        if t[1] == "ABS":
            return abs(a)
        if t[1] == "MAX":
            return max(a, b)
        if t[1] == "MIN":
            return min(a, b)
        if b == 0 and not isint:
            raise Undefined()     # sign of a real zero (-0.0) not modelled
        return abs(a) if b >= 0 else -abs(a)
    op = t[1]
    a, b = ev(t[2]), ev(t[3])
    if op in LOG_BIN:
        if op == "AND":
            return a and b
        if op == "OR":
            return a or b
        if op == "EQV":
            return a == b
        return a != b
    isint = isinstance(a, int) and isinstance(b, int) and \
        not isinstance(a, bool)
    if not isint:
        fa, fb = Fraction(a), Fraction(b)
    if op in REL_BIN:
        x, y = (a, b) if isint else (fa, fb)
        return {"EQ": x == y, "NE": x != y, "GT": x > y, "LT": x < y,
                "GE": x >= y, "LE": x <= y}[op]
    if op == "ADD":
        r = a + b if isint else fa + fb
    elif op == "SUB":
        r = a - b if isint else fa - fb
    elif op == "MUL":
        r = a * b if isint else fa * fb
    elif op == "DIV":
        if isint:
            r = tdiv(a, b)
        else:
            if fb == 0:
                raise Undefined()
            r = fa / fb
            # keep to dyadic rationals so the double result is exact
            d = r.denominator
            if d & (d - 1):
                raise Undefined()
    else:
        # exponent must be a small integer (value), base non-zero for neg.
        e = b if isint else fb
        if isinstance(e, Fraction):
            if e.denominator != 1:
                raise Undefined()
            # real exponent: gfortran uses pow(); exact only for small ints
            e = int(e)
        if abs(e) > 6:
            raise Undefined()
        base = a if isint else fa
        if e < 0:
            if base == 0:
                raise Undefined()
            if isint and isinstance(b, int):
                r = tdiv(1, base ** (-e))
            else:
                r = Fraction(1) / (Fraction(base) ** (-e))
                d = r.denominator
                if d & (d - 1):
                    raise Undefined()
        else:
            if not isinstance(b, int) and base < 0:
                raise Undefined()      # negative real ** real: invalid
            r = base ** e
    if abs(r) > 2 ** 30:
        raise Undefined()
    if isinstance(r, Fraction) and r.denominator > 2 ** 20:
        raise Undefined()
    return r


# ------------------------------------------------------- PSyIR construction
_ST = {}


def symtab():
    if "t" not in _ST:
        from psyclone.psyir.symbols import (SymbolTable, DataSymbol,
                                            INTEGER_TYPE, ArrayType,
                                            BOOLEAN_TYPE, ScalarType)
        dbl = ScalarType(ScalarType.Intrinsic.REAL,
                         ScalarType.Precision.DOUBLE)
        st = SymbolTable()
        st.add(DataSymbol("a", dbl))
        st.add(DataSymbol("b", dbl))
        st.add(DataSymbol("i", INTEGER_TYPE))
        st.add(DataSymbol("flag", BOOLEAN_TYPE))
        st.add(DataSymbol("arr", ArrayType(dbl, [10])))
        _ST["t"] = st
        _ST["dbl"] = dbl
    return _ST["t"]


def build(t, normal=False):
    """normal=True builds the reader-normal form (real literals carry an
    exponent); otherwise literals are as an API user may create them."""
    from psyclone.psyir.nodes import (Reference, Literal, BinaryOperation,
                                      UnaryOperation, ArrayReference,
                                      IntrinsicCall)
    from psyclone.psyir.symbols import INTEGER_TYPE, BOOLEAN_TYPE
    st = symtab()
    k = t[0]
    if k == "leaf":
        n = t[1]
        if n == "2":
            return Literal("2", INTEGER_TYPE)
        if n == "3.0":
            return Literal("3.0e0", _ST["dbl"])
        if n == "0.5n":
            return Literal("0.5e0" if normal else "0.5", _ST["dbl"])
        if n == "0.5e":
            return Literal("0.5e0", _ST["dbl"])
        if n == ".true.":
            return Literal("true", BOOLEAN_TYPE)
        if n == ".false.":
            return Literal("false", BOOLEAN_TYPE)
        if n == "arr":
            return ArrayReference.create(st.lookup("arr"),
                                         [Literal("2", INTEGER_TYPE)])
        return Reference(st.lookup(n))
    if k == "un":
        return UnaryOperation.create(
            getattr(UnaryOperation.Operator, t[1]), build(t[2], normal))
    if k == "call":
        return IntrinsicCall.create(
            getattr(IntrinsicCall.Intrinsic, t[1]),
            [build(t[2], normal)] if t[1] == "ABS"
            else [build(t[2], normal), build(t[3], normal)])
    return BinaryOperation.create(
        getattr(BinaryOperation.Operator, t[1]), build(t[2], normal),
        build(t[3], normal))


def ev_kind(t):
    """A representative value type: True for logical trees, else 0."""
    if t[0] == "leaf":
        return True if t[1] in (".true.", ".false.", "flag") else 0
    if t[0] == "un":
        return True if t[1] == "NOT" else 0
    if t[0] == "bin":
        return True if t[1] in REL_BIN + LOG_BIN else 0
    return 0


def show(t):
    k = t[0]
    if k == "leaf":
        return t[1]
    if k == "un":
        return "%s[%s]" % (t[1], show(t[2]))
    if k == "call":
        return "%s(%s, %s)" % (t[1], show(t[2]), show(t[3]))
    return "%s[%s, %s]" % (t[1], show(t[2]), show(t[3]))


def facts(t, parent=None, side=None, out=None):
    """Mechanism facts of the tree itself (independent of the writer)."""
    if out is None:
        out = set()
    k = t[0]
    if k == "leaf" and t[1] == "0.5n":
        out.add("double_literal_without_exponent")
    if k == "un" and t[1] in ("MINUS", "PLUS"):
        if parent is not None and parent[0] == "bin" and side == 0 and (
                parent[1] in ("MUL", "DIV") or
                (parent[1] == "POW" and t[1] == "PLUS")):
            out.add("unary_left_of_higher_precedence_op")
        facts(t[2], t, 0, out)
    elif k == "un":
        facts(t[2], t, 0, out)
    elif k == "call":
        facts(t[2], t, 0, out)
        facts(t[3], t, 1, out)
    elif k == "bin":
        facts(t[2], t, 0, out)
        facts(t[3], t, 1, out)
    return out


def twin(t, parent=None, side=None):
    """Hazard-free twin: the unary operators that are the left operand of a
    higher-precedence operator are dropped."""
    k = t[0]
    if k == "leaf":
        return ("leaf", "0.5e") if t[1] == "0.5n" else t
    if k == "un":
        inner = twin(t[2], t, 0)
        if t[1] in ("MINUS", "PLUS") and parent is not None and \
                parent[0] == "bin" and side == 0 and (
                    parent[1] in ("MUL", "DIV") or
                    (parent[1] == "POW" and t[1] == "PLUS")):
            # drop the whole chain of unary +/- at this position
            x = t[2]
            while x[0] == "un" and x[1] in ("MINUS", "PLUS"):
                x = x[2]
            return twin(x, parent, side)
        return ("un", t[1], inner)
    if k == "call":
        return ("call", t[1], twin(t[2], t, 0), twin(t[3], t, 1))
    return ("bin", t[1], twin(t[2], t, 0), twin(t[3], t, 1))


def fortran_value_text(v):
    if isinstance(v, bool):
        return "T" if v else "F"
    if isinstance(v, int):
        return str(v)
    return "%.17g" % float(v)


def batch(arg):
    from psyclone.psyir.backend.fortran import FortranWriter
    from psyclone.psyir.frontend.fortran import FortranReader
    part = Part()
    rnd = random.Random(arg["seed"])
    fw = FortranWriter()
    fr = FortranReader()
    st = symtab()
    if arg["mode"] == "enum":
        trees = enum_numeric(arg["depth"], arg["leaves"])
        trees = trees[arg["lo"]:arg["hi"]]
    elif arg["mode"] == "spine":
        trees = enum_spines()[arg["lo"]:arg["hi"]]
    else:
        trees = []
        for _ in range(arg["count"]):
            kind = "log" if rnd.random() < 0.3 else "num"
            trees.append(rand_tree(rnd, rnd.randint(2, arg["depth"]), kind))
    cases = []      # (tree, text, value) for the compiled oracle
    for t in trees:
        try:
            node = build(t)
            # give the expression a parent so that it is written as an
            # expression (a parentless IntrinsicCall is written as a CALL)
            from psyclone.psyir.nodes import Assignment, Reference
            logical = isinstance(ev_kind(t), bool)
            lhs = Reference(st.lookup("flag" if logical else "a"))
            Assignment.create(lhs, node)
        except Exception as err:
            part.count("build_refused:" + type(err).__name__)
            continue
        try:
            text = fw(node)
        except Exception as err:
            part.violation({"kind": "writer_raised", "mechanism": None,
                            "what": "%s -> %s: %s" % (show(t),
                                                      type(err).__name__, err),
                            "tree": show(t)})
            continue
        part.count("trees_written")
        fcts = sorted(facts(t))
        if len(fcts) > 1:
            part.count("two_planted_hazards_skipped")
            continue
        # (b) read back
        try:
            back = fr.psyir_from_expression(text, st.shallow_copy())
            readable = True
        except Exception as err:
            readable = False
            part.violation({"kind": "written_text_not_readable",
                            "mechanism": None,
                            "what": "tree %s written as '%s': %s" % (
                                show(t), text, str(err)[:150]),
                            "tree": show(t), "text": text,
                            "dedupe": show(t)[:60]})
        if readable:
            part.count("trees_read_back")
            norm = build(t, normal=True)
            if back != norm:
                mech = None
                if fcts:
                    # the hazard-free twin must round-trip structurally
                    tw = twin(t)
                    try:
                        twn = build(tw, normal=True)
                        Assignment.create(Reference(st.lookup(
                            "flag" if logical else "a")), twn)
                        twback = fr.psyir_from_expression(
                            fw(twn), st.shallow_copy())
                        if twback == build(tw, normal=True):
                            mech = fcts[0]
                    except Exception:
                        pass
                    part.count("twins_run")
                part.violation({"kind": "readback_tree_differs",
                                "mechanism": mech, "facts": fcts,
                                "what": "tree %s written as '%s' reads back "
                                        "as a different tree" % (show(t),
                                                                 text),
                                "tree": show(t), "text": text,
                                "dedupe": (show(t)[:80])})
        # (c) value
        try:
            val = ev(t)
            if arg["mode"] == "rand" or not arg.get("value_sample") or \
                    (hash(show(t)) % arg["value_sample"]) == 0:
                cases.append((t, text, val))
        except Undefined:
            part.count("value_undefined_skipped")
        except (ZeroDivisionError, OverflowError):
            part.count("value_undefined_skipped")
        part.case(key=show(t), nontrivial=t[0] != "leaf",
                  sample={"tree": show(t), "text": text}
                  if len(part.d["samples"]) < 2 and t[0] != "leaf" else None)
    compiled_oracle(cases, part)
    return part


def compiled_oracle(cases, part):
    """(a)+(c): gfortran -std=f2008 -pedantic-errors accepts every written
    expression and computes the tree's value."""
    if not cases:
        return
    wd = tempfile.mkdtemp(prefix="vf_c02_")
    try:
        def solve(chunk):
            if run_chunk(wd, chunk, part, single=len(chunk) == 1):
                return
            if len(chunk) == 1:
                return
            mid = len(chunk) // 2
            solve(chunk[:mid])
            solve(chunk[mid:])
        for lo in range(0, len(cases), 120):
            solve(cases[lo:lo + 120])
    finally:
        import shutil
        shutil.rmtree(wd, ignore_errors=True)


def hazard_mechanism(t, wd, part):
    """For the compiled oracles: the planted hazard of the tree, provided
    its hazard-free twin is accepted by gfortran and has the right value."""
    from psyclone.psyir.backend.fortran import FortranWriter
    from psyclone.psyir.nodes import Assignment, Reference
    f = sorted(facts(t))
    if len(f) != 1:
        return None
    tw = twin(t)
    try:
        node = build(tw, normal=True)
        logical = isinstance(ev_kind(tw), bool)
        Assignment.create(Reference(symtab().lookup(
            "flag" if logical else "a")), node)
        text = FortranWriter()(node)
        val = ev(tw)
    except Exception:
        return None
    sub = __import__("vf.core", fromlist=["Part"]).Part()
    ok = run_chunk(wd, [(tw, text, val)], sub, single=True)
    part.count("twins_compiled")
    if ok and not sub.d["violations"]:
        return f[0]
    return None


def run_chunk(wd, chunk, part, single=False):
    lines = ["program p", "  implicit none",
             "  double precision :: a, b, arr(10), r", "  integer :: i, k",
             "  logical :: flag, l", "  a = 3.0d0", "  b = -2.0d0", "  i = 5",
             "  arr = 4.0d0", "  flag = .true."]
    for t, text, val in chunk:
        if isinstance(val, bool):
            lines.append("  l = " + text)
            lines.append("  write(*,'(L1)') l")
        elif isinstance(val, int):
            lines.append("  k = " + text)
            lines.append("  write(*,'(I0)') k")
        else:
            lines.append("  r = " + text)
            lines.append("  write(*,'(ES25.17E3)') r")
    lines.append("end program p")
    src = "\n".join(lines) + "\n"
    ok, err = fx.compile_f(wd, [("e.f90", src)], flags=[
        "-O0", "-std=f2008", "-pedantic-errors", "-fimplicit-none",
        "-ffree-line-length-none", "-fno-range-check"])
    if not ok:
        if single:
            t, text, val = chunk[0]
            part.violation({"kind": "written_text_rejected_by_gfortran",
                            "mechanism": hazard_mechanism(t, wd, part),
                            "what": "tree %s written as '%s': %s" % (
                                show(t), text, err.strip()[-200:]),
                            "tree": show(t), "text": text,
                            "dedupe": show(t)[:60]})
        return False
    rc, out, serr = fx.run_exe(wd)
    got = out.split()
    if rc != 0 or len(got) != len(chunk):
        if single:
            part.count("value_run_failed_skipped")
            return True
        return False
    for (t, text, val), g in zip(chunk, got):
        part.count("values_compared")
        if isinstance(val, bool):
            same = (g == "T") == val
        elif isinstance(val, int):
            same = int(g) == val
        else:
            same = Fraction(float(g)) == Fraction(val)
        if not same:
            part.violation({"kind": "written_text_has_different_value",
                            "mechanism": hazard_mechanism(t, wd, part),
                            "what": "tree %s = %s but '%s' evaluates to %s"
                                    % (show(t), fortran_value_text(val), text,
                                       g),
                            "tree": show(t), "text": text,
                            "dedupe": show(t)[:60]})
    return True


def enum_spines():
    """Left-nested operator chains of length 2..3 whose left-most leaf carries
    a unary operator, in every context (right / left operand of a binary
    operator, operand of a unary operator, top level): depth 4-6 trees that
    the depth-3 enumeration cannot reach."""
    leaves = [("leaf", "b"), ("leaf", "a"), ("leaf", "2"), ("leaf", "a")]
    out = []
    import itertools
    for n in (2, 3):
        for ops in itertools.product(NUM_BIN, repeat=n):
            for un in ("MINUS", "PLUS", None):
                t = leaves[0] if un is None else ("un", un, leaves[0])
                for k, op in enumerate(ops):
                    t = ("bin", op, t, leaves[1 + k % 3])
                out.append(t)
                for ctx_op in NUM_BIN:
                    out.append(("bin", ctx_op, ("leaf", "a"), t))
                    out.append(("bin", ctx_op, t, ("leaf", "a")))
                out.append(("un", "MINUS", t))
                out.append(("un", "PLUS", t))
    return list(dict.fromkeys(out))


def main(ctx):
    ctx.rule = ("numeric trees over {+,-,*,/,**, unary -,+} enumerated "
                "exhaustively to depth 3 over leaves {a, 2, b} (quick) / "
                "{a, b, 2, i} (thorough), 5475 left-nested operator chains of length 2-3 with a unary left-most leaf in every context (depth 4-6), plus random trees to depth 5/6 "
                "with relational and logical operators, intrinsic calls, "
                "array and integer operands; a case is non-trivial if it is "
                "not a bare leaf; distinct by tree")
    leaves = ["a", "2", "b"] if ctx.quick else ["a", "b", "2", "i"]
    total = len(enum_numeric(3, leaves))
    ctx.extra["enumerated_trees"] = total
    ctx.extra["exhaustive"] = True
    ctx.extra["exhaustive_bound"] = "depth 3 numeric trees over %s" % leaves
    jobs = []
    chunk = max(1, total // 40)
    for lo in range(0, total, chunk):
        jobs.append({"mode": "enum", "depth": 3, "leaves": leaves, "lo": lo,
                     "hi": min(total, lo + chunk), "seed": 0,
                     "value_sample": 5 if ctx.quick else 0})
    nsp = len(enum_spines())
    ctx.extra["enumerated_spines"] = nsp
    for lo in range(0, nsp, 400):
        jobs.append({"mode": "spine", "lo": lo, "hi": min(nsp, lo + 400),
                     "seed": 0, "value_sample": 5 if ctx.quick else 0})
    nb = 24 if ctx.quick else 160
    for i in range(nb):
        jobs.append({"mode": "rand", "count": 160 if ctx.quick else 1500,
                     "depth": 5 if ctx.quick else 6,
                     "seed": ctx.rng("r", i).random()})
    for res in ctx.pmap("vf.checks.c02", "batch", jobs, timeout=3000):
        if res:
            ctx.merge(res)
    if ctx.counters.get("trees_read_back", 0) == 0:
        ctx.inconclusive("no tree was read back")
    ctx.assumptions += [
        "trees are built in reader-normal form (unsigned literals); "
        "structural equality is PSyIR's own Node.__eq__",
        "values: a=3, b=-2, i=5, arr(2)=4; expressions whose exact value is "
        "undefined or not a dyadic rational are not value-checked"]
