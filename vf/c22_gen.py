"""C22 workload: generated LFRic kernels (metadata family access x function
space x stencil) and algorithm files that chain them, with built-ins, over a
small pool of fields so that producer/consumer chains arise."""
import os

# field pool: name -> (true function space, vector size)
FIELDS = {
    "a0": ("w0", 1), "b0": ("w0", 1), "c0": ("w0", 1),
    "a1": ("w1", 1), "b1": ("w1", 1),
    "a2": ("w2", 1), "b2": ("w2", 1), "c2": ("w2", 1),
    "a3": ("w3", 1), "b3": ("w3", 1), "c3": ("w3", 1),
    "at": ("wtheta", 1), "bt": ("wtheta", 1),
    "av": ("w2v", 1), "bv": ("w2v", 1),
    "v0": ("w0", 3), "v3": ("w3", 3),
}
DISC = ("w3", "wtheta", "w2v")

WRITERS = [
    ("gh_write", "w3"), ("gh_write", "wtheta"), ("gh_readwrite", "w3"),
    ("gh_readwrite", "w2v"), ("gh_inc", "w0"), ("gh_inc", "w1"),
    ("gh_inc", "w2"), ("gh_readinc", "w0"), ("gh_readinc", "w2"),
    ("gh_write", "w0"), ("gh_write", "w2"), ("gh_inc", "any_space_1"),
    ("gh_readinc", "any_space_1"),
    ("gh_write", "any_discontinuous_space_1"),
    ("gh_readwrite", "any_discontinuous_space_1"),
    ("gh_write", "any_space_1"),
]
READ_SPACES = ["w0", "w1", "w2", "w3", "wtheta", "w2v", "any_space_2",
               "any_discontinuous_space_2", "any_w2"]
STENCILS = [None, None, None, "cross", "region", "x1d", "y1d", "cross2d",
            "xory1d"]


def accepts(meta_space, true_space):
    if meta_space == true_space:
        return True
    if meta_space.startswith("any_space_"):
        return True
    if meta_space.startswith("any_discontinuous_space_"):
        return true_space in DISC
    if meta_space == "any_w2":
        return true_space == "w2"
    return False


def kernel_name(spec):
    parts = []
    for acc, space, vec, st in spec:
        s = "%s_%s" % (acc[3:], space.replace("any_discontinuous_space_",
                                              "adspc").replace(
            "any_space_", "aspc"))
        if vec > 1:
            s += "v%d" % vec
        if st:
            s += "_" + st
        parts.append(s)
    return "k_" + "__".join(parts)


def kernel_source(spec):
    name = kernel_name(spec)
    args = []
    for acc, space, vec, st in spec:
        a = "gh_field" + ("*%d" % vec if vec > 1 else "")
        txt = "arg_type(%s, gh_real, %s, %s" % (a, acc, space)
        if st:
            txt += ", stencil(%s)" % st
        args.append(txt + ")")
    meta = ", &\n          ".join(args)
    return """module %(n)s_mod
  use argument_mod
  use fs_continuity_mod
  use kernel_mod
  use constants_mod
  implicit none
  type, extends(kernel_type) :: %(n)s_type
     type(arg_type), dimension(%(k)d) :: meta_args = (/ &
          %(meta)s &
          /)
     integer :: operates_on = cell_column
   contains
     procedure, nopass :: code => %(n)s_code
  end type %(n)s_type
contains
  subroutine %(n)s_code()
  end subroutine %(n)s_code
end module %(n)s_mod
""" % {"n": name, "k": len(spec), "meta": meta}


def write_kernels(kdir):
    os.makedirs(kdir, exist_ok=True)


def _ensure_kernel(kdir, spec):
    name = kernel_name(spec)
    path = os.path.join(kdir, name + "_mod.f90")
    if not os.path.exists(path):
        with open(path, "w") as fh:
            fh.write(kernel_source(spec))
    return name


BUILTINS = [
    # (text template, written index list, number of fields)
    ("setval_c(%s, 0.0_r_def)", 1),
    ("setval_x(%s, %s)", 2),
    ("x_plus_y(%s, %s, %s)", 3),
    ("inc_x_plus_y(%s, %s)", 2),
    ("a_times_x(%s, a, %s)", 2),
    ("inc_a_times_x(a, %s)", 1),
    ("inc_ax_plus_y(a, %s, %s)", 2),
    ("x_times_y(%s, %s, %s)", 3),
    ("x_innerproduct_y(asum, %s, %s)", 2),
    ("sum_x(asum, %s)", 1),
]


def algorithm(rnd, name, kdir):
    """Text of an algorithm program with 1-2 invokes of 1-4 calls each.
    Needed kernel modules are written into kdir."""
    uses = set()
    invokes = []
    hot = []          # recently written fields: preferred for later reads

    def pick_field(meta_space, vec, prefer=True):
        cands = [f for f, (sp, v) in FIELDS.items()
                 if v == vec and accepts(meta_space, sp)]
        if not cands:
            return None
        pref = [f for f in cands if f in hot]
        if pref and prefer and rnd.random() < 0.75:
            return rnd.choice(pref)
        return rnd.choice(cands)

    def components(f):
        return f

    for _ in range(rnd.choice([1, 1, 2])):
        calls = []
        for _ in range(rnd.randint(1, 4)):
            if rnd.random() < 0.3:
                tmpl, nf = rnd.choice(BUILTINS)
                # built-in arguments share one function space, non-vector
                sp = rnd.choice(sorted(set(
                    s for s, v in FIELDS.values() if v == 1)))
                pool = [f for f, (s, v) in FIELDS.items()
                        if s == sp and v == 1]
                if nf > len(pool):
                    continue
                fs = []
                for i in range(nf):
                    left = [f for f in pool if f not in fs]
                    pref = [f for f in left if f in hot]
                    if i > 0 and pref and rnd.random() < 0.7:
                        fs.append(rnd.choice(pref))
                    else:
                        fs.append(rnd.choice(left))
                calls.append(tmpl % tuple(fs))
                if "innerproduct" not in tmpl and "sum_x" not in tmpl:
                    hot.append(fs[0])
                continue
            for _try in range(20):
                acc, wspace = rnd.choice(WRITERS)
                vec = 3 if rnd.random() < 0.12 else 1
                wf = pick_field(wspace, vec, prefer=rnd.random() < 0.4)
                if wf is None:
                    continue
                spec = [(acc, wspace, vec, None)]
                actual = [wf]
                ok = True
                for r in range(rnd.choice([0, 1, 1, 2])):
                    rspace = rnd.choice(READ_SPACES)
                    rvec = 3 if rnd.random() < 0.1 else 1
                    st = rnd.choice(STENCILS)
                    rf = pick_field(rspace, rvec)
                    if rf is None or rf in (wf,) + tuple(
                            a.split(",")[0] for a in actual):
                        ok = False
                        break
                    spec.append(("gh_read", rspace, rvec, st))
                    a = rf
                    if st:
                        a += ", " + rnd.choice(["1", "2", "1", "ext1",
                                                "ext2"])
                        if st == "xory1d":
                            a += ", x_direction"
                    actual.append(a)
                if not ok:
                    continue
                kname = _ensure_kernel(kdir, spec)
                uses.add(kname)
                calls.append("%s_type(%s)" % (kname, ", ".join(actual)))
                hot.append(wf)
                break
        if calls:
            invokes.append(calls)
    if not invokes:
        invokes = [["setval_c(a0, 0.0_r_def)"]]
    decl = []
    for f, (sp, v) in sorted(FIELDS.items()):
        decl.append("  type(field_type) :: %s%s" % (f, "(%d)" % v
                                                    if v > 1 else ""))
    lines = ["program %s" % name,
             "  use constants_mod, only: r_def, i_def",
             "  use field_mod, only: field_type",
             "  use flux_direction_mod, only: x_direction"]
    for k in sorted(uses):
        lines.append("  use %s_mod, only: %s_type" % (k, k))
    lines.append("  implicit none")
    lines += decl
    lines.append("  integer(i_def) :: ext1 = 1, ext2 = 2")
    lines.append("  real(r_def) :: a, asum")
    for calls in invokes:
        lines.append("  call invoke( &")
        lines.append(", &\n".join("       " + c for c in calls) + " )")
    lines.append("end program %s" % name)
    return "\n".join(lines) + "\n"
