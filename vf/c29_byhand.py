"""Stand-alone reproduction of the C29 finding `single.read_before_write`
with the *unmodified* psyclone CLI (no proxies, no sitecustomize).

    /venv/bin/python /verif/vf/c29_byhand.py

Run A is SIGSTOPped as soon as the file it created with O_CREAT|O_EXCL shows
up in the kernel output directory (it is still empty: rename_and_write
creates the file first and writes it only after the PSyIR has been renamed
and printed).  Run B, which applies the same transformation, then runs to
completion with --kernel-renaming single, and A is resumed afterwards.

Expected by the property: both succeed and share testkern_0_mod.f90.
Observed on the pinned tree: B exits 1 with "GenerationError: A transformed
version of this Kernel ... already exists ... but is not the same".
Exit status of this script: 1 if the defect shows, 0 if B succeeded,
2 if the race to stop A was lost (file already written; try again).
"""
import os
import shutil
import signal
import subprocess
import sys
import tempfile

TFILES = "/repo/src/psyclone/tests/test_files/dynamo0p3"
SCRIPT = '''\
from psyclone.psyGen import CodedKern
from psyclone.transformations import ACCRoutineTrans


def trans(psy):
    for kern in psy.invokes.invoke_list[0].schedule.walk(CodedKern):
        ACCRoutineTrans().apply(kern)
    return psy
'''


def main():
    base = tempfile.mkdtemp(prefix="c29_byhand_")
    try:
        out = os.path.join(base, "kern")
        os.makedirs(out)
        script = os.path.join(base, "c29_byhand_script.py")
        with open(script, "w") as fh:
            fh.write(SCRIPT)
        env = {k: v for k, v in os.environ.items()
               if k in ("PATH", "HOME", "LANG")}
        env["PSYCLONE_CONFIG"] = "/repo/config/psyclone.cfg"
        env["PYTHONDONTWRITEBYTECODE"] = "1"

        def cmd(tag):
            return ["/venv/bin/psyclone", "-api", "lfric", "-d", TFILES,
                    "-s", script, "-okern", out, "--kernel-renaming",
                    "single", "-opsy", os.path.join(base, tag + "_psy.f90"),
                    "-oalg", "/dev/null",
                    os.path.join(TFILES, "1_single_invoke.f90")]
        kfile = os.path.join(out, "testkern_0_mod.f90")
        run_a = subprocess.Popen(cmd("a"), env=env, cwd=base)
        while not os.path.exists(kfile) and run_a.poll() is None:
            pass
        os.kill(run_a.pid, signal.SIGSTOP)
        size = os.path.getsize(kfile)
        print("A stopped after its O_EXCL create; file size = %d" % size)
        run_b = subprocess.run(cmd("b"), env=env, cwd=base,
                               capture_output=True, text=True)
        print("B (identical kernel) exit code %d: %s" % (
            run_b.returncode, " ".join(run_b.stderr.split())[:300]))
        os.kill(run_a.pid, signal.SIGCONT)
        print("A exit code %d; final file size %d" % (
            run_a.wait(), os.path.getsize(kfile)))
        if size != 0:
            return 2
        return 1 if run_b.returncode != 0 else 0
    finally:
        shutil.rmtree(base, ignore_errors=True)


if __name__ == "__main__":
    sys.exit(main())
