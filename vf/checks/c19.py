"""C19 PSyAD adjoints are the exact transpose of the tangent-linear code.

Oracle A: a generated Fortran driver applies the TL kernel and the adjoint
kernel produced by the real psyclone.psyad.tl2ad.generate_adjoint_str to every
unit vector of the flattened active argument space and compares the two
matrices (B == transpose(A)), for sizes n = 0..6 and 20 and two settings of
the passive data, under gfortran -fcheck=all.  Oracle B: PSyAD's own generated
harness is compiled, run and must print PASSED.
"""
import hashlib
import os
import random
import re
import shutil
import tempfile

from vf import c19_gen as cg
from vf import fx
from vf.core import Part

PROPERTY = "C19"
LEVEL = "exploration"

SIZES = [0, 1, 2, 3, 4, 5, 6, 20]
HARNESS_N = 20      # psyclone.psyad.tl2ad.TEST_ARRAY_DIM_SIZE
VARIANTS = [0, 1]
# the driver is this check's own code: no run-time checking or debug info for
# it (the kernels and PSyAD's harness are compiled with fx.STRICT); the FPE
# traps must be requested when compiling the main program
DRV_FLAGS = ["-O0", "-fimplicit-none", "-ffpe-trap=invalid,zero,overflow",
             "-ffree-line-length-none"]


def call_psyad(text, active):
    """Returns (status, adjoint, harness, info); status in accepted /
    refused / crashed."""
    from psyclone.errors import PSycloneError
    from psyclone.psyad.tl2ad import generate_adjoint_str
    try:
        ad, test = generate_adjoint_str(text, list(active), api=None,
                                        create_test=True)
        return "accepted", ad, test, None
    except (PSycloneError, NotImplementedError) as err:
        return "refused", None, None, "%s: %s" % (type(err).__name__,
                                                  str(err)[:300])
    except Exception as err:      # pylint: disable=broad-except
        import traceback
        return "crashed", None, None, "%s: %s | %s" % (
            type(err).__name__, str(err)[:300],
            traceback.format_exc()[-600:])


RES = re.compile(r"RESULT n=(-?\d+) variant=(\d+) nact=(\d+) exact=([TF]) "
                 r"nbad=(\d+) pch_tl=(\d+) pch_ad=(\d+)")


def _parse_case(body):
    res = {"rc": 0, "out": body, "err": "", "stage": "tl"}
    if "TL_DONE" in body:
        res["stage"] = "ad"
    if "AD_DONE" in body:
        res["stage"] = "cmp"
    m = RES.search(body)
    if m:
        res.update(nact=int(m.group(3)), exact=m.group(4) == "T",
                   nbad=int(m.group(5)), pch_tl=int(m.group(6)),
                   pch_ad=int(m.group(7)), stage="done")
    return res


def run_cases(wd, cases):
    """Runs the driver over the list of (n, variant); one process handles
    consecutive cases and is restarted after the case that aborted it.
    Returns {(n, variant): result}; 'stage' says how far the case got: tl
    (aborted inside the TL phase), ad (inside the adjoint phase), cmp, done."""
    results = {}
    todo = list(cases)
    while todo:
        stdin = "".join("%d %d\n" % c for c in todo)
        rc, out, err = fx.run_exe(wd, exe="drv.x", stdin=stdin, timeout=120)
        segs = out.split("BEGIN ")[1:]
        if not segs:
            # the process did not even start the first case
            results[todo[0]] = {"rc": rc, "out": out, "err": err,
                                "stage": "none"}
            todo = todo[1:]
            continue
        for k, seg in enumerate(segs):
            head, _, body = seg.partition("\n")
            res = _parse_case(body)
            if res["stage"] != "done":
                res["rc"], res["err"] = rc, err
            results[todo[k]] = res
        todo = todo[len(segs):]
    return results


def run_driver(wd, n, variant):
    return run_cases(wd, [(n, variant)])[(n, variant)]


def ensure_quad(spec, text, ad, wd, part):
    """Builds (once per kernel) the same TL and adjoint texts with every
    real widened to real(16), plus the driver.  Returns the directory or
    None."""
    qd = wd + "_q"
    if os.path.exists(os.path.join(qd, "drv.x")):
        return qd
    shutil.rmtree(qd, ignore_errors=True)
    ok, err = fx.compile_f(
        qd, [("tl_k.f90", cg.to_quad(text)),
             ("adj_k.f90", cg.to_quad(ad))], compile_only=True)
    if ok:
        ok, err = fx.compile_f(
            qd, [("drv.f90", cg.driver_text(spec, rk=16))], exe="drv.x",
            flags=DRV_FLAGS, extra=["tl_k.o", "adj_k.o"])
    if not ok:
        part.count("real16_recheck_unavailable")
        part.inconclusive("C19 real(16) re-check did not compile: "
                          + str(err)[-300:])
        return None
    return qd


def confirm_in_quad(spec, text, ad, wd, n, v, part):
    """A mismatch seen in real(8) is only reported if it is still there
    (same 1e-9 relative tolerance) when the same TL and adjoint texts are
    compiled with every real widened to real(16): generated kernels can grow
    values like 8**(n*n), and then real(8) sums cancel catastrophically,
    whereas a wrong adjoint differs in the leading digits in any arithmetic.
    Returns True when the mismatch is confirmed."""
    qd = ensure_quad(spec, text, ad, wd, part)
    if qd is None:
        return False
    r = run_driver(qd, n, v)
    part.count("real16_rechecks")
    if r["stage"] == "done" and r["nbad"] == 0:
        part.count("real8_mismatch_was_rounding_not_judged")
        return False
    if r["stage"] != "done":
        # trap / watchdog in the wider arithmetic: not judged
        part.count("real16_recheck_did_not_finish_not_judged")
        return False
    return True


def harness_fails_in_quad(spec, text, ad, hsrc, seeder, wd, part):
    """PSyAD's harness printed FAILED in real(8).  Re-run the same harness
    text with every real widened to real(16); the failure is confirmed
    unless the two inner products it prints then agree to six digits."""
    qd = ensure_quad(spec, text, ad, wd, part)
    if qd is None:
        return False
    ok, err = fx.compile_f(qd, [("c19_seed.f90", seeder),
                                ("harness.f90", cg.to_quad(hsrc))],
                           exe="harness.x", extra=["tl_k.o", "adj_k.o"])
    if not ok:
        part.count("real16_harness_unavailable_not_judged")
        return False
    rc, out, herr = fx.run_exe(qd, exe="harness.x", timeout=120)
    part.count("real16_harness_runs")
    if "PASSED" in out or ("FAILED" in out and harness_only_rounding(out)):
        return False
    if "FAILED" in out:
        return True
    part.count("real16_harness_did_not_finish_not_judged")
    return False


def harness_only_rounding(out):
    """True if the two inner products PSyAD's harness prints agree to six
    significant digits (its FAILED is then a conditioning artefact)."""
    nums = re.findall(r"[-+]?\d+\.\d+(?:[EeDd][-+]?\d+)?", out)
    try:
        i1, i2 = float(nums[0]), float(nums[1])
    except (IndexError, ValueError):
        return False
    return abs(i1 - i2) <= 1e-6 * max(abs(i1), abs(i2))


def evaluate(spec, feats, part, wd):
    """Runs one kernel through the real PSyAD and both oracles, counting
    into part.  Returns a dict: status, compared, fails (list of
    (n, variant, hazards, kind, detail)), direct (violations that need no
    labelling), base (witness fields)."""
    text = cg.kernel_text(spec)
    active = cg.active_names(spec)
    base = {"tl_kernel": text, "active_variables": active, "spec": spec,
            "features": feats}
    res = {"status": None, "compared": 0, "fails": [], "direct": [],
           "base": base}
    status, ad, test, info = call_psyad(text, active)
    res["status"] = status
    if spec.get("invalid"):
        part.count("deliberately_nonlinear_kernels")
        part.count("nonlinear_" + status)
        if status == "refused":
            part.count("refusal:" + info.split(":")[0])
        elif status == "crashed":
            res["direct"].append(dict(
                base, kind="psyad_crashed", mechanism=None,
                what="PSyAD raised %s on %s" % (info[:200], text)))
        res["status"] = "invalid_" + status
        return res
    if status == "refused":
        part.count("kernels_refused")
        part.count("refusal:" + info.split(":")[0])
        return res
    if status == "crashed":
        part.count("psyad_crashed")
        res["crash"] = info
        return res
    part.count("kernels_accepted")
    for f in feats:
        part.count("accepted_with:" + f)
    base["adjoint"] = ad
    shutil.rmtree(wd, ignore_errors=True)
    shutil.rmtree(wd + "_q", ignore_errors=True)   # real(16) build, lazy
    os.makedirs(wd)
    # --- compile, one unit at a time so the culprit is known ---------------
    ok, err = fx.compile_f(wd, [("tl_k.f90", text)], compile_only=True)
    if not ok:
        part.count("generator_wrote_invalid_fortran")
        part.inconclusive("C19 generator produced a TL kernel gfortran "
                          "rejects: " + str(err)[-300:])
        res["status"] = "harness_fault"
        return res
    ok, err = fx.compile_f(wd, [("adj_k.f90", ad)], compile_only=True)
    if not ok:
        res["direct"].append(dict(
            base, kind="adjoint_does_not_compile", mechanism=None,
            what="gfortran rejects the adjoint: %s\n%s" % (
                str(err).strip()[-400:], text)))
        return res
    ok, err = fx.compile_f(wd, [("drv.f90", cg.driver_text(spec))],
                           exe="drv.x", flags=DRV_FLAGS,
                           extra=["tl_k.o", "adj_k.o"])
    if not ok:
        part.count("driver_did_not_compile")
        part.inconclusive("C19 driver did not compile: " + str(err)[-300:])
        res["status"] = "harness_fault"
        return res
    # --- oracle A ---------------------------------------------------------
    per_n = {}
    fails = res["fails"]
    tl_valid = {}
    # the second setting of the passive data only matters when control flow
    # depends on it
    variants = VARIANTS if any(s[0] == "if" for s in cg.walk(spec["body"])) \
        else VARIANTS[:1]
    runs = run_cases(wd, [(n, v) for n in SIZES for v in variants])
    for n in SIZES:
        haz = cg.hazards(spec, n)
        for v in variants:
            r = runs[(n, v)]
            if r["stage"] == "none":
                part.count("driver_did_not_start")
                continue
            if r["stage"] == "tl":
                # the ORIGINAL kernel is out of bounds / traps: invalid input
                part.count("inputs_skipped_tl_kernel_invalid")
                tl_valid[(n, v)] = False
                continue
            tl_valid[(n, v)] = True
            if r["stage"] == "ad":
                if r["rc"] is None:
                    part.count("adjoint_watchdog")
                elif "Fortran runtime error" in r["err"]:
                    fails.append((n, v, haz, "adjoint_runtime_error",
                                  r["err"].strip().splitlines()[0:3]))
                    per_n[n] = False
                else:
                    part.count("adjoint_signal_not_judged")
                continue
            if r["stage"] != "done":
                part.count("driver_failed_after_kernels")
                continue
            res["compared"] += 1
            part.count("matrices_compared")
            part.count("matrix_entries_compared", r["nact"] * r["nact"])
            if r["nact"] == 0:
                part.count("empty_matrices")
            if r["exact"]:
                part.count("matrices_exactly_transposed")
            elif r["nbad"] == 0:
                part.count("matrices_transposed_within_1e-9_only")
            if haz:
                part.count("comparisons_with_hazard_live")
            per_n.setdefault(n, True)
            if r["nbad"] and not confirm_in_quad(spec, text, ad, wd, n, v,
                                                 part):
                pass
            elif r["nbad"]:
                fails.append((n, v, haz, "adjoint_is_not_transpose",
                              r["out"].strip().splitlines()[-60:]))
                per_n[n] = False
            elif r["pch_tl"] or r["pch_ad"]:
                fails.append((n, v, haz, "passive_variable_changed",
                              r["out"].strip().splitlines()[-3:]))
                per_n[n] = False
    if res["compared"] == 0:
        part.count("accepted_but_no_valid_input")
    # zero-trip statistics (static model of the source loops)
    for s in cg.walk(spec["body"]):
        if s[0] == "do":
            step = 1 if s[4] is None else s[4]
            part.count("loops_generated")
            if any(cg.trips(cg.beval(s[2], n), cg.beval(s[3], n), step) == 0
                   and any(tl_valid.get((n, v)) for v in VARIANTS)
                   for n in SIZES):
                part.count("loops_zero_trip_at_some_judged_size")
    # --- oracle B: PSyAD's own harness ---------------------------------------
    # PSyAD's harness never seeds RANDOM_NUMBER, so gfortran would draw new
    # data on every run; one call to a seeding routine is inserted before the
    # first draw so that the same VERIF_SEED gives the same run
    seed = int(hashlib.sha1(text.encode()).hexdigest()[:7], 16)
    hsrc = test.replace("  call random_number(",
                        "  call c19_seed()\n  call random_number(", 1)
    seeder = ("subroutine c19_seed()\n  implicit none\n  integer :: k, i\n"
              "  integer, allocatable :: s(:)\n  call random_seed(size=k)\n"
              "  allocate(s(k))\n  do i = 1, k\n    s(i) = %d + 7919 * i\n"
              "  end do\n  call random_seed(put=s)\nend subroutine c19_seed"
              "\n" % seed)
    ok, err = fx.compile_f(wd, [("c19_seed.f90", seeder),
                                ("harness.f90", hsrc)], exe="harness.x",
                           extra=["tl_k.o", "adj_k.o"])
    if not ok:
        res["direct"].append(dict(
            base, kind="harness_does_not_compile", mechanism=None,
            harness=test, what="gfortran rejects PSyAD's test harness: "
            "%s\nTL kernel:\n%s" % (str(err).strip()[-400:], text)))
    elif not all(tl_valid.get((HARNESS_N, v)) for v in variants):
        part.count("harness_not_run_tl_invalid_at_n20")
    else:
        rc, out, herr = fx.run_exe(wd, exe="harness.x", timeout=60)
        part.count("harness_runs")
        haz = cg.hazards(spec, HARNESS_N)
        if "PASSED" in out:
            part.count("harness_passed")
            if per_n.get(HARNESS_N) is False:
                part.count("harness_passed_although_matrices_differ")
        elif "FAILED" in out:
            if per_n.get(HARNESS_N) is True and (
                    harness_only_rounding(out) or not harness_fails_in_quad(
                        spec, text, ad, hsrc, seeder, wd, part)):
                # oracle A found the exact transpose at this size and the
                # harness' two inner products agree to 6 digits (in real(8)
                # or, failing that, in real(16)): ill-conditioned sums of
                # the generated kernel (values grow like 8**n), not PSyAD
                part.count("harness_failed_by_rounding_only_not_judged")
            else:
                # (the harness draws its own passive data, so it can reach a
                # branch the two settings of oracle A did not)
                fails.append((HARNESS_N, -1, haz, "harness_failed",
                              [out.strip()[:300]]))
        elif rc is None:
            part.count("harness_watchdog")
        elif "file tl_k.f90" in herr:
            part.count("harness_run_invalid_in_tl_kernel")
        elif "Fortran runtime error" in herr and "file adj_k.f90" in herr:
            fails.append((HARNESS_N, -1, haz, "harness_runtime_error",
                          herr.strip().splitlines()[0:3]))
        else:
            part.count("harness_signal_not_judged")
    return res


def judge_kernel(spec, feats, part, wd):
    """evaluate() plus labelling of failures by mechanism.  A failure gets
    the names of the hazards live at its size as mechanism only if (i) every
    failing size of the kernel has a live hazard and (ii) the hazard-free
    twin of the kernel (same kernel, hazards neutralised) is accepted and
    passes both oracles on all sizes.  Returns True when non-trivial."""
    res = evaluate(spec, feats, part, wd)
    for w in res["direct"]:
        part.violation(w)
    fails = res["fails"]
    if res.get("crash"):
        # a crash of PSyAD itself: hazards are those live at any size
        haz = sorted(set(h for n in SIZES for h in cg.hazards(spec, n)
                         if h == "negative_literal_loop_start"))
        fails = [(-1, -1, haz, "psyad_crashed", [res["crash"]])]
    if not fails:
        if res["status"] == "accepted" and res["compared"]:
            part.count("kernels_passing_both_oracles")
        return res["compared"] > 0
    part.count("kernels_failing_an_oracle")
    label = all(f[2] for f in fails)
    twin_note = "not run: a failing size has no live hazard"
    if label:
        fam = cg.hazard_families(spec, SIZES)
        twin = cg.neutralise(spec, fam, SIZES)
        if cg.hazard_families(twin, SIZES):
            label, twin_note = False, "twin still has hazards"
        else:
            sub = Part()
            tres = evaluate(twin, [], sub, wd + "_twin")
            part.count("hazard_free_twins_run")
            if tres["status"] == "accepted" and tres["compared"] and \
                    not tres["fails"] and not tres["direct"]:
                twin_note = "twin passes (%d comparisons)" % tres["compared"]
                part.count("hazard_free_twins_passing")
            else:
                label = False
                twin_note = "twin does not pass: %s %r" % (
                    tres["status"], [f[:4] for f in tres["fails"][:3]])
    reported = set()
    base = res["base"]
    for n, v, haz, kind, detail in fails:
        mech = "+".join(haz) if label else None
        if kind == "psyad_crashed" and "NoMatchError" not in detail[0]:
            mech = None
        key = (kind, mech)
        if key in reported:
            continue
        reported.add(key)
        part.violation(dict(
            base, kind=kind, mechanism=mech, n=n, variant=v,
            hazards_at_n=haz, twin=twin_note, detail=detail,
            dedupe=[kind, mech] if mech else None,
            what="n=%d %s%s%s: %s\nTL kernel (active %s):\n%s" % (
                n, "" if v < 0 else "variant=%d " % v, kind,
                (" [%s]" % mech) if mech else "",
                " | ".join(detail[:4])[:400],
                ",".join(base["active_variables"]), base["tl_kernel"])))
    return res["compared"] > 0


# ----------------------------------------------------------------- anchors
def _t(sign, coef, ref, form="cx"):
    return ["t", sign, coef, ref, form]


def anchors():
    """Hand-written kernels that reach every monitor (from the examples in
    the PSyAD user guide)."""
    two = ["lit", "2.0d0", 2.0, "0.5d0"]
    out = []
    ai = ["v", "a", "i", 0]
    bi = ["v", "b", "i", 0]
    base = {"kind": "r_def", "pre": [], "invalid": None,
            "arrays": [{"name": "a", "lb": 1, "active": True},
                       {"name": "b", "lb": 1, "active": True}],
            "scalars": [{"name": "s", "active": True, "local": False},
                        {"name": "p", "active": False, "local": False}]}
    # A = xA + yB + zC of the user guide, in a unit-step loop
    k1 = dict(base, body=[["do", "i", ["lit", 1], ["n"], None, [
        ["assign", ai, [_t(1, ["p", "p"], ai), _t(1, two, bi),
                        _t(-1, None, ["s", "s"])]]]]])
    out.append((k1, ["anchor"]))
    # stencil A(i) = xA(i) + yA(i-1), reversed loop, step -1
    k2 = dict(base, body=[["do", "i", ["n"], ["lit", 2], -1, [
        ["assign", ai, [_t(1, two, ai), _t(1, ["p", "p"],
                                            ["v", "a", "i", -1])]]]],
        ["assign", ["s", "s"], []]])
    out.append((k2, ["anchor", "negative_step", "zeroing"]))
    # the 1,4,2 example of the loop section and an IF on passive data
    k3 = dict(base, body=[["do", "i", ["lit", 1], ["sub", ["n"], 1], 2, [
        ["if", "p > 0.5d0", [["assign", bi, [_t(1, None, ["v", "a", "i",
                                                          1])]]],
         [["assign", bi, [_t(-1, None, bi)]]]]]]])
    out.append((k3, ["anchor", "step_2", "if_block"]))
    # not linear: PSyAD must refuse
    k4 = dict(base, invalid="product",
              body=[["raw", "a(1) = a(1) * b(1)"]])
    out.append((k4, ["anchor"]))
    # minimal kernels, one per hazard family (see c19_gen.hazards): they keep
    # every recorded mechanism exercised on every run
    one = dict(base, arrays=base["arrays"][:1], scalars=base["scalars"][1:])
    dbl = [_t(1, two, ai)]
    out.append((dict(one, body=[["do", "i", ["lit", 1], ["sub", ["n"], 1], 2,
                                 [["assign", ai, dbl]]]]),
                ["anchor", "hazard_family_L"]))
    out.append((dict(one, body=[["do", "i", ["sub", ["n"], 1], ["lit", 1], -3,
                                 [["assign", ai, dbl]]]]),
                ["anchor", "hazard_family_L"]))
    # (an array dimensioned by n is kept: PSyAD's harness only supports an
    # integer argument if it dimensions an array)
    st = dict(base, arrays=base["arrays"][:1], scalars=[
        {"name": "s", "active": True, "local": False},
        {"name": "t", "active": True, "local": False},
        {"name": "p", "active": False, "local": False}])
    out.append((dict(st, body=[["assign", ["s", "t"], [
        _t(1, None, ["s", "s"]), _t(-1, None, ["s", "t"])]]]),
        ["anchor", "hazard_family_S"]))
    b0 = dict(one, arrays=[{"name": "b", "lb": 0, "active": True}])
    b1 = ["v", "b", "i", 1]
    out.append((dict(b0, body=[["do", "i", ["lit", -1], ["sub", ["n"], 2], 2,
                                [["assign", b1, [_t(1, two, b1)]]]]]),
                ["anchor", "hazard_family_N"]))
    out.append((dict(one, body=[["do", "i", ["lit", 1], ["n"], None, [
        ["assign", ai, [_t(1, two, ["c", "a", 2])]]]]]),
        ["anchor", "hazard_family_A"]))
    return out


# ------------------------------------------------------------------- worker
def batch(arg):
    part = Part()
    rnd = random.Random(arg["seed"])
    top = tempfile.mkdtemp(prefix="vf_c19_")
    try:
        cases = []
        if arg.get("anchors"):
            cases += anchors()
        if arg.get("specs"):
            cases += [(s, f) for s, f in arg["specs"]]
        for _ in range(arg.get("count", 0)):
            cases.append(cg.generate(rnd))
        for k, (spec, feats) in enumerate(cases):
            part.count("kernels_generated")
            for f in feats:
                part.count("generated_with:" + f)
            nontrivial = judge_kernel(spec, feats, part,
                                      os.path.join(top, "k"))
            text = cg.kernel_text(spec)
            part.case(key=text if nontrivial else None,
                      nontrivial=nontrivial,
                      sample={"tl_kernel": text,
                              "active": cg.active_names(spec),
                              "features": feats}
                      if nontrivial and k < 2 else None)
    finally:
        shutil.rmtree(top, ignore_errors=True)
    return part


def replay(ctx, witness):
    part = Part()
    top = tempfile.mkdtemp(prefix="vf_c19_")
    try:
        nt = judge_kernel(witness["spec"], witness.get("features", []), part,
                          os.path.join(top, "k"))
        part.case(key=witness["tl_kernel"], nontrivial=nt)
        part.case(key="replay", nontrivial=True)
    finally:
        shutil.rmtree(top, ignore_errors=True)
    ctx.merge(part.to_json())


def main(ctx):
    ctx.rule = ("random TL kernels (module + one subroutine) from a grammar "
                "inside PSyAD's documented subset: 1-3 active real(8) arrays "
                "(lower bound 0 or 1), 0-2 active scalars, an active local "
                "temporary, passive scalars/array/local coefficient; "
                "assignments A = [+-]xA +- yB ... with literal (small integer "
                "or power of two), passive and bracketed coefficients, "
                "zeroing, offset subscripts, loops with steps 1,-1,2,-2,3,-3 "
                "and bounds literal / n-c / n/2, nested loops, IF/ELSE on "
                "passive data and loop variables.  A case is non-trivial when "
                "PSyAD accepted the kernel and at least one matrix comparison "
                "ran (the TL kernel itself ran within bounds); distinct by "
                "kernel text")
    nb = 16 if ctx.quick else 125
    cnt = 9 if ctx.quick else 16
    jobs = [{"seed": 0, "anchors": True, "count": 0}]
    for b in range(nb):
        jobs.append({"seed": ctx.rng("batch", b).random(), "count": cnt})
    for res in ctx.pmap("vf.checks.c19", "batch", jobs,
                        timeout=3000 if ctx.quick else 6000):
        if res:
            ctx.merge(res)
    if ctx.counters.get("matrices_compared", 0) == 0:
        ctx.inconclusive("no TL/adjoint matrix pair was ever compared")
    if ctx.counters.get("harness_runs", 0) == 0:
        ctx.inconclusive("PSyAD's generated harness was never run")
    ctx.assumptions += [
        "gfortran -fcheck=all decides validity of an input: a run-time error "
        "while the ORIGINAL TL kernel runs means the size is skipped",
        "matrices are compared exactly; entries that differ by less than "
        "1e-9 relative are counted separately and not judged (all "
        "coefficients are small integers or powers of two, so this never "
        "happened on the runs recorded here unless the counter says so)",
        "arithmetic traps (SIGFPE) inside the adjoint are counted, not judged",
        "deliberately non-linear kernels only exercise the refusal path; an "
        "acceptance of one is counted, never judged",
        "PSyAD's harness is compiled as generated except for one inserted "
        "call that seeds RANDOM_NUMBER (it draws unseeded data otherwise)",
        "hazard labels (mechanism) come from the source AST and the reversal "
        "formula in the user guide, and are only attached when every "
        "hazard-free size of the same kernel passed"]
