"""Known-finding predicates.  Each takes (witness, params) and returns True
only if the witness shows exactly the recorded mechanism.  Facts used here
are computed by the checks independently of PSyclone (planted hazard id,
dynamic trace facts, minimal operation), never seeds, hashes or values."""


def kind_and_mechanism(w, p):
    """Generic: witness kind and its 'mechanism' fact both match."""
    return (w.get("kind") == p.get("kind")
            and w.get("mechanism") == p.get("mechanism")
            and w.get("mechanism") is not None)


def mechanism_in_kinds(w, p):
    """witness mechanism equals the recorded one and the failing sub-oracle
    is one of the recorded kinds."""
    return (w.get("mechanism") is not None
            and w.get("mechanism") == p.get("mechanism")
            and w.get("kind") in p.get("kinds", []))


import re as _re

_WIDX = _re.compile(r"^\+\s*integer :: widx\d+(_\d+)*\s*$")
_ACCESS = _re.compile(r"^[+-]\s*(public|private)\s*::\s*(.*)$")


def _changed(diff_text):
    return [l for l in diff_text.splitlines()
            if l[:1] in "+-" and l[:3] not in ("+++", "---")]


def c03_where_fallback_symbol_leak(w, p):
    """Second write differs from the first ONLY by additional declarations of
    WHERE loop variables (integer :: widxN[_M]) and the source contains a
    WHERE construct: the WHERE handler created the loop variable and then
    fell back to a CodeBlock, leaving the symbol behind; the next pass
    creates one more."""
    if w.get("kind") != "second_write_differs":
        return False
    if not w.get("source_has_where"):
        return False
    ch = _changed(w.get("diff", ""))
    return bool(ch) and all(_WIDX.match(l) for l in ch)


def c03_access_stmt_reordered(w, p):
    """Only the order of names inside public::/private:: statements differs
    (same set of names)."""
    if w.get("kind") != "second_write_differs":
        return False
    ch = _changed(w.get("diff", ""))
    if not ch:
        return False
    minus, plus = {}, {}
    for l in ch:
        m = _ACCESS.match(l)
        if not m:
            return False
        names = frozenset(n.strip().lower() for n in m.group(2).split(","))
        (minus if l[0] == "-" else plus).setdefault(m.group(1), []).append(
            names)
    return {k: sorted(map(sorted, v)) for k, v in minus.items()} == \
        {k: sorted(map(sorted, v)) for k, v in plus.items()}


def mechanism_prefix_in_kinds(w, p):
    m = w.get("mechanism")
    return (isinstance(m, str) and m.startswith(p.get("prefix", "\0"))
            and w.get("kind") in p.get("kinds", []))
