"""C13 OpenACC data regions move all data the region needs.

gfortran's OpenACC host fallback shares memory, so the defect cannot be seen
by running the binary.  Monitor instead: the reference interpreter executes
the region with a separate device store driven by exactly the copyin /
copyout / copy clauses that the real ACCDataTrans (around ACCKernelsTrans)
emits: copyout arrays start undefined (poison) on the device and are copied
back whole; copyin arrays are not copied back; arrays in NO clause are not
moved at all (the property speaks of "exactly the movements PSyclone
generates": their device copy is undefined and nothing comes back).  Regions
with calls are wrapped by ACCDataTrans alone.  Host arrays after the region
must equal the host-only run.
"""
import os
import random
import re

from vf import flite, finterp, diffrun, scen, psy
from vf.core import Part
from vf.checks.c12 import RegionDone, frame_values

PROPERTY = "C13"
LEVEL = "exploration"

CLAUSE = re.compile(r"(copyin|copyout|copy)\(([^)]*)\)")


class DeviceTracer(finterp.Tracer):
    def __init__(self, first, last, clauses):
        self.first, self.last = first, last
        self.cl = clauses             # None = host-only run
        self.interp = None
        self.inside = False
        self.done = False
        self.frame = None
        self.snapshot = {}
        self.noclause = set()
        self.written = {}

    def stmt(self, s, phase):
        if s is self.first and phase == 0 and not self.done:
            self.inside = True
            rt, fr = self.interp.frames[-1]
            self.frame = fr
            if self.cl is not None:
                for name, obj in fr.items():
                    if not isinstance(obj, finterp.Arr):
                        continue          # scalars are outside the claim
                    if name in self.cl["copyout"]:
                        self.snapshot[name] = [c.v for c in obj.cells]
                        for c in obj.cells:
                            c.v = finterp.POISON     # device alloc, no copy
                    elif name in self.cl["copyin"]:
                        self.snapshot[name] = [c.v for c in obj.cells]
                    elif name not in self.cl["copy"]:
                        # in NO clause: nothing is moved in either direction
                        self.snapshot[name] = [c.v for c in obj.cells]
                        self.noclause.add(name)
                        for c in obj.cells:
                            c.v = finterp.POISON
        if s is self.last and phase == 1 and self.inside:
            self.inside = False
            self.done = True
            if self.cl is not None:
                for name, obj in self.frame.items():
                    if isinstance(obj, finterp.Arr) and (
                            name in self.cl["copyin"] or
                            name in self.noclause):
                        # device changes are not copied back
                        for c, v in zip(obj.cells, self.snapshot[name]):
                            c.v = v
            raise RegionDone()

    def write(self, cell):
        if self.inside:
            self.written[id(cell)] = cell


def run(unit, seed, nn, first, last, clauses):
    tr = DeviceTracer(first, last, clauses)
    it = finterp.Interp(unit, tracer=tr)
    tr.interp = it
    poisoned = None
    try:
        it.run_main(seed, nn)
    except RegionDone:
        pass
    except finterp.Poison as p:
        poisoned = p.cell
    except (finterp.Trap, RecursionError):
        return None
    if tr.frame is None:
        return None
    return {"frame": tr.frame, "poison": poisoned, "completed": tr.done,
            "written": tr.written}


from vf.checks.c12 import cond_write_fact  # noqa: E402


def batch(arg):
    from psyclone.psyir.nodes import Routine
    from psyclone.psyir.transformations import (ACCKernelsTrans,
                                                TransformationError)
    from psyclone.transformations import ACCDataTrans
    part = Part()
    rnd = random.Random(arg["seed"])
    inputs = diffrun.INPUTS[:arg["ninputs"]]
    for n in range(arg["count"]):
        # half of the kernels contain calls that update a whole array passed
        # by reference; such regions are wrapped by ACCDataTrans alone (the
        # kernels transformation refuses calls), the property's model still
        # runs the whole region on the device
        with_calls = rnd.random() < 0.5
        unit, _ = scen.make("region_calls" if with_calls else "region",
                            rnd.random(), False)
        if rnd.random() < 0.35:
            # an array whose declaration PSyclone can only keep as text
            # (UnsupportedFortranType without a partial datatype)
            dd = [d for d in unit["routines"][0]["decls"]
                  if d["name"] in ("a", "b", "c")]
            rnd.choice(dd)["attrs"] = [rnd.choice(["volatile",
                                                   "asynchronous"])]
            part.count("kernels_with_unsupported_type_array")
        text = flite.module_text(unit)
        body = unit["routines"][0]["body"]

        def passed_to_call(i, j, name):
            found = [False]

            def f(st):
                if st[0] == "call":
                    for a_ in st[2]:
                        if a_[0] in ("var", "arr") and a_[1].lower() == name:
                            found[0] = True
            flite.walk_stmts(body[i:j + 1], f)
            return found[0]
        regions = [(i, j) for i in range(len(body))
                   for j in range(i, min(len(body), i + 6))]
        rnd.shuffle(regions)
        nontrivial = False
        for (i, j) in regions[:arg["regions"]]:
            try:
                tree = psy.read(text)
            except Exception:
                part.count("reader_failed")
                break
            kern = tree.walk(Routine)[0]
            if len(kern.children) != len(body):
                part.count("statement_mapping_failed")
                break
            try:
                if with_calls:
                    ACCDataTrans().apply(kern.children[i:j + 1])
                    part.count("data_only_regions_attempted")
                else:
                    ACCKernelsTrans().apply(kern.children[i:j + 1])
                    ACCDataTrans().apply(kern.children[i])
            except TransformationError:
                part.count("refused")
                continue
            except Exception as err:
                part.count("crashed:" + type(err).__name__)
                continue
            try:
                out = psy.write(tree)
            except Exception as err:
                part.count("writer_refused:" + type(err).__name__)
                continue
            lines = [l for l in out.splitlines()
                     if l.strip().lower().startswith("!$acc data")]
            if len(lines) != 1:
                part.count("no_single_data_directive")
                continue
            part.count("data_regions_accepted")
            cl = {"copyin": set(), "copyout": set(), "copy": set()}
            for kind, names in CLAUSE.findall(lines[0].lower()):
                for nm in names.split(","):
                    cl[kind].add(nm.strip())
            rtxt = " ; ".join(l.strip() for l in flite.stmts(body[i:j + 1],
                                                             0))[:300]
            for seed, nn in inputs:
                host = run(unit, seed, nn, body[i], body[j], None)
                if host is None or not host["completed"]:
                    continue
                dev = run(unit, seed, nn, body[i], body[j], cl)
                part.count("device_runs")
                nontrivial = True
                if dev["poison"] is not None:
                    c = dev["poison"]
                    mech = None
                    if c.idx != () and c.name in cl["copyout"] and any(
                            w.name == c.name and w is not c
                            for w in dev["written"].values()):
                        mech = "copyout.partial_write"
                        if passed_to_call(i, j, c.name):
                            # an array passed by reference to a call has a
                            # READWRITE access: not the known mechanism
                            mech = None
                    if mech is None and c.name in cl["copyout"] and \
                            not passed_to_call(i, j, c.name) and \
                            cond_write_fact(body[i:j + 1], c.name):
                        mech = "copyout.conditional_write"
                    part.violation({
                        "kind": "device_reads_array_that_was_not_copied_in",
                        "mechanism": mech,
                        "what": "'%s' around [%s]: the region reads %s%s "
                                "whose device copy was never initialised "
                                "(seed=%d n=%d)" % (
                                    lines[0].strip(), rtxt, c.name,
                                    list(c.idx), seed, nn),
                        "source": text, "region": [i, j],
                        "dedupe": ("read", mech)})
                    break
                hv = frame_values(host["frame"])
                dv = frame_values(dev["frame"])
                bad = False
                for name, obj in host["frame"].items():
                    if not isinstance(obj, finterp.Arr):
                        continue
                    if hv[name] != dv[name]:
                        wrote = {c.idx for c in host["written"].values()
                                 if c.name == name}
                        mech = None
                        if name in cl["copyout"] and \
                                len(wrote) < len(hv[name]):
                            mech = "copyout.partial_write"
                            if passed_to_call(i, j, name):
                                mech = None
                        if mech is None and name in cl["copyout"] and \
                                not passed_to_call(i, j, name) and \
                                cond_write_fact(body[i:j + 1], name):
                            mech = "copyout.conditional_write"
                        part.violation({
                            "kind": "host_array_differs_after_data_region",
                            "mechanism": mech,
                            "what": "'%s' around [%s]: host array %s differs "
                                    "from the host-only run (%d of %d "
                                    "elements written by the region) "
                                    "(seed=%d n=%d)" % (
                                        lines[0].strip(), rtxt, name,
                                        len(wrote), len(hv[name]), seed, nn),
                            "source": text, "region": [i, j], "var": name,
                            "dedupe": ("differs", mech)})
                        bad = True
                        break
                if bad:
                    break
        part.case(key=text, nontrivial=nontrivial,
                  sample=text[:900] if n == 0 else None)
    return part


def main(ctx):
    ctx.rule = ("kernels of 5-9 top-level statements (as C12); every sampled "
                "contiguous region that ACCKernelsTrans + ACCDataTrans accept "
                "is executed by the reference interpreter with a device "
                "store driven by the emitted clauses, on up to 8 inputs; "
                "non-trivial = at least one device run; distinct by module "
                "text")
    nb = 32 if ctx.quick else 160
    cnt = 10 if ctx.quick else 50
    jobs = [{"seed": ctx.rng("b", i).random(), "count": cnt,
             "ninputs": 4 if ctx.quick else 8,
             "regions": 6 if ctx.quick else 16} for i in range(nb)]
    for res in ctx.pmap("vf.checks.c13", "batch", jobs, timeout=3400):
        if res:
            ctx.merge(res)
    if ctx.counters.get("device_runs", 0) == 0:
        ctx.inconclusive("no data region was executed on the device model")
    ctx.assumptions += [
        "device-store model: copyin = copy to device at entry; copyout = "
        "allocate at entry (undefined), copy whole array back at exit; copy "
        "= both; arrays in no clause: implicit copy of the kernels "
        "construct; scalars are outside the claim and stay shared",
        "the reference interpreter is validated against gfortran by C12 on "
        "the same scenario generator"]
