"""Scenario generators: small kernels aimed at one transformation, each with
at most ONE planted hazard from a named catalogue and a hazard-free twin of
the same shape (same random draws, hazard switched off).

make(name, seed, hazard) -> (unit, planted_hazard_or_None)
"""
import random

from vf import fgen
from vf.flite import I, R, V, A, B, C, IC, RNG


def _g(rnd, **o):
    opts = dict(select=False, where=False, verb=False, twod=True,
                logical=False)
    opts.update(o)
    return fgen.G(rnd, opts)


def _unit(rnd, body, **o):
    opts = dict(select=False, where=False, verb=False, twod=True,
                logical=False)
    opts.update(o)
    unit, g = fgen.kernel_unit(rnd, opts, body=body)
    return unit


def rterm(rnd, i, arrays=("a", "b", "c"), off=0):
    nm = rnd.choice(arrays)
    idx = V(i) if off == 0 else B("+", V(i), I(off))
    return A(nm, idx)


# ------------------------------------------------------------------- fuse
def fuse(rnd, hazard):
    """Two adjacent loops over the same range.
    hazards: fuse.array_offset_dep   loop 2 reads w(i+k) written by loop 1
             fuse.scalar_carried     loop 1 accumulates a scalar loop 2 reads
             fuse.antidep_offset     loop 2 writes w(i-k) that loop 1 reads"""
    lo, hi = rnd.choice([(1, 0), (2, -1), (2, -1)])
    lo_e = I(lo)
    hi_e = V("n") if hi == 0 else B("-", V("n"), I(1))
    off = rnd.choice([1, -1]) if lo == 2 else 0
    w, r1, r2 = rnd.sample(["a", "b", "c"], 3)
    k1 = R(rnd.choice([2.0, 0.5, 3.0]))
    hz = None
    kind = rnd.choice(["array_offset_dep", "scalar_carried",
                       "antidep_offset"])
    if lo != 2 and kind != "scalar_carried":
        kind = "scalar_carried"
    body1 = [["assign", A(w, V("i")), B("+", B("*", A(r1, V("i")), k1),
                                         A(r2, V("i")))]]
    body2 = [["assign", A(r1, V("i")), B("-", A(w, V("i")), R(1.0))]]
    pre = []
    if hazard:
        hz = "fuse." + kind
        if kind == "array_offset_dep":
            body2 = [["assign", A(r1, V("i")),
                      B("-", A(w, B("+", V("i"), I(off))), R(1.0))]]
        elif kind == "antidep_offset":
            body1 = [["assign", A(w, V("i")),
                      B("+", B("*", A(r1, B("+", V("i"), I(off))), k1),
                        A(r2, V("i")))]]
        else:
            pre = [["assign", V("x1"), R(0.0)]]
            body1.append(["assign", V("x1"), B("+", V("x1"), A(w, V("i")))])
            body2 = [["assign", A(r1, V("i")), B("-", A(w, V("i")), V("x1"))]]
    body = pre + [["do", "i", lo_e, hi_e, None, body1],
                  ["do", "i", lo_e, hi_e, None, body2]]
    return _unit(rnd, body), hz


# ------------------------------------------------------------------- swap
def swap(rnd, hazard):
    """Perfect 2-deep nest.  hazard swap.diagonal_dep: m2(i,j) depends on
    m2(i-1,j+1) (direction (<,>) reverses under interchange)."""
    hz = None
    d1, d2 = rnd.choice([(-1, 1), (1, -1)])
    rhs = B("+", B("*", A("m2", V("i"), V("j")), R(2.0)), A("a", V("i")))
    if hazard:
        hz = "swap.diagonal_dep"
        rhs = B("+", A("m2", B("+", V("i"), I(d1)), B("+", V("j"), I(d2))),
                R(1.0))
    hi_i = B("-", V("n"), I(1))
    variant = rnd.random()
    if variant < 0.3:
        # inner bound depends on the outer loop variable only through an
        # array subscript: interchange must be refused (or be correct)
        hi_i = IC("max", I(1), IC("min", B("-", V("n"), I(1)),
                                  IC("abs", A("ia", V("j")))))
    inner = ["do", "i", I(2), hi_i, None,
             [["assign", A("m2", V("i"), V("j")), rhs]]]
    body = [["do", "j", I(2), B("-", V("n"), I(1)), None, [inner]]]
    return _unit(rnd, body), hz


# ------------------------------------------------------------------ hoist
def hoist(rnd, hazard):
    """Loop containing a loop-invariant assignment.
    hazards: hoist.zero_trip       the loop may not execute at all, the
                                   hoisted assignment then changes a variable
                                   that is observed after the loop
             hoist.input_written_later  a variable read by the statement is
                                   written later in the loop body"""
    hz = None
    kind = rnd.choice(["zero_trip", "input_written_later"])
    inv = ["assign", V("x1"), B("*", V("x2"), R(2.0))]
    rest = [["assign", A("a", V("i")), B("+", A("b", V("i")), V("x1"))]]
    lo = I(1)
    if hazard:
        hz = "hoist." + kind
        if kind == "input_written_later":
            rest.append(["assign", V("x2"), B("+", V("x2"), R(1.0))])
    else:
        if kind == "zero_trip":
            # hazard-free twin: x1 is not observable (overwritten afterwards)
            pass
    body = [["do", "i", lo, V("n"), None, [inv] + rest]]
    if not (hazard and kind == "zero_trip"):
        # make the zero-trip difference unobservable: define x1 afterwards
        body.append(["assign", V("x1"), R(7.0)])
    return _unit(rnd, body), hz


# ------------------------------------------------------------- induction
def induction(rnd, hazard):
    """k = i + c inside the loop, used as a subscript.
    hazard induction.zero_trip_post_value: the induction variable is observed
    after a loop that may be zero-trip."""
    hz = None
    c = rnd.choice([0, 1, -1])
    lo, hi = (I(2), B("-", V("n"), I(1)))
    body_l = [["assign", V("t1"), B("+", V("i"), I(c))],
              ["assign", A("a", V("t1")), B("+", A("b", V("i")), R(1.0))]]
    with_call = (not hazard) and rnd.random() < 0.35
    if with_call:
        # the would-be induction variable is passed to a routine that
        # modifies it: it is not an induction variable any more
        body_l.insert(1, ["call", "bump", [V("t1"), V("n")]])
    body = [["assign", V("t1"), I(0)],
            ["do", "i", lo, hi, None, body_l]]
    if hazard:
        hz = "induction.zero_trip_post_value"
        body.append(["assign", V("s1"), V("t1")])
    else:
        body.append(["assign", V("t1"), I(3)])
        body.append(["assign", V("s1"), V("t1")])
    unit = _unit(rnd, body)
    if with_call:
        from vf.flite import decl
        unit["routines"].append({
            "kind": "subroutine", "name": "bump", "args": ["kk", "m"],
            "decls": [decl("kk", "i", intent="inout"),
                      decl("m", "i", intent="in")],
            "body": [["if", [[C("<", V("kk"), B("-", V("m"), I(1))),
                              [["assign", V("kk"), B("+", V("kk"), I(1))]]]],
                      None]],
            "result": None})
    return unit, hz


# ----------------------------------------------------------------- chunk
def chunk(rnd, hazard):
    """1-D and 2-D loops with various steps and bounds (no planted hazard)."""
    st = rnd.choice([None, None, I(2), I(-1), I(3), I(-2)])
    if st is not None and st[1] < 0:
        lo, hi = V("n"), I(1)
    else:
        lo, hi = I(1), V("n")
    inner = [["assign", A("a", V("i")), B("+", A("a", V("i")),
                                           B("*", A("b", V("i")), R(2.0)))],
             ["assign", V("s1"), B("+", V("s1"), V("i"))]]
    body = [["do", "i", lo, hi, st, inner]]
    if rnd.random() < 0.5:
        body.append(["do", "j", I(1), V("n"), None, [
            ["do", "i", I(1), V("n"), rnd.choice([None, I(2)]), [
                ["assign", A("m2", V("i"), V("j")),
                 B("+", A("m2", V("i"), V("j")), A("c", V("i")))]]]]])
    return _unit(rnd, body), None


# -------------------------------------------------------- fold cond. return
def foldret(rnd, hazard):
    body = [["if", [[C(rnd.choice([">", "<", "=="]), V("s1"), I(0)),
                     [["return"]]]], None],
            ["assign", V("x1"), B("+", V("x2"), R(1.0))]]
    if rnd.random() < 0.5:
        body.insert(1, ["if", [[C(">", V("x2"), R(0.0)), [["return"]]]],
                        None])
    body.append(["do", "i", I(1), V("n"), None,
                 [["assign", A("a", V("i")), V("x1")]]])
    return _unit(rnd, body), None


# ----------------------------------------------------------- bound hoisting
def boundexpr(rnd, hazard):
    lo = B("+", IC("min", V("s1"), I(1)), I(0))
    hi = B("-", IC("max", V("n"), I(1)), I(rnd.choice([0, 1])))
    body = [["do", "i", IC("max", I(1), lo), IC("min", V("n"), hi), None,
             [["assign", A("a", V("i")), B("+", A("b", V("i")), R(1.0))],
              ["assign", V("s1"), B("+", V("s1"), I(1))]]]]
    return _unit(rnd, body), None


SCENARIOS = {"fuse": fuse, "swap": swap, "hoist": hoist,
             "induction": induction, "chunk": chunk, "foldret": foldret,
             "boundexpr": boundexpr}


def make(name, seed, hazard):
    """Deterministic in (name, seed); hazard on/off keeps the same shape."""
    rnd = random.Random(seed)
    return SCENARIOS[name](rnd, hazard)


# =================================================================== C06
def arrassign(rnd, hazard):
    """Array-section assignments.
    hazard assign.overlap_fwd / assign.overlap_bwd: the same array on both
    sides with shifted sections (RHS must be evaluated before any element is
    assigned)."""
    hz = None
    w, r1, r2 = rnd.sample(["a", "b", "c"], 3)
    sh = rnd.choice([1, -1, 2])
    lo = 1 + max(0, -sh)
    sec = lambda nm, off: A(nm, RNG(I(lo + off), B("+", B("-", V("n"), I(2)),
                                                    I(off))))
    src = r1
    if hazard:
        hz = "assign.overlap_shifted"
        src = w
    rhs = sec(src, sh)
    x = rnd.random()
    if x < 0.4:
        rhs = B(rnd.choice(["+", "*", "-"]), rhs, R(2.0))
    elif x < 0.7:
        rhs = B("+", rhs, sec(r2, 0))
    body = [["assign", sec(w, 0), rhs]]
    y = rnd.random()
    if y < 0.3:
        body.append(["assign", V(r2), B("+", V(r2), V("x1"))])   # whole array
    elif y < 0.5:
        body.append(["assign", A("m2", RNG(), I(1)),
                     B("*", A("m2", RNG(), V("n")), R(2.0))])
    elif y < 0.7:
        body.append(["assign", A(r2, RNG(I(1), V("n"), I(2))), R(3.0)])
    elif y < 0.85:
        body.append(["assign", A("m2", RNG(I(1), V("n")), RNG(I(1), V("n"))),
                     B("+", A("m2", RNG(I(1), V("n")), RNG(I(1), V("n"))),
                       R(1.0))])
    return _unit(rnd, body), hz


def intrinsic_scalar(rnd, hazard):
    """ABS / SIGN / MIN / MAX on real scalars and elements."""
    def arg():
        x = rnd.random()
        if x < 0.3:
            return V(rnd.choice(["x1", "x2"]))
        if x < 0.6:
            return A(rnd.choice(["a", "b", "c"]), V("i"))
        if x < 0.8:
            return B(rnd.choice(["-", "+", "*"]), V("x2"),
                     A(rnd.choice(["a", "b"]), V("i")))
        return R(rnd.choice([0.0, 1.0, -2.0, 0.5]))
    name = rnd.choice(["abs", "sign", "min", "max", "min", "max"])
    if name == "abs":
        call = IC("abs", arg())
    elif name == "sign":
        call = IC("sign", arg(), arg())
    else:
        call = IC(name, *[arg() for _ in range(rnd.choice([2, 3, 4]))])
    rhs = call
    if rnd.random() < 0.5:
        rhs = B(rnd.choice(["+", "*", "-"]), call, arg())
    body = [["do", "i", I(1), V("n"), None,
             [["assign", A("c", V("i")), rhs]]],
            ["assign", V("x1"), IC(name, V("x1"), V("x2")) if name != "abs"
             else IC("abs", B("-", V("x1"), V("x2")))]]
    return _unit(rnd, body), None


def reduction(rnd, hazard):
    """SUM / PRODUCT / MINVAL / MAXVAL (+ mask, dim), DOT_PRODUCT, MATMUL."""
    kind = rnd.choice(["sum", "product", "minval", "maxval", "dot", "matmul",
                       "sum_mask", "sum_dim", "maxval_mask"])
    arr = rnd.choice(["a", "b", "c"])
    if kind in ("sum", "minval", "maxval"):
        body = [["assign", V("x1"), IC(kind, V(arr))]]
        if rnd.random() < 0.4:
            body = [["assign", V("x1"), B("+", IC(kind, V(arr)), V("x2"))]]
    elif kind == "product":
        body = [["assign", V("x1"), IC("product", V(arr))]]
    elif kind == "dot":
        other = rnd.choice(["a", "b", "c"])
        body = [["assign", V("x1"), IC("dot_product", V(arr), V(other))]]
        if rnd.random() < 0.4:
            body = [["assign", V("x1"), IC(
                "dot_product", A(arr, RNG(I(1), V("n"))),
                A(other, RNG(I(1), V("n"))))]]
    elif kind == "matmul":
        dst, src = rnd.sample(["a", "b", "c"], 2)
        if rnd.random() < 0.3:
            src = dst       # result aliases the vector operand
        body = [["assign", V(dst), IC("matmul", V("m2"), V(src))]]
    elif kind == "sum_mask":
        body = [["assign", V("x1"), IC("sum", V(arr),
                                       mask=C(">", V(arr), R(0.0)))]]
    elif kind == "maxval_mask":
        body = [["assign", V("x1"), IC("maxval", V(arr),
                                       mask=C("<", V(arr), R(1.0)))]]
    else:
        dst = rnd.choice(["a", "b", "c"])
        body = [["assign", V(dst), IC("sum", V("m2"),
                                      dim=I(rnd.choice([1, 2])))]]
    return _unit(rnd, body), None


def elemaccess(rnd, hazard):
    """Assignments between array ELEMENTS with constant indices (the shape
    ArrayAccess2LoopTrans lowers): same index everywhere, an indirectly
    addressed operand, and operands whose index differs from the target's
    (in every order)."""
    w, r1, r2 = rnd.sample(["a", "b", "c"], 3)
    c1 = rnd.choice([1, 2])
    c2 = 3 - c1
    terms = []
    for _ in range(rnd.randint(1, 3)):
        x = rnd.random()
        if x < 0.35:
            terms.append(A(r1, I(c1)))
        elif x < 0.6:
            terms.append(A("m2", I(c1), IC("max", I(1), IC(
                "min", V("n"), A("ia", I(rnd.choice([1, 2])))))))
        elif x < 0.8:
            terms.append(A(r2, I(c2)))
        elif x < 0.9:
            terms.append(A(w, I(c1)))
        else:
            terms.append(V("x1"))
    rhs = terms[0]
    for t in terms[1:]:
        rhs = B(rnd.choice(["+", "-", "*"]), rhs, t)
    body = [["assign", A(w, I(c1)), rhs]]
    if rnd.random() < 0.5:
        body.append(["assign", A("m2", I(c1), I(c2)),
                     B("+", A("m2", I(c1), I(c2)),
                       rnd.choice([A(r1, I(c1)), A(r1, I(c2)), R(1.0)]))])
    return _unit(rnd, body), None


SCENARIOS.update({"arrassign": arrassign, "intrinsic_scalar": intrinsic_scalar,
                  "reduction": reduction, "elemaccess": elemaccess})
C05_SCEN = ["fuse", "swap", "hoist", "induction", "chunk", "foldret",
            "boundexpr"]
C06_SCEN = ["arrassign", "intrinsic_scalar", "reduction", "elemaccess"]


# =================================================================== C07
def inline(rnd, hazard):
    """Caller/callee pairs in one module.
    hazard inline.elem_and_index: an array element and the variable that
    indexes it are both passed, and the callee changes the index before
    assigning to the element dummy."""
    from vf.flite import decl
    hz = None
    # ---- callee 1: subroutine cal(x, k, v, m)
    loc = rnd.choice(["r1", "t9", "i"])       # local name, may clash
    cbody = []
    if hazard:
        hz = "inline.elem_and_index"
        cbody.append(["assign", V("k"), B("+", V("k"), I(1))])
        cbody.append(["assign", V("x"), R(5.0)])
    else:
        cbody.append(["assign", V("x"), B("+", V("x"), R(5.0))])
    x = rnd.random()
    if x < 0.5:
        cbody.append(["do", "jj", I(1), V("m"), None,
                      [["assign", A("v", V("jj")),
                        B("+", A("v", V("jj")), V("x"))]]])
    if x > 0.3:
        cbody.append(["assign", V(loc if loc != "i" else "iloc"),
                      B("*", V("x"), R(2.0))])
        cbody.append(["assign", A("v", I(1)),
                      V(loc if loc != "i" else "iloc")])
    cdecls = [decl("x", "r", intent="inout"), decl("k", "i", intent="inout"),
              decl("m", "i", intent="in"),
              decl("v", "r", [[None, V("m")]], intent="inout"),
              decl("jj", "i"), decl(loc if loc != "i" else "iloc", "r")]
    cal = {"kind": "subroutine", "name": "cal", "args": ["x", "k", "v", "m"],
           "decls": cdecls, "body": cbody, "result": None}
    # ---- callee 2: function fsum(p, w, m) result(res)
    fbody = [["assign", V("res"), V("p")],
             ["do", "jj", I(1), V("m"), None,
              [["assign", V("res"), B("+", V("res"), A("w", V("jj")))]]]]
    fdecls = [decl("p", "r", intent="in"), decl("m", "i", intent="in"),
              decl("w", "r", [[None, V("m")]], intent="in"),
              decl("res", "r"), decl("jj", "i")]
    fsum = {"kind": "function", "name": "fsum", "args": ["p", "w", "m"],
            "decls": fdecls, "body": fbody, "result": "res"}
    # ---- two further families, each with its own callee
    fam = rnd.random()
    # (decided before and independently of `hazard`, so that the hazard-free
    # twin of a seed is the same program family)
    if fam < 0.25:
        return _inline_section_nd(rnd), None
    if fam < 0.4:
        return _inline_import_clash(rnd), None
    # ---- caller
    style = rnd.choice(["elem_loopvar", "elem_const", "scalar", "section"])
    arr, other = rnd.sample(["a", "b", "c"], 2)
    body = [["assign", V("s2"), I(1)]]
    if style == "elem_loopvar" or hazard:
        # index variable passed alongside the element it selects
        body.append(["assign", V("t1"), I(1)])
        body.append(["call", "cal", [A(arr, V("t1")), V("t1"), V(other),
                                      V("n")]])
    elif style == "elem_const":
        body.append(["call", "cal", [A(arr, I(1)), V("s2"), V(other),
                                      V("n")]])
    elif style == "scalar":
        body.append(["call", "cal", [V("x1"), V("s2"), V(other), V("n")]])
    else:
        body.append(["call", "cal", [V("x1"), V("s2"),
                                      A(other, RNG(I(1), V("n"))), V("n")]])
    if rnd.random() < 0.6:
        body.append(["assign", V("x2"),
                     B("+", ["fcall", "fsum", [B("*", V("x1"), R(2.0)),
                                               V(arr), V("n")]], R(1.0))])
    unit = _unit(rnd, body)
    unit["routines"] += [cal, fsum]
    return unit, hz


def _inline_section_nd(rnd):
    """A section of a 3-D local array whose dimensions have different lower
    bounds is passed to an assumed-size-like dummy: the scalar subscripts and
    the range may come in any order, the range may be the full extent or a
    part of it."""
    from vf.flite import decl
    los = [rnd.choice([1, 0, -1, 2]) for _ in range(3)]
    ext = [2, rnd.choice([4, 5]), 3]
    his = [l + e - 1 for l, e in zip(los, ext)]
    rdim = rnd.choice([0, 1, 1, 2])
    m = ext[rdim]
    full = rnd.random() < 0.6
    if full:
        rng = RNG() if rnd.random() < 0.5 else RNG(I(los[rdim]), I(his[rdim]))
    else:
        rng = RNG(I(los[rdim] + 1), I(his[rdim]))
        m -= 1
    subs = []
    pre = []
    for d in range(3):
        if d == rdim:
            subs.append(rng)
        elif rnd.random() < 0.5:
            subs.append(I(rnd.randint(los[d], his[d])))
        else:
            pre.append(["assign", V("t1"), I(rnd.randint(los[d], his[d]))])
            subs.append(V("t1"))
    body = [["do", "k", I(los[2]), I(his[2]), None, [
        ["do", "j", I(los[1]), I(his[1]), None, [
            ["do", "i", I(los[0]), I(his[0]), None, [
                ["assign", A("w3", V("i"), V("j"), V("k")),
                 IC("real", B("+", B("+", V("i"), B("*", I(3), V("j"))),
                              B("*", I(20), V("k"))), I(8))]]]]]]]]
    body += pre
    body.append(["call", "csec", [A("w3", *subs), I(m)]])
    body.append(["assign", V("x1"), R(0.0)])
    body.append(["do", "k", I(los[2]), I(his[2]), None, [
        ["do", "j", I(los[1]), I(his[1]), None, [
            ["do", "i", I(los[0]), I(his[0]), None, [
                ["assign", V("x1"), B("+", V("x1"), B(
                    "*", A("w3", V("i"), V("j"), V("k")),
                    IC("real", B("+", B("+", V("i"), B("*", I(2), V("j"))),
                                 B("*", I(7), V("k"))), I(8))))]]]]]]])
    unit = _unit(rnd, body)
    unit["routines"][0]["decls"].append(
        decl("w3", "r", [[los[0], his[0]], [los[1], his[1]],
                         [los[2], his[2]]]))
    unit["routines"].append({
        "kind": "subroutine", "name": "csec", "args": ["x", "m"],
        "decls": [decl("m", "i", intent="in"),
                  decl("x", "r", [[None, V("m")]], intent="inout"),
                  decl("jj", "i")],
        "body": [["do", "jj", I(1), V("m"), None,
                  [["assign", A("x", V("jj")),
                    B("+", A("x", V("jj")),
                      IC("real", B("*", I(100), V("jj")), I(8)))]]]],
        "result": None})
    return unit


def _inline_import_clash(rnd):
    """The callee imports a name from another module that the caller also
    declares (a local variable or a named constant): the inlined reference
    must keep meaning the imported entity."""
    from vf.flite import decl
    nm = rnd.choice(["scale", "fac"])
    caller_param = rnd.random() < 0.6
    body = []
    if not caller_param:
        body.append(["assign", V(nm), R(2.0)])
    body += [["assign", V("x1"), B("+", V("x1"), V(nm))],
             ["call", "cimp", [V("x1")]],
             ["assign", V("x2"), B("*", V("x2"), V(nm))]]
    if rnd.random() < 0.5:
        body.append(["call", "cimp", [A("a", I(1))]])
    unit = _unit(rnd, body)
    unit["routines"][0]["decls"].append(
        decl(nm, "r", param=R(2.0)) if caller_param else decl(nm, "r"))
    unit["extra_modules"] = [{"name": "a_mod", "decls": [
        decl(nm, "r", param=R(4.0)), decl("other", "r", param=R(1.0))]}]
    unit["routines"].append({
        "kind": "subroutine", "name": "cimp", "args": ["x"],
        "uses": ["a_mod, only: " + nm],
        "decls": [decl("x", "r", intent="inout")],
        "body": [["assign", V("x"), B("*", V("x"), V(nm))]],
        "result": None})
    return unit


SCENARIOS["inline"] = inline


# =================================================================== C08
def dep(rnd, hazard):
    """One loop (sometimes a nest) whose body mixes independent and
    loop-carried access patterns; the oracle is dynamic, `hazard` only biases
    towards the patterns behind known findings."""
    from vf.flite import decl
    lo, hi = I(2), B("-", V("n"), I(1))
    iv = "i"

    def sub_kind():
        k = rnd.choice(["i", "i", "i-1", "i+1", "i/2", "mod", "ia", "2i",
                        "2i-1", "rev", "i+s", "const", "i+d"])
        i = V(iv)
        if k == "i":
            return i, k
        if k == "i-1":
            return B("-", i, I(1)), k
        if k == "i+1":
            return B("+", i, I(1)), k
        if k == "i/2":
            return B("+", B("/", i, I(2)), I(1)), k
        if k == "mod":
            return B("+", IC("mod", i, I(2)), I(1)), k
        if k == "ia":
            return IC("max", I(1), IC("min", V("n"), IC("abs", A("ia", i)))), k
        if k == "2i":
            return IC("min", V("n"), B("*", I(2), i)), k
        if k == "2i-1":
            return IC("min", V("n"), B("-", B("*", I(2), i), I(1))), k
        if k == "rev":
            return B("+", B("-", V("n"), i), I(1)), k
        if k == "i+s":
            return IC("max", I(1), IC("min", V("n"), B("+", i, V("s1")))), k
        if k == "i+d":
            return IC("max", I(1), IC("min", V("n"), B("+", i, V("d_i")))), k
        return I(1), k

    def stmt():
        x = rnd.random()
        w, r = rnd.sample(["a", "b", "c"], 2)
        if x < 0.45:
            ws, _ = sub_kind()
            rs, _ = sub_kind()
            src = rnd.choice([w, r, r])
            return [["assign", A(w, ws), B("+", A(src, rs), R(1.0))]]
        if x < 0.52:
            return [["assign", V("r1"), A(r, V(iv))],
                    ["assign", A(w, V(iv)), B("*", V("r1"), R(2.0))]]
        if x < 0.57:
            # read in an EARLIER statement of the array written later
            off = rnd.choice([1, -1])
            return [["assign", V("r1"), A(w, B("+", V(iv), I(off)))],
                    ["assign", A(w, V(iv)), B("*", V("r1"), R(2.0))]]
        if x < 0.6:
            # 2-D access: the loop-invariant first subscripts are equal
            # under integer division, the second one carries the dependence
            return [["assign", A("m2", B("/", B("+", B("*", I(2), V("d_i")),
                                               I(1)), I(2)), V(iv)),
                     B("+", A("m2", V("d_i"), B("-", V(iv), I(1))), R(1.0))]]
        if x < 0.65:
            # two different statements write the same array at subscripts
            # that overlap across iterations (write-after-write only)
            off = rnd.choice([1, -1])
            return [["assign", A(w, V(iv)), A(r, V(iv))],
                    ["assign", A(w, B("+", V(iv), I(off))),
                     ["neg", A(r, V(iv))]]]
        if x < 0.75:
            return [["if", [[C(">", A(r, V(iv)), R(0.0)),
                             [["assign", V("r1"), A(r, V(iv))]]]], None],
                    ["assign", A(w, V(iv)), V("r1")]]
        if x < 0.85:
            return [["assign", V("x1"), B("+", V("x1"), A(r, V(iv)))]]
        if x < 0.93:
            return [["assign", A("m2", V(iv), I(1)),
                     B("+", A("m2", rnd.choice([V(iv), B("-", V(iv), I(1))]),
                              I(1)), R(1.0))]]
        return [["assign", A("ia", V(iv)), B("+", A("ib", V(iv)), I(1))]]
    body = []
    for _ in range(rnd.randint(1, 3)):
        body += stmt()
    pre = [["assign", V("r1"), R(0.0)], ["assign", V("d_i"), I(1)],
           ["assign", V("d1_i"), I(0)]]
    loop = ["do", iv, lo, hi, None, body]
    if rnd.random() < 0.25:
        # nest: outer j loop around, 2-D accesses
        inner = [["assign", A("m2", V("i"), V("j")),
                  B("+", A("m2", rnd.choice([V("i"), B("-", V("i"), I(1))]),
                           rnd.choice([V("j"), B("-", V("j"), I(1)),
                                       B("+", V("j"), I(1))])), R(1.0))]]
        loop = ["do", "j", I(2), B("-", V("n"), I(1)), None,
                [["do", "i", I(2), B("-", V("n"), I(1)), None, inner + body]]]
    unit = _unit(rnd, pre + [loop])
    k = unit["routines"][0]
    k["decls"] += [decl("d_i", "i"), decl("d1_i", "i")]
    return unit, None


SCENARIOS["dep"] = dep


# =================================================================== C11
def access(rnd, hazard):
    """Statements of every supported kind incl. calls to module subroutines
    with intent(in/out/inout) dummies, a PURE subroutine with an intent(out)
    dummy, functions in expressions and intrinsic subroutines."""
    from vf.flite import decl
    g = _g(rnd, twod=True, logical=False, depth=2, nstmts=4)
    body = g.block(0, rnd.randint(2, 4))
    callees = []
    # subroutine setv(x, y): y = x*2 (intent in / out)
    callees.append({"kind": "subroutine", "name": "setv", "args": ["p", "q"],
                    "decls": [decl("p", "r", intent="in"),
                              decl("q", "r", intent="out")],
                    "body": [["assign", V("q"), B("*", V("p"), R(2.0))]],
                    "result": None})
    callees.append({"kind": "subroutine", "name": "psetv", "pure": True,
                    "args": ["p", "q"],
                    "decls": [decl("p", "r", intent="in"),
                              decl("q", "r", intent="out")],
                    "body": [["assign", V("q"), B("+", V("p"), R(1.0))]],
                    "result": None})
    # elemental subroutines (an ELEMENTAL routine without IMPURE is pure by
    # the standard, but PSyclone only knows the explicit prefix)
    for nm, pre in (("eset", "elemental "), ("ieset", "impure elemental ")):
        callees.append({"kind": "subroutine", "name": nm, "prefix": pre,
                        "args": ["p", "q"],
                        "decls": [decl("p", "r", intent="in"),
                                  decl("q", "r", intent="out")],
                        "body": [["assign", V("q"), B("-", V("p"), R(1.0))]],
                        "result": None})
    callees.append({"kind": "subroutine", "name": "upd", "args": ["v", "m",
                                                                 "kk"],
                    "decls": [decl("m", "i", intent="in"),
                              decl("v", "r", [[None, V("m")]],
                                   intent="inout"),
                              decl("kk", "i", intent="inout"),
                              decl("jj", "i")],
                    "body": [["do", "jj", I(1), V("m"), None,
                              [["assign", A("v", V("jj")),
                                B("+", A("v", V("jj")), R(1.0))]]],
                             ["assign", V("kk"), B("+", V("kk"), I(1))]],
                    "result": None})
    callees.append({"kind": "function", "name": "twice", "args": ["p"],
                    "decls": [decl("p", "r", intent="in"), decl("res", "r")],
                    "body": [["assign", V("res"), B("*", V("p"), R(2.0))]],
                    "result": "res"})
    extra = []
    for _ in range(rnd.randint(2, 5)):
        x = rnd.random()
        arr = rnd.choice(["a", "b", "c"])
        if x < 0.2:
            extra.append(["call", "setv", [rnd.choice([V("x2"), A(arr, I(1)),
                                                       B("+", V("x2"), R(1.0))
                                                       ]),
                                           rnd.choice([V("x1"),
                                                       A(arr, V("n"))])]])
        elif x < 0.4:
            extra.append(["call", "psetv", [V("x2"), rnd.choice(
                [V("x1"), A(arr, I(1))])]])
        elif x < 0.5:
            extra.append(["call", rnd.choice(["eset", "ieset"]),
                          [rnd.choice([V("x2"), A(arr, I(1))]),
                           rnd.choice([V("x1"), A(arr, V("n"))])]])
        elif x < 0.6:
            extra.append(["call", "upd", [V(arr), V("n"), V("s1")]])
        elif x < 0.75:
            extra.append(["assign", V("x1"),
                          B("+", ["fcall", "twice", [A(arr, I(1))]],
                            V("x2"))])
        elif x < 0.87:
            extra.append(["icallsub", "random_number",
                          [rnd.choice([V("x1"), V(arr), A(arr, I(1))])]])
        else:
            extra.append(["icallsub", "mvbits", [V("s1"), I(0), I(2),
                                                  V("s2"), I(1)]])
    for e in extra:
        body.insert(rnd.randint(0, len(body)), e)
    unit = _unit(rnd, body)
    unit["routines"] += callees
    return unit, None


SCENARIOS["access"] = access


# ============================================================== C12 / C13
def region(rnd, hazard):
    """Straight-line kernels (top-level statements are the region units):
    partial array writes, conditionally written scalars, loops writing half
    an array, read-after-partial-write, SIZE/LBOUND reads."""
    def one():
        x = rnd.random()
        w, r = rnd.sample(["a", "b", "c"], 2)
        if x < 0.12:
            return ["assign", A(w, I(1)), B("+", A(r, rnd.choice([I(1),
                                                                  V("n")])),
                                            R(1.0))]
        if x < 0.22:
            return ["assign", A(w, I(1)), R(rnd.choice([0.0, 2.0]))]
        if x < 0.34:
            return ["do", "i", I(1), rnd.choice([V("n"),
                                                 B("/", V("n"), I(2))]), None,
                    [["assign", A(w, V("i")),
                      B("*", A(rnd.choice([w, r]), V("i")), R(2.0))]]]
        if x < 0.44:
            return ["if", [[C(">", V("x2"), R(0.0)),
                            [["assign", V("x1"), R(1.0)]]]], None]
        if x < 0.52:
            return ["if", [[C(">", A(r, I(1)), R(0.0)),
                            [["assign", V("r1"), A(r, I(1))]]]],
                    [["assign", V("r1"), R(0.0)]] if rnd.random() < 0.5
                    else None]
        if x < 0.62:
            return ["assign", A(w, V("n")), rnd.choice([V("x1"), V("r1")])]
        if x < 0.7:
            return ["assign", V("r1"), B("+", V("x2"), A(r, I(1)))]
        if x < 0.78:
            return ["assign", V("x1"), B("+", V("x1"), rnd.choice(
                [V("r1"), A(r, V("n")), IC("real", IC("size", V(r)), I(8))]))]
        if x < 0.86:
            return ["assign", V(w), B("+", V(r), R(1.0))]      # whole array
        if x < 0.93:
            return ["assign", V("t1"), B("+", V("s1"), I(1))]
        return ["assign", V("s2"), B("+", rnd.choice([V("t1"), V("s1")]),
                                     I(2))]
    body = [["assign", V("r1"), R(0.0)], ["assign", V("t1"), I(0)]]
    body += [one() for _ in range(rnd.randint(3, 7))]
    return _unit(rnd, body), None


SCENARIOS["region"] = region


def region_calls(rnd, hazard):
    """The region scenario plus calls of a module subroutine that updates a
    whole array passed by reference (a READWRITE access that is not a
    Fortran read or write statement)."""
    from vf.flite import decl
    unit, _ = region(rnd, hazard)
    body = unit["routines"][0]["body"]
    for _ in range(rnd.randint(1, 2)):
        arr = rnd.choice(["a", "b", "c"])
        body.insert(rnd.randint(2, len(body)),
                    ["call", "upd", [V(arr), V("n"), V("s1")]])
    unit["routines"].append({
        "kind": "subroutine", "name": "upd", "args": ["v", "m", "kk"],
        "decls": [decl("m", "i", intent="in"),
                  decl("v", "r", [[None, V("m")]], intent="inout"),
                  decl("kk", "i", intent="inout"), decl("jj", "i")],
        "body": [["do", "jj", I(2), V("m"), None,
                  [["assign", A("v", V("jj")),
                    B("+", A("v", V("jj")), A("v", B("-", V("jj"), I(1))))]]],
                 ["assign", V("kk"), B("+", V("kk"), I(1))]],
        "result": None})
    return unit, None


SCENARIOS["region_calls"] = region_calls
