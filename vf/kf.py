"""Known-finding predicates.  Each takes (witness, params) and returns True
only if the witness shows exactly the recorded mechanism.  Facts used here
are computed by the checks independently of PSyclone (planted hazard id,
dynamic trace facts, minimal operation), never seeds, hashes or values."""


def kind_and_mechanism(w, p):
    """Generic: witness kind and its 'mechanism' fact both match."""
    return (w.get("kind") == p.get("kind")
            and w.get("mechanism") == p.get("mechanism")
            and w.get("mechanism") is not None)


def mechanism_in_kinds(w, p):
    """witness mechanism equals the recorded one and the failing sub-oracle
    is one of the recorded kinds."""
    return (w.get("mechanism") is not None
            and w.get("mechanism") == p.get("mechanism")
            and w.get("kind") in p.get("kinds", []))
