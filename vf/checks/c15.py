"""C15 Copies of PSyIR subtrees are independent and equal.

Monitors on the real Node.copy(): (1) copy == original; (2) no node object is
shared; (3) inside the copy, every reference (in the tree, in datatypes: array
bounds, kind parameters, initial values) to a symbol declared in a copied
scope resolves to the copy's own symbol object; (4) after an edit history on
one tree the other's FortranWriter text is unchanged.
"""
import random

from vf import fgen, flite, scen, psy
from vf.core import Part

PROPERTY = "C15"
LEVEL = "exploration"

TEMPLATES = [
    # kind parameter used by declarations and literals
    """module tmod
  implicit none
  integer, parameter :: wp = kind(1.0d0)
  integer, parameter :: nmax = 4
contains
  subroutine sub(a, n)
    integer, intent(in) :: n
    real(kind=wp), intent(inout) :: a(n)
    integer, parameter :: k = kind(1.0d0)
    integer, parameter :: m = 3
    real(kind=k) :: w(m), x
    real(kind=k), parameter :: two = 2.0_k
    integer :: i
    x = 2.0_k * two
    do i = 1, m
      w(i) = x + 1.0_wp
    end do
    a(1) = w(1) + real(nmax, k)
  end subroutine sub
end module tmod
""",
    """module umod
  implicit none
contains
  subroutine outer(b, n)
    integer, intent(in) :: n
    real, intent(inout) :: b(n)
    integer, parameter :: lo = 2, hi = lo + 3
    real :: t(lo:hi)
    integer :: j
    do j = lo, hi
      t(j) = real(j)
    end do
    if (n > hi) then
      b(hi) = t(lo) + sum(t)
    else
      b(1) = inner(t(lo))
    end if
  end subroutine outer
  function inner(p) result(q)
    real, intent(in) :: p
    real :: q
    q = p * 2.0
  end function inner
end module umod
""",
    # the same name declared in two nested scopes (module variable and
    # routine local used as loop variable); mixed-case routine names
    """module vmod
  implicit none
  integer :: i
  real :: acc
contains
  subroutine Driver_A(c, n)
    integer, intent(in) :: n
    real, intent(inout) :: c(n)
    integer :: i
    real :: acc
    acc = 0.0
    do i = 1, n
      acc = acc + c(i)
      c(i) = My_Func(c(i)) + acc
    end do
    call Sub_B(c, n)
  end subroutine Driver_A
  real function My_Func(x)
    real, intent(in) :: x
    My_Func = x * 2.0
  end function My_Func
  subroutine Sub_B(d, m)
    integer, intent(in) :: m
    real, intent(inout) :: d(m)
    i = m
    acc = d(1)
    d(1) = acc + real(i)
  end subroutine Sub_B
end module vmod
""",
]


def scoping_nodes(root):
    from psyclone.psyir.nodes import ScopingNode
    return [n for n in root.walk(ScopingNode)
            if n._symbol_table is not None]


def symbols_referenced_in_type(sym):
    """Symbols a symbol's datatype / initial value refer to."""
    from psyclone.psyir.nodes import Reference
    from psyclone.psyir.symbols import (DataSymbol, ArrayType, ScalarType,
                                        DataTypeSymbol)
    out = []
    dt = getattr(sym, "datatype", None)

    def from_type(t):
        if isinstance(t, DataTypeSymbol):
            out.append(("type", t))
            return
        if isinstance(t, ArrayType):
            for dim in t.shape:
                if isinstance(dim, ArrayType.ArrayBounds):
                    for b in (dim.lower, dim.upper):
                        if hasattr(b, "walk"):
                            for r in b.walk(Reference):
                                out.append(("bound", r.symbol))
            from_type(t.intrinsic if not isinstance(
                t.intrinsic, ScalarType.Intrinsic) else None)
            p = t.precision
            if isinstance(p, DataSymbol):
                out.append(("kind", p))
        elif isinstance(t, ScalarType):
            if isinstance(t.precision, DataSymbol):
                out.append(("kind", t.precision))
    if dt is not None:
        from_type(dt)
    iv = getattr(sym, "initial_value", None)
    if iv is not None and hasattr(iv, "walk"):
        for r in iv.walk(Reference):
            out.append(("initial_value", r.symbol))
        from psyclone.psyir.nodes import Literal
        for lit in iv.walk(Literal):
            p = lit.datatype.precision
            if isinstance(p, DataSymbol):
                out.append(("literal_kind", p))
    return out


def check_copy(orig, cp, part, desc):
    """Structural monitors (1)-(3).  Returns list of (kind, mechanism, what)."""
    from psyclone.psyir.nodes import Reference, Literal, Loop, Call
    from psyclone.psyir.symbols import DataSymbol
    bad = []
    try:
        if cp != orig:
            bad.append(("copy_not_equal", None, "copy() != original"))
    except Exception as err:
        bad.append(("copy_equality_raised", None, str(err)[:100]))
    oids = {id(n) for n in orig.walk(object)}
    shared = [n for n in cp.walk(object) if id(n) in oids]
    if shared:
        bad.append(("node_shared", None, "%d node objects shared, e.g. %s" % (
            len(shared), type(shared[0]).__name__)))
    # symbols of copied scopes
    otabs = scoping_nodes(orig)
    ctabs = scoping_nodes(cp)
    if len(otabs) != len(ctabs):
        bad.append(("scope_count_differs", None, "scoping nodes differ"))
        return bad
    osyms = {}
    for sc in otabs:
        for s in sc._symbol_table.symbols:
            osyms[id(s)] = s
    csyms = {}
    for sc in ctabs:
        for s in sc._symbol_table.symbols:
            csyms[id(s)] = s
            if id(s) in osyms:
                bad.append(("symbol_object_shared", None,
                            "symbol '%s' is the same object in both tables"
                            % s.name))
    # references in the copy must not point at the original's symbols
    for r in cp.walk(Reference):
        if id(r.symbol) in osyms and id(r.symbol) not in csyms:
            bad.append(("reference_resolves_to_original_symbol", None,
                        "Reference '%s' in the copy points at the "
                        "original's symbol" % r.symbol.name))
            break
    for lp in cp.walk(Loop):
        if id(lp.variable) in osyms and id(lp.variable) not in csyms:
            bad.append(("loop_variable_is_original_symbol", None,
                        "Loop.variable '%s'" % lp.variable.name))
            break
    # scope-correct binding: a reference / loop variable that is bound, in
    # the original, to the symbol object of scope k must be bound, in the
    # copy, to the symbol object of the copy's scope k with that name
    oscope = {}
    for k, sc in enumerate(otabs):
        for s_ in sc._symbol_table.symbols:
            oscope[id(s_)] = k

    def bound_ok(osym, csym):
        k = oscope.get(id(osym))
        if k is None:
            return True
        want = ctabs[k]._symbol_table._symbols.get(osym.name.lower())
        return want is csym
    for ro, rc in zip(orig.walk(Reference), cp.walk(Reference)):
        if not bound_ok(ro.symbol, rc.symbol):
            bad.append(("reference_bound_to_wrong_scope", None,
                        "Reference '%s' is bound to the symbol of scope %s "
                        "in the original but not to the copy's symbol of "
                        "that scope" % (ro.symbol.name,
                                        oscope.get(id(ro.symbol)))))
            break
    for lo_, lc_ in zip(orig.walk(Loop), cp.walk(Loop)):
        if not bound_ok(lo_.variable, lc_.variable):
            bad.append(("loop_variable_bound_to_wrong_scope", None,
                        "Loop.variable '%s' is bound to the symbol of scope "
                        "%s in the original but not to the copy's symbol of "
                        "that scope" % (lo_.variable.name,
                                        oscope.get(id(lo_.variable)))))
            break
    for lit in cp.walk(Literal):
        p = lit.datatype.precision
        if isinstance(p, DataSymbol) and id(p) in osyms and \
                id(p) not in csyms:
            bad.append(("literal_kind_is_original_symbol",
                        "copy.shared_symbol_inside_datatype",
                        "Literal %s_%s in the copy uses the original's kind "
                        "symbol" % (lit.value, p.name)))
            break
    for sc in ctabs:
        for s in sc._symbol_table.symbols:
            for how, ref in symbols_referenced_in_type(s):
                if id(ref) in osyms and id(ref) not in csyms:
                    bad.append(("datatype_refers_to_original_symbol",
                                "copy.shared_symbol_inside_datatype",
                                "copied symbol '%s': its %s refers to the "
                                "original's symbol '%s'" % (s.name, how,
                                                            ref.name)))
                    break
    return bad


EDITS = ["rename_local", "add_symbol", "change_literal", "remove_statement",
         "rename_parameter", "add_statement"]


def apply_edit(tree, rnd, edit):
    """One edit through public APIs; returns description or None."""
    from psyclone.psyir.nodes import (Routine, Literal, Assignment, Schedule,
                                      Reference, Container)
    from psyclone.psyir.symbols import (DataSymbol, INTEGER_TYPE,
                                        AutomaticInterface, StaticInterface)
    scopes = scoping_nodes(tree)
    if not scopes:
        return None
    sc = rnd.choice(scopes)
    st = sc._symbol_table
    if edit in ("rename_local", "rename_parameter"):
        cands = [s for s in st.symbols if isinstance(s, DataSymbol)
                 and not s.is_argument and not s.is_import
                 and (s.is_constant == (edit == "rename_parameter"))]
        rnd.shuffle(cands)
        for s in cands:
            try:
                old = s.name
                new = st.next_available_name(old + "_ren")
                st.rename_symbol(s, new)
                return "%s %s->%s" % (edit, old, new)
            except Exception:
                continue
        return None
    if edit == "add_symbol":
        s = st.new_symbol("zz_added", symbol_type=DataSymbol,
                          datatype=INTEGER_TYPE)
        return "add_symbol " + s.name
    if edit == "change_literal":
        lits = [l for l in tree.walk(Literal)
                if l.parent is not None and
                l.datatype.intrinsic.name == "INTEGER"]
        if not lits:
            return None
        l = rnd.choice(lits)
        try:
            l.replace_with(Literal("77", INTEGER_TYPE))
        except Exception:
            return None
        return "change_literal"
    if edit == "remove_statement":
        asg = [a for a in tree.walk(Assignment)
               if isinstance(a.parent, Schedule)]
        if not asg:
            return None
        rnd.choice(asg).detach()
        return "remove_statement"
    if edit == "add_statement":
        routines = tree.walk(Routine)
        if not routines:
            return None
        r = rnd.choice(routines)
        ints = [s for s in r.symbol_table.symbols
                if isinstance(s, DataSymbol) and not s.is_constant and
                getattr(s.datatype, "intrinsic", None) is not None and
                str(s.datatype).startswith("Scalar<INTEGER") and
                not s.is_argument]
        if not ints:
            return None
        r.addchild(Assignment.create(Reference(rnd.choice(ints)),
                                     Literal("5", INTEGER_TYPE)))
        return "add_statement"
    return None


def judge_source(text, part, rnd, tag, nsub, nedits):
    from psyclone.psyir.nodes import (Routine, Container, Loop, IfBlock,
                                      Assignment, Schedule, FileContainer)
    try:
        tree = psy.read(text)
    except Exception:
        part.count("reader_failed")
        return False
    cands = [n for n in tree.walk((Routine, Container, Loop, IfBlock,
                                   Assignment, Schedule))]
    rnd.shuffle(cands)
    done = False
    for node in cands[:nsub]:
        try:
            cp = node.copy()
        except Exception as err:
            part.violation({"kind": "copy_raised", "mechanism": None,
                            "what": "%s.copy(): %s: %s" % (
                                type(node).__name__, type(err).__name__,
                                str(err)[:150]),
                            "source": text, "dedupe": type(err).__name__})
            continue
        part.count("copies")
        part.count("copies:" + type(node).__name__)
        done = True
        for kind, mech, what in check_copy(node, cp, part,
                                           type(node).__name__):
            part.violation({"kind": kind, "mechanism": mech,
                            "what": "copy of %s in %s: %s" % (
                                type(node).__name__, tag, what),
                            "source": text,
                            "dedupe": (kind, type(node).__name__)})
    # (4) edit independence on whole-tree copies
    for which in ("edit_copy", "edit_original"):
        tree = psy.read(text)
        cp = tree.copy()
        try:
            t_orig0, t_cp0 = psy.write(tree), psy.write(cp)
        except Exception:
            part.count("writer_failed")
            continue
        victim, other, other0 = (cp, tree, t_orig0) if which == "edit_copy" \
            else (tree, cp, t_cp0)
        hist = []
        for _ in range(nedits):
            e = rnd.choice(EDITS)
            try:
                d = apply_edit(victim, rnd, e)
            except Exception as err:
                d = None
            if d:
                hist.append(d)
        if not hist:
            continue
        part.count("edit_histories")
        done = True
        try:
            other1 = psy.write(other)
        except Exception as err:
            other1 = "writer raised %s: %s" % (type(err).__name__,
                                               str(err)[:100])
        if other1 != other0:
            import difflib
            diff = [l for l in difflib.unified_diff(
                other0.splitlines(), other1.splitlines(), lineterm="", n=0)
                if l[:1] in "+-" and l[:3] not in ("+++", "---")]
            renames = [h for h in hist if h.startswith("rename")]
            mech = None
            if renames and (other1.startswith("writer raised") or
                            all(renamed_only(diff, renames))):
                # a renamed symbol of the edited tree is referred to from
                # inside the other tree's datatypes / literals (or is now
                # undeclared there, so the writer refuses)
                mech = "copy.shared_symbol_inside_datatype"
            part.violation({
                "kind": "edit_of_one_tree_changed_the_other",
                "mechanism": mech,
                "what": "%s %s changed the %s's written code: %s" % (
                    which, hist, "original" if which == "edit_copy" else
                    "copy", " | ".join(diff[:4])[:300]),
                "source": text, "history": hist,
                "dedupe": (which, mech, tuple(sorted(set(
                    h.split()[0] for h in hist))))})
    return done


def renamed_only(diff, renames):
    """Every changed line mentions the old or the new name of a rename that
    was applied to the OTHER tree (the shared-symbol mechanism: the edit can
    only have travelled through a symbol object both trees refer to)."""
    import re
    names = set()
    for r in renames:
        old, new = r.split()[1].split("->")
        names.update((old.lower(), new.lower()))
    for l in diff:
        low = l[1:].lower()
        # substring test: a kind suffix such as 1.0_wp has no word boundary
        yield any(n in low for n in names)


def batch(arg):
    part = Part()
    rnd = random.Random(arg["seed"])
    for n in range(arg["count"]):
        x = rnd.random()
        if x < 0.25:
            text = rnd.choice(TEMPLATES)
            tag = "template"
        elif x < 0.6:
            name = rnd.choice(sorted(scen.SCENARIOS))
            unit, _ = scen.make(name, rnd.random(), False)
            text = flite.module_text(unit)
            tag = "scen:" + name
        else:
            unit, _ = fgen.kernel_unit(rnd, {"nstmts": rnd.randint(2, 6)})
            text = flite.module_text(unit)
            tag = "generic"
        ok = judge_source(text, part, rnd, tag, arg["nsub"], arg["nedits"])
        part.case(key=(text, n) if tag == "template" else text,
                  nontrivial=ok, sample=text[:500] if n == 0 else None)
    return part


def main(ctx):
    ctx.rule = ("sources: 2 hand-written templates with kind parameters, "
                "parameter-dependent array bounds and initial values, all "
                "scenario generators, generic random kernels; for each "
                "source up to N random subtrees (Routine, Container, Loop, "
                "IfBlock, Assignment, Schedule) are copied and checked, and "
                "edit histories (rename local/parameter, add symbol, change "
                "literal, remove/add statement) are applied to the copy or "
                "the original; distinct by source text (+ draw for "
                "templates)")
    nb = 32 if ctx.quick else 128
    jobs = [{"seed": ctx.rng("b", i).random(), "count": 12 if ctx.quick else 60,
             "nsub": 8 if ctx.quick else 20, "nedits": 4 if ctx.quick else 8}
            for i in range(nb)]
    for res in ctx.pmap("vf.checks.c15", "batch", jobs, timeout=3400):
        if res:
            ctx.merge(res)
    if ctx.counters.get("copies", 0) == 0:
        ctx.inconclusive("no copy was made")
