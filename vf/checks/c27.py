"""C27 Module dependency sort orders dependencies first.

Monitor: icontract post-condition on the real ModuleManager.sort_modules.
Workload: exhaustive enumeration of dependency maps (labelled digraphs with
self loops and one unknown module name) up to a bound + random larger maps.
"""
import itertools

from vf.core import Part

PROPERTY = "C27"
LEVEL = "exploration"

NAMES = ["a", "b", "c", "d", "e", "f", "g", "h", "i"]
UNKNOWN = "zz_unknown"


class PostBroken(Exception):
    pass


_STATE = {"evals": 0}


def _acyclic(graph):
    """graph: dict name -> set of known deps (self loops count as cycles)."""
    state = {}

    def visit(n):
        if state.get(n) == 1:
            return False
        if state.get(n) == 2:
            return True
        state[n] = 1
        for m in graph[n]:
            if not visit(m):
                return False
        state[n] = 2
        return True
    return all(visit(n) for n in graph)


def _post(module_dependencies, result, OLD):
    """The property, evaluated on the real call's argument and result."""
    _STATE["evals"] += 1
    keys = list(module_dependencies.keys())
    # input not mutated
    if OLD.snap != {k: frozenset(v) for k, v in module_dependencies.items()}:
        _STATE["why"] = "input mutated"
        return False
    if sorted(result) != sorted(keys) or len(result) != len(keys):
        _STATE["why"] = "not a permutation of the keys: %r" % (result,)
        return False
    known = {k: {d for d in v if d in module_dependencies}
             for k, v in module_dependencies.items()}
    if _acyclic(known):
        pos = {m: i for i, m in enumerate(result)}
        for m, deps in known.items():
            for d in deps:
                if pos[d] >= pos[m]:
                    _STATE["why"] = "%s before its dependency %s: %r" % (
                        m, d, result)
                    return False
    return True


def _snap(module_dependencies):
    return {k: frozenset(v) for k, v in module_dependencies.items()}


def _install():
    import icontract
    from psyclone.parse import module_manager as mm
    mm.print = lambda *a, **k: None      # silence the warnings (harness only)
    cls = mm.ModuleManager
    if getattr(cls.sort_modules, "_vf_wrapped", False):
        return mm
    wrapped = icontract.snapshot(_snap, name="snap")(
        icontract.ensure(_post, error=PostBroken)(cls.sort_modules))
    wrapped._vf_wrapped = True
    cls.sort_modules = wrapped
    return mm


def _graph_from_bits(n, bits, with_unknown, with_self):
    """Decode integer `bits` into a dependency map over NAMES[:n]."""
    names = NAMES[:n]
    g = {}
    b = bits
    for i, m in enumerate(names):
        deps = set()
        for j, d in enumerate(names):
            if i == j and not with_self:
                continue
            if b & 1:
                deps.add(d)
            b >>= 1
        if with_unknown:
            if b & 1:
                deps.add(UNKNOWN)
            b >>= 1
        g[m] = deps
    return g


def nbits(n, with_unknown, with_self):
    per = n if with_self else n - 1
    if with_unknown:
        per += 1
    return n * per


def set_ignores(mgr, names):
    """Configure the manager's ignore list through its public API."""
    ign = mgr.ignores()
    if hasattr(ign, "clear"):
        ign.clear()
    for nm in names:
        mgr.add_ignore_module(nm)


def enum_batch(arg):
    """Worker: enumerate graphs bits in [lo, hi)."""
    part = Part()
    mm = _install()
    mgr = mm.ModuleManager.get()
    n, lo, hi = arg["n"], arg["lo"], arg["hi"]
    wu, ws = arg["unknown"], arg["self"]
    set_ignores(mgr, arg.get("ignore", []))
    cyc = acyc = 0
    for bits in range(lo, hi):
        g = _graph_from_bits(n, bits, wu, ws)
        try:
            res = mgr.sort_modules(g)
        except PostBroken:
            part.violation({"kind": "sort_postcondition",
                            "what": _STATE.get("why", "?") + " (ignore list "
                            "%s)" % arg.get("ignore", []),
                            "graph": {k: sorted(v) for k, v in g.items()},
                            "ignore": arg.get("ignore", [])})
            continue
        except Exception as err:   # the sort must always yield a list
            part.violation({"kind": "sort_raised",
                            "what": "%s: %s" % (type(err).__name__, err),
                            "graph": {k: sorted(v) for k, v in g.items()}})
            continue
        known = {k: {d for d in v if d in g} for k, v in g.items()}
        if _acyclic(known):
            acyc += 1
        else:
            cyc += 1
        if bits == lo:
            part.d["samples"].append(
                {"deps": {k: sorted(v) for k, v in g.items()}, "sorted": res})
    part.d["evaluations"] = hi - lo
    part.count("acyclic_maps", acyc)
    part.count("cyclic_maps", cyc)
    part.count("contract_evaluations", _STATE["evals"])
    part.count("n=%d" % n, hi - lo)
    return part


def random_batch(arg):
    import random
    part = Part()
    mm = _install()
    mgr = mm.ModuleManager.get()
    rnd = random.Random(arg["seed"])
    for _ in range(arg["count"]):
        n = rnd.randint(5, 9)
        set_ignores(mgr, [x for x in NAMES[:n] + [UNKNOWN]
                          if rnd.random() < 0.12])
        names = NAMES[:n]
        rnd.shuffle(names)
        dens = rnd.choice([0.05, 0.15, 0.3, 0.6])
        if rnd.random() < 0.5:
            # acyclic by construction w.r.t. a hidden order, inserted shuffled
            order = names[:]
            rnd.shuffle(order)
            g = {m: {d for d in order[:order.index(m)]
                     if rnd.random() < dens} for m in names}
        else:
            g = {m: {d for d in names if rnd.random() < dens} for m in names}
        for m in names:
            if rnd.random() < 0.15:
                g[m].add(UNKNOWN)
            if rnd.random() < 0.05:
                g[m].add("other_unknown")
        try:
            mgr.sort_modules(g)
        except PostBroken:
            part.violation({"kind": "sort_postcondition",
                            "what": _STATE.get("why", "?"),
                            "graph": {k: sorted(v) for k, v in g.items()}})
        except Exception as err:
            part.violation({"kind": "sort_raised",
                            "what": "%s: %s" % (type(err).__name__, err),
                            "graph": {k: sorted(v) for k, v in g.items()}})
        known = {k: {d for d in v if d in g} for k, v in g.items()}
        part.count("acyclic_maps" if _acyclic(known) else "cyclic_maps")
        part.d["evaluations"] += 1
    part.count("contract_evaluations", _STATE["evals"])
    part.count("random_maps", arg["count"])
    return part


def main(ctx):
    ctx.rule = ("every dependency map over <=N modules (labelled digraph, "
                "self loops, one unknown module name) enumerated exhaustively;"
                " larger maps random.  A map is non-trivial/distinct per "
                "decoded bit pattern; the post-condition is an icontract "
                "ensure on the real ModuleManager.sort_modules.")
    jobs = []
    # exhaustive spaces: (n, unknown, self)
    spaces = [(1, True, True), (2, True, True), (3, True, True),
              (4, True, True)]
    if not ctx.quick:
        spaces.append((5, False, False))       # 2^20 loop-free known-only
    for n, wu, ws in spaces:
        total = 1 << nbits(n, wu, ws)
        chunk = max(1, total // 32)
        # quick: the 2^20 maps over four modules are sampled (the first
        # 1/32 of each of 32 slices: all high-bit patterns, low bits swept)
        width = chunk // 32 if (ctx.quick and n >= 4) else chunk
        for lo in range(0, total, chunk):
            jobs.append(("enum_batch", {"n": n, "lo": lo,
                                        "hi": min(total, lo + width),
                                        "unknown": wu, "self": ws}))
    # the same spaces (n <= 3 exhaustively) with every ignore-list subset
    # of {listed names, unknown name}; n = 4 with three ignore lists
    import itertools
    for n in (1, 2, 3):
        universe = NAMES[:n] + [UNKNOWN]
        total = 1 << nbits(n, True, True)
        for r in range(1, len(universe) + 1):
            for ign in itertools.combinations(universe, r):
                jobs.append(("enum_batch", {"n": n, "lo": 0, "hi": total,
                                            "unknown": True, "self": True,
                                            "ignore": list(ign)}))
    for ign in (["a"], [UNKNOWN], ["b", UNKNOWN]):
        total = 1 << nbits(4, True, True)
        chunk = max(1, total // 16)
        width = chunk // 128 if ctx.quick else chunk
        for lo in range(0, total, chunk):
            jobs.append(("enum_batch", {"n": 4, "lo": lo,
                                        "hi": min(total, lo + width),
                                        "unknown": True, "self": True,
                                        "ignore": ign}))
    nrand = 20 if ctx.quick else 64
    per = 1500 if ctx.quick else 20000
    for i in range(nrand):
        jobs.append(("random_batch", {"seed": ctx.rng("rand", i).random(),
                                      "count": per}))
    import concurrent.futures as cf
    for fn in ("enum_batch", "random_batch"):
        args = [a for f, a in jobs if f == fn]
        for res in ctx.pmap("vf.checks.c27", fn, args, timeout=1500):
            if res is None:
                continue
            # distinctness: each enumerated bit pattern is distinct by
            # construction; random maps are counted conservatively as 0.
            ctx.merge(res)
    distinct = sum(v for k, v in ctx.counters.items() if k.startswith("n="))
    ctx.extra["ignore_lists"] = ("every subset of {listed names, unknown} "
                                 "for n<=3; three lists for n=4")
    ctx._distinct = set(range(distinct))
    ctx.extra["exhaustive"] = True
    ctx.extra["exhaustive_bound"] = [
        "n=%d unknown=%s self_loops=%s" % s for s in spaces
        if not (ctx.quick and s[0] >= 4)]
    if ctx.counters.get("contract_evaluations", 0) == 0:
        ctx.inconclusive("contract never evaluated (sort_modules rebound?)")
    ctx.assumptions.append("ModuleManager.get() singleton state (ignores) is "
                           "empty; warnings printed by the sort are silenced")
