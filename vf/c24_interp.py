"""C24 helper: (1) a sequential interpreter of the *text* of `call invoke(...)`
statements over the program variables of vf.c24_gen's catalogue; (2) a static
monitor that parses the generated algorithm-layer call and the generated
PSy-layer routine and maps every kernel argument back to a program variable.

Independent of PSyclone: only Python string handling and exact rational
arithmetic.  Every arithmetic step is checked to be exactly representable as
an IEEE double (otherwise `Inexact` is raised and the case is not judged).
"""
import re
from fractions import Fraction

from vf import c24_gen as G


class Inexact(Exception):
    """a value left the exactly representable domain: case not judged"""


class TextError(Exception):
    """the invoke text could not be read by this interpreter (harness)"""


# ------------------------------------------------------------------- parsing
def _split_top(s):
    """split at top-level commas (parentheses and quotes respected)"""
    out, depth, cur, q = [], 0, [], None
    for ch in s:
        if q:
            cur.append(ch)
            if ch == q:
                q = None
            continue
        if ch in "'\"":
            q = ch
            cur.append(ch)
        elif ch == "(":
            depth += 1
            cur.append(ch)
        elif ch == ")":
            depth -= 1
            cur.append(ch)
        elif ch == "," and depth == 0:
            out.append("".join(cur))
            cur = []
        else:
            cur.append(ch)
    if "".join(cur).strip() or out:
        out.append("".join(cur))
    return out


def join_continuations(text):
    """free-form continuation lines -> one logical line (no comments or
    character-context continuations are generated here)"""
    out = []
    for ln in text.splitlines():
        s = ln.rstrip()
        if out and out[-1].endswith("&"):
            prev = out[-1][:-1]
            s2 = s.lstrip()
            if s2.startswith("&"):
                s2 = s2[1:]
            out[-1] = prev + " " + s2
        else:
            out.append(s)
    return "\n".join(out)


def parse_invoke(text):
    """`call invoke(...)` statement -> {"name": str|None,
    "calls": [{"kern": lower-case name, "args": [raw text, ...]}]}"""
    s = join_continuations(text).strip()
    m = re.match(r"(?is)^call\s+invoke\s*\((.*)\)\s*$", s)
    if not m:
        raise TextError("not an invoke: %r" % text)
    name = None
    calls = []
    for item in _split_top(m.group(1)):
        it = item.strip()
        mn = re.match(r"(?is)^name\s*=\s*(['\"])(.*)\1$", it)
        if mn:
            name = mn.group(2)
            continue
        mk = re.match(r"(?is)^([a-z][a-z0-9_]*)\s*\((.*)\)$", it)
        if not mk:
            raise TextError("unreadable invoke item %r" % it)
        calls.append({"kern": mk.group(1).lower(),
                      "args": _split_top(mk.group(2))})
    return {"name": name, "calls": calls}


_LIT = re.compile(r"^([+-]?)(\d+(?:\.\d*)?|\.\d+)(?:_([a-z_0-9]+))?$")


def resolve(argtext, ints):
    """argument text -> ("lit", value, "real"|"integer") or
    ("var", canonical designator).  `ints` = current values of the integer
    variables / parameters usable as array indices."""
    t = re.sub(r"\s+", "", argtext).lower()
    m = _LIT.match(t)
    if m:
        is_real = "." in m.group(2)
        v = Fraction(m.group(2))
        if m.group(1) == "-":
            v = -v
        return ("lit", v if is_real else int(v),
                "real" if is_real else "integer")

    def sub(mm):
        ind = mm.group(1)
        if ind.isdigit():
            return "(%d)" % int(ind)
        if ind not in ints:
            raise TextError("index %r of %r has no known value" % (
                ind, argtext))
        return "(%d)" % ints[ind]
    t = re.sub(r"\(([a-z0-9_]+)\)", sub, t)
    return ("var", t)


# ------------------------------------------------------------------ exactness
def _chk(v):
    if isinstance(v, int):
        v = Fraction(v)
    try:
        f = float(v)
    except OverflowError:
        raise Inexact("overflow")
    if Fraction(f) != v:
        raise Inexact("value %s is not a double" % v)
    return v


def _add(a, b):
    return _chk(a + b)


def _sub(a, b):
    return _chk(a - b)


def _mul(a, b):
    return _chk(a * b)


# per-DoF formulas of the built-ins in the operation order of the user guide
# (left to right): function(list of read values in argument order incl. the
# written field's old value at its position) -> new value of the written arg
def _bi_formula(name):
    n = name.lower()
    T = {
        "setval_c": lambda v: v[1],
        "setval_x": lambda v: v[1],
        "x_plus_y": lambda v: _add(v[1], v[2]),
        "inc_x_plus_y": lambda v: _add(v[0], v[1]),
        "a_plus_x": lambda v: _add(v[1], v[2]),
        "inc_a_plus_x": lambda v: _add(v[0], v[1]),
        "ax_plus_y": lambda v: _add(_mul(v[1], v[2]), v[3]),
        "inc_ax_plus_y": lambda v: _add(_mul(v[0], v[1]), v[2]),
        "inc_x_plus_by": lambda v: _add(v[0], _mul(v[1], v[2])),
        "ax_plus_by": lambda v: _add(_mul(v[1], v[2]), _mul(v[3], v[4])),
        "inc_ax_plus_by": lambda v: _add(_mul(v[0], v[1]), _mul(v[2], v[3])),
        "ax_plus_ay": lambda v: _mul(v[1], _add(v[2], v[3])),
        "x_minus_y": lambda v: _sub(v[1], v[2]),
        "inc_x_minus_y": lambda v: _sub(v[0], v[1]),
        "a_minus_x": lambda v: _sub(v[1], v[2]),
        "inc_a_minus_x": lambda v: _sub(v[0], v[1]),
        "x_minus_a": lambda v: _sub(v[1], v[2]),
        "inc_x_minus_a": lambda v: _sub(v[0], v[1]),
        "ax_minus_y": lambda v: _sub(_mul(v[1], v[2]), v[3]),
        "x_minus_by": lambda v: _sub(v[1], _mul(v[2], v[3])),
        "inc_x_minus_by": lambda v: _sub(v[0], _mul(v[1], v[2])),
        "ax_minus_by": lambda v: _sub(_mul(v[1], v[2]), _mul(v[3], v[4])),
        "x_times_y": lambda v: _mul(v[1], v[2]),
        "inc_x_times_y": lambda v: _mul(v[0], v[1]),
        "inc_ax_times_y": lambda v: _mul(_mul(v[0], v[1]), v[2]),
        "a_times_x": lambda v: _mul(v[1], v[2]),
        "inc_a_times_x": lambda v: _mul(v[0], v[1]),
    }
    return T.get(n)


_BI_ROLES = {k.lower(): v for k, v in G.BUILTINS.items()}
_KERN = {k.lower(): v for k, v in G.KERNELS.items()}


def roles_of(kern):
    """roles string of a kernel name as written in the invoke: F written
    field, f read field, r real scalar, R written real scalar, i integer
    scalar, e stencil extent (integer) of the preceding field"""
    k = kern.lower()
    if k in _BI_ROLES:
        return _BI_ROLES[k]
    if k in _KERN:
        return _KERN[k]["roles"]
    raise TextError("unknown kernel %r" % kern)


class State:
    """program variables: fields (lists of Fractions over the compared DoF
    range), real and integer scalars, index variables"""

    def __init__(self, fields, reals, ints_, index, mult_w0, ssz=None):
        self.fields = fields        # designator -> list
        self.reals = reals
        self.ints = ints_
        self.index = index          # idx / i1 / i2 -> int
        self.mult_w0 = mult_w0      # list of ints over the compared range
        self.ssz = ssz or {}        # extent -> per-DoF CROSS stencil size
        self.written = set()

    def value(self, res, want):
        """scalar value of a resolved argument"""
        if res[0] == "lit":
            if want == "r" and res[2] != "real":
                raise TextError("integer literal where a real is expected")
            if want in "ie" and res[2] != "integer":
                raise TextError("real literal where an integer is expected")
            return Fraction(res[1])
        d = res[1]
        if want in "rR":
            if d not in self.reals:
                raise TextError("%r is not a real scalar" % d)
            return self.reals[d]
        if d not in self.ints:
            raise TextError("%r is not an integer scalar" % d)
        return Fraction(self.ints[d])


def run_invoke(state, text, nred):
    """Apply the kernel calls of one invoke, in the order written, to the
    program variables named at the argument positions.  `nred` = number of
    DoFs a reduction runs over.  Returns the parsed invoke (with resolved
    arguments added as "res")."""
    inv = parse_invoke(text)
    for call in inv["calls"]:
        roles = roles_of(call["kern"])
        if len(call["args"]) != len(roles):
            raise TextError("%s: %d arguments written, %d expected" % (
                call["kern"], len(call["args"]), len(roles)))
        res = [resolve(a, state.index) for a in call["args"]]
        call["res"] = res
        call["roles"] = roles
        for r, rr in zip(roles, res):
            if r in "Ff":
                if rr[0] != "var" or rr[1] not in state.fields:
                    raise TextError("%r is not a field" % (rr,))
        fpos = [i for i, r in enumerate(roles) if r in "Ff"]
        spaces = {G.SPACE_OF[res[i][1]] for i in fpos}
        if len(spaces) > 1:
            raise TextError("fields of different spaces in one call")
        k = call["kern"].lower()
        n = len(state.fields[res[fpos[0]][1]])
        if k in ("sum_x", "x_innerproduct_y", "x_innerproduct_x"):
            if res[0][0] != "var" or res[0][1] not in state.reals:
                raise TextError("reduction result must be a real variable")
            acc = Fraction(0)
            f1 = state.fields[res[1][1]]
            f2 = state.fields[res[2][1]] if k == "x_innerproduct_y" else f1
            for d in range(min(nred, n)):
                if k == "sum_x":
                    acc = _add(acc, f1[d])
                else:
                    acc = _add(acc, _mul(f1[d], f2[d]))
            state.reals[res[0][1]] = acc
            state.written.add(res[0][1])
            continue
        wpos = roles.index("F")
        out = state.fields[res[wpos][1]]
        state.written.add(res[wpos][1])

        def val(i, d):
            if roles[i] in "Ff":
                return state.fields[res[i][1]][d]
            return state.value(res[i], roles[i])
        form = _bi_formula(k)
        if form is not None:
            for d in range(n):
                out[d] = form([val(i, d) for i in range(len(roles))])
        elif k == "c24_probe_w3_type":
            for d in range(n):
                t = _add(_mul(2, val(1, d)), _mul(3, val(2, d)))
                out[d] = _add(t, val(3, d))
        elif k == "c24_axpn_w3_type":
            for d in range(n):
                t = _add(val(1, d), _mul(val(0, d), val(2, d)))
                out[d] = _add(t, val(3, d))
        elif k == "c24_inc_w0_type":
            for d in range(n):
                for _ in range(state.mult_w0[d]):
                    out[d] = _add(_add(val(0, d), val(1, d)), val(2, d))
        elif k == "c24_sten_w3_type":
            ext = int(val(2, 0))
            if ext not in state.ssz:
                raise TextError("no stencil sizes for extent %r" % ext)
            sz = state.ssz[ext]
            for d in range(n):
                out[d] = _add(val(1, d), _chk(8 * sz[d] + int(val(3, d))))
        else:
            raise TextError("no semantics for kernel %r" % k)
    return inv


# =============================================================== static monitor
def _logical_lines(text):
    return [ln.strip() for ln in join_continuations(text).splitlines()]


def alg_calls(alg_text):
    """[(routine name lower, [actual argument texts])] of every generated
    `CALL invoke...(...)` in the algorithm layer, in order"""
    out = []
    for ln in _logical_lines(alg_text):
        m = re.match(r"(?i)^call\s+(invoke[a-z0-9_]*)\s*\((.*)\)\s*$", ln)
        if m and m.group(1).lower() != "invoke":
            out.append((m.group(1).lower(), _split_top(m.group(2))))
        elif re.match(r"(?i)^call\s+(invoke[a-z0-9_]*)\s*$", ln):
            out.append((ln.split()[1].lower(), []))
    return out


def psy_routines(psy_text):
    """{routine name lower: {"dummies": [...], "decl": {name: type class},
    "body": [logical lines]}}; type class in field/real/integer/other"""
    res = {}
    cur = None
    for ln in _logical_lines(psy_text):
        m = re.match(r"(?i)^subroutine\s+([a-z0-9_]+)\s*(?:\((.*)\))?\s*$", ln)
        if m:
            cur = {"dummies": [a.strip().lower()
                               for a in _split_top(m.group(2) or "")
                               if a.strip()],
                   "decl": {}, "body": [], "copies": 1}
            if m.group(1).lower() in res:
                # two routines of one name: remember how many
                cur["copies"] = res[m.group(1).lower()]["copies"] + 1
            res[m.group(1).lower()] = cur
            continue
        if re.match(r"(?i)^end\s+subroutine", ln):
            cur = None
            continue
        if cur is None:
            continue
        cur["body"].append(ln)
        if "::" in ln:
            spec, names = ln.split("::", 1)
            sl = spec.lower().replace(" ", "")
            if sl.startswith("type(field_type)"):
                cls = "field"
            elif sl.startswith("real(kind=r_def)") and "dimension" not in sl \
                    and "pointer" not in sl:
                cls = "real"
            elif sl.startswith("integer(kind=i_def)") and \
                    "dimension" not in sl and "pointer" not in sl:
                cls = "integer"
            else:
                cls = "other:" + sl[:40]
            for nm in _split_top(names):
                nm = nm.strip().lower()
                base = re.match(r"[a-z0-9_]+", nm)
                if base:
                    if "(" in nm and cls in ("field", "real", "integer"):
                        cur["decl"][base.group(0)] = "other:array of " + cls
                    else:
                        cur["decl"][base.group(0)] = cls
    return res


def _class_of_actual(txt, ints):
    r = resolve(txt, ints)
    if r[0] == "lit":
        return r[2], r
    d = r[1]
    if d in G.SPACE_OF or d == "mult_w0":
        return "field", r
    if d in G.REALS:
        return "real", r
    if d in G.INTS:
        return "integer", r
    if any(x.startswith(d + "(") for x in list(G.SPACE_OF) + list(G.REALS)
           + list(G.INTS)):
        return "whole_array", r
    return "unknown", r


def static_check(invoke_text, ints, call, routine):
    """Compare one generated algorithm-layer call `call` = (name, actuals)
    with the generated PSy-layer `routine` (from psy_routines) and with the
    invoke text.  Returns (list of problems, stats dict).  A problem is
    (kind, message)."""
    problems = []
    stats = {"actuals": len(call[1]), "kernel_args_mapped": 0}
    dummies = routine["dummies"]
    actuals = call[1]
    if len(set(dummies)) != len(dummies):
        dup = sorted({d for d in dummies if dummies.count(d) > 1})
        problems.append(("psy_routine_declares_an_argument_twice",
                         "SUBROUTINE %s(%s): dummy argument(s) %s appear "
                         "more than once" % (call[0], ", ".join(dummies),
                                             ", ".join(dup))))
        return problems, stats
    if len(dummies) != len(actuals):
        problems.append(("alg_call_and_psy_routine_differ_in_argument_count",
                         "call %s passes %d arguments, the routine declares "
                         "%d: (%s) vs (%s)" % (
                             call[0], len(actuals), len(dummies),
                             ", ".join(a.strip() for a in actuals),
                             ", ".join(dummies))))
        return problems, stats
    bind = {}          # dummy -> resolved actual
    for a, d in zip(actuals, dummies):
        try:
            cls, r = _class_of_actual(a, ints)
        except TextError as err:
            problems.append(("alg_call_argument_unreadable", str(err)))
            return problems, stats
        dcl = routine["decl"].get(d)
        if cls == "unknown":
            problems.append(("alg_call_passes_unknown_variable",
                             "actual argument %r of the generated call %s(%s)"
                             " is not a variable of the program" % (
                                 a.strip(), call[0], ", ".join(
                                     x.strip() for x in actuals))))
            continue
        if cls == "whole_array":
            problems.append(("alg_call_passes_whole_array_for_element",
                             "actual argument %r of the generated call %s(%s)"
                             " is a whole array; dummy %r is declared %s" % (
                                 a.strip(), call[0], ", ".join(
                                     x.strip() for x in actuals), d, dcl)))
            continue
        if dcl != cls:
            problems.append(("alg_call_and_psy_routine_differ_in_type",
                             "actual %r (%s) is passed to dummy %r declared "
                             "%s in %s" % (a.strip(), cls, d, dcl, call[0])))
        bind[d] = r
    if problems:
        return problems, stats
    # ---- data flow: proxies and data pointers of the routine
    proxy_of = {}      # proxy name -> dummy
    data_of = {}       # data pointer name -> dummy
    sten_extent = {}   # stencil map name -> extent token
    sten_size_of = {}  # stencil size pointer -> stencil map name
    for ln in routine["body"]:
        m = re.match(r"(?i)^([a-z0-9_]+)\s*=>\s*[a-z0-9_]+\s*%\s*vspace\s*%"
                     r"\s*get_stencil_dofmap\s*\(\s*[a-z0-9_]+\s*,(.*)\)$",
                     ln)
        if m:
            sten_extent[m.group(1).lower()] = m.group(2).strip()
            continue
        m = re.match(r"(?i)^([a-z0-9_]+)\s*=>\s*([a-z0-9_]+)\s*%\s*"
                     r"get_stencil_sizes\s*\(\s*\)$", ln)
        if m:
            sten_size_of[m.group(1).lower()] = m.group(2).lower()
            continue
        m = re.match(r"(?i)^([a-z0-9_]+)\s*=\s*([a-z0-9_]+)\s*%\s*get_proxy"
                     r"\s*\(\s*\)$", ln)
        if m:
            proxy_of[m.group(1).lower()] = m.group(2).lower()
            continue
        m = re.match(r"(?i)^([a-z0-9_]+)\s*=>\s*([a-z0-9_]+)\s*%\s*data$", ln)
        if m:
            data_of[m.group(1).lower()] = proxy_of.get(m.group(2).lower())

    def designate(tok):
        """PSy-layer expression token -> resolved program argument"""
        t = re.sub(r"\s+", "", tok).lower()
        t = re.sub(r"\([a-z0-9_]+\)$", "", t)    # loop index (df, df_1, ..)
        if t in data_of and data_of[t] in bind:
            return bind[data_of[t]]
        m2 = re.match(r"^([a-z0-9_]+)%data$", t)
        if m2 and proxy_of.get(m2.group(1)) in bind:
            return bind[proxy_of[m2.group(1)]]
        if t in bind:
            return bind[t]
        try:
            r2 = resolve(t, {})
        except TextError:
            return None
        return r2 if r2[0] == "lit" else None

    # kernel events of the routine, in order
    events = []
    body = routine["body"]
    i = 0
    while i < len(body):
        ln = body[i]
        m = re.match(r"(?i)^call\s+([a-z0-9_]+_code)\s*\((.*)\)$", ln)
        if m:
            events.append(("kern", m.group(1).lower(), _split_top(m.group(2))))
        m = re.match(r"(?i)^!\s*built-in:\s*([a-z0-9_]+)", ln)
        if m:
            stm = []
            j = i + 1
            while j < len(body) and not re.match(r"(?i)^end\s*do", body[j]):
                if body[j] and not body[j].startswith("!"):
                    stm.append(body[j])
                j += 1
            events.append(("bi", m.group(1).lower(), stm))
            i = j
        i += 1
    inv = parse_invoke(invoke_text)
    if len(events) != len(inv["calls"]):
        problems.append(("psy_routine_kernel_count_differs",
                         "%d kernels/built-ins in routine %s, %d in the "
                         "invoke" % (len(events), call[0], len(inv["calls"]))))
        return problems, stats
    for ev, kc in zip(events, inv["calls"]):
        roles = roles_of(kc["kern"])
        want = [resolve(a, ints) for a in kc["args"]]
        if ev[0] == "kern":
            if ev[1] != kc["kern"].lower()[:-5] + "_code":
                problems.append(("psy_routine_kernel_order_differs",
                                 "routine calls %s where the invoke has %s"
                                 % (ev[1], kc["kern"])))
                continue
            got, shown = [], []
            pos = 1
            for r in roles:
                if r == "e":
                    # <size>(cell), <dofmap>(:,:,cell) follow the field
                    sname = re.sub(r"\(.*$", "", ev[2][pos].strip()).lower()
                    tok = sten_extent.get(sten_size_of.get(sname, ""), "")
                    got.append(designate(tok) if tok else None)
                    shown.append("%s [extent %s]" % (sname, tok))
                    pos += 2
                else:
                    got.append(designate(ev[2][pos]))
                    shown.append(ev[2][pos].strip())
                    pos += 1
            for p, (g, w) in enumerate(zip(got, want)):
                stats["kernel_args_mapped"] += 1
                if g != w:
                    problems.append((
                        "psy_kernel_argument_maps_to_wrong_program_variable",
                        "argument %d of %s: PSy layer uses %r which is "
                        "bound to %s; the invoke text has %r = %s" % (
                            p + 1, kc["kern"], shown[p], g,
                            kc["args"][p].strip(), w)))
        else:
            if ev[1] != kc["kern"].lower():
                problems.append(("psy_routine_kernel_order_differs",
                                 "routine has built-in %s where the invoke "
                                 "has %s" % (ev[1], kc["kern"])))
                continue
            if not ev[2]:
                continue
            lhs, rhs = ev[2][-1].split("=", 1)
            wi = roles.index("F") if "F" in roles else roles.index("R")
            g = designate(lhs)
            stats["kernel_args_mapped"] += 1
            if g != want[wi]:
                problems.append((
                    "psy_kernel_argument_maps_to_wrong_program_variable",
                    "built-in %s writes %r bound to %s; the invoke text "
                    "writes %r = %s" % (kc["kern"], lhs.strip(), g,
                                        kc["args"][wi].strip(), want[wi])))
            toks = re.findall(r"[a-z_][a-z0-9_]*(?:%data)?(?:\([a-z0-9_]+\))?"
                              r"|[0-9]+(?:\.[0-9]*)?(?:_[a-z0-9_]+)?",
                              rhs.lower().replace(" ", ""))
            got_f = set()
            for t in toks:
                g2 = designate(t)
                if g2 is not None and g2[0] == "var":
                    got_f.add(g2[1])
            want_f = {w[1] for w, r in zip(want, roles)
                      if w[0] == "var" and (r in "fri" or
                                            (r == "F" and kc["kern"].lower()
                                             .startswith("inc_")))}
            stats["kernel_args_mapped"] += len(want_f)
            # the written field may legitimately appear on the rhs
            if not (want_f <= got_f | {want[wi][1]} and
                    got_f <= want_f | {want[wi][1]}):
                problems.append((
                    "psy_kernel_argument_maps_to_wrong_program_variable",
                    "built-in %s reads %s in the PSy layer, the invoke text "
                    "reads %s (statement %r)" % (
                        kc["kern"], sorted(got_f), sorted(want_f),
                        ev[2][-1])))
    return problems, stats
