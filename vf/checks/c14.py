"""C14 The PSyIR tree stays well-formed under any sequence of edits.

Monitor (invariant at the public-operation boundary): after every public
child-list operation on the real PSyIR classes, every node's parent lists it
exactly once, every child passes parent._validate_child(position, child), and
a detached node has no parent; if the operation raised, the identity structure
of the whole forest is unchanged.
"""
import itertools

from vf.core import Part

PROPERTY = "C14"
LEVEL = "exploration"

SRC = """
subroutine sub(a, b, n)
  integer, intent(in) :: n
  real, intent(inout) :: a(n), b(n)
  integer :: i, j
  real :: t
  do i = 1, n
    a(i) = b(i) + 1.0
    if (a(i) > 2.0) then
      b(i) = 0.0
    else
      b(i) = a(i)
      t = 3.0
    end if
  end do
  call ext(a, b(1), n + 1)
  do j = n, 1, -1
    t = max(a(j), b(j), t)
  end do
  if (t > 0.0) then
    a(1) = t
  end if
end subroutine sub
"""

_BASE = {}


def base_tree():
    if "t" not in _BASE:
        from psyclone.psyir.frontend.fortran import FortranReader
        from psyclone.psyir.nodes import Loop, Routine
        from psyclone.transformations import OMPParallelLoopTrans
        psyir = FortranReader().psyir_from_source(SRC)
        # one directive with clauses in the tree
        loops = psyir.walk(Loop)
        try:
            OMPParallelLoopTrans().apply(loops[1], {"force": True})
        except Exception:
            pass
        _BASE["t"] = psyir
    return _BASE["t"].copy()


# ------------------------------------------------------------------ monitor
class Forest:
    """All nodes the history has ever seen (so orphaned subtrees stay under
    observation)."""

    def __init__(self, root):
        self.nodes = {}
        self.add(root)

    def add(self, node):
        for n in node.walk(object):
            self.nodes[id(n)] = n

    def all(self):
        return list(self.nodes.values())

    def fingerprint(self):
        return tuple(sorted(
            (id(n), id(n.parent) if n.parent is not None else 0,
             tuple(id(c) for c in n.children))
            for n in self.nodes.values()))

    def check(self):
        """Returns a description of the first broken invariant, or None."""
        for n in self.nodes.values():
            par = n.parent
            if par is not None:
                cnt = sum(1 for c in par.children if c is n)
                if cnt != 1:
                    return ("parent_lists_child_%d_times" % cnt,
                            "%s is listed %d times by its parent %s" % (
                                type(n).__name__, cnt, type(par).__name__))
            seen = set()
            for pos, c in enumerate(n.children):
                if id(c) in seen:
                    return ("duplicate_child",
                            "%s lists the same %s twice" % (
                                type(n).__name__, type(c).__name__))
                seen.add(id(c))
                if c.parent is not n:
                    return ("child_parent_link_wrong",
                            "%s child %d (%s) has parent %s" % (
                                type(n).__name__, pos, type(c).__name__,
                                type(c.parent).__name__))
                if not n._validate_child(pos, c):
                    return ("invalid_child_kind",
                            "%s has a %s at position %d (valid format: %s)"
                            % (type(n).__name__, type(c).__name__, pos,
                               n._children_valid_format))
        return None


# -------------------------------------------------------------- operations
def fresh_item(kind):
    from psyclone.psyir.nodes import (Reference, Literal, Assignment,
                                      Schedule, Return, Loop, IfBlock, Call,
                                      BinaryOperation, Range)
    from psyclone.psyir.symbols import (DataSymbol, INTEGER_TYPE, REAL_TYPE,
                                        RoutineSymbol)
    sym = DataSymbol("tmpv", INTEGER_TYPE)
    if kind == "ref":
        return Reference(sym)
    if kind == "lit":
        return Literal("7", INTEGER_TYPE)
    if kind == "assign":
        return Assignment.create(Reference(sym), Literal("1", INTEGER_TYPE))
    if kind == "sched":
        return Schedule()
    if kind == "sched1":
        return Schedule(children=[Return()])
    if kind == "return":
        return Return()
    if kind == "loop":
        return Loop.create(sym, Literal("1", INTEGER_TYPE),
                           Literal("3", INTEGER_TYPE),
                           Literal("1", INTEGER_TYPE), [Return()])
    if kind == "if":
        return IfBlock.create(
            BinaryOperation.create(BinaryOperation.Operator.GT,
                                   Reference(sym), Literal("0", INTEGER_TYPE)),
            [Return()])
    if kind == "call":
        return Call.create(RoutineSymbol("other"), [Reference(sym)])
    if kind == "binop":
        return BinaryOperation.create(BinaryOperation.Operator.ADD,
                                      Reference(sym),
                                      Literal("2", INTEGER_TYPE))
    raise ValueError(kind)


FRESH = ["ref", "lit", "assign", "sched", "sched1", "return", "loop", "if",
         "call", "binop"]
OPS = ["append", "insert", "extend", "setitem", "delitem", "remove", "pop",
       "pop_last", "reverse", "clear", "addchild", "addchild_idx",
       "children_set", "children_set_sub", "replace_with", "detach",
       "pop_all_children", "iadd", "children_set_alias"]


def pick_item(spec, forest, target, nodes):
    """spec: ('fresh', kind) | ('node', k) existing node number k."""
    if spec[0] == "fresh":
        it = fresh_item(spec[1])
        return it
    n = nodes[spec[1] % len(nodes)]
    # never hand the root of the target's own tree (would build a cycle,
    # which the property does not speak about)
    if n is target.root:
        return fresh_item("ref")
    return n


def prepare_items(op, forest, nodes):
    """Materialise the operation's items and put them under observation
    (before the pre-state fingerprint is taken)."""
    target = nodes[op["target"] % len(nodes)]
    items = [pick_item(s, forest, target, nodes) for s in op.get("items", [])]
    for it in items:
        forest.add(it)
    return items


def apply_op(op, nodes, items):
    """op: dict(name, target, index, items).  Executes the public operation
    on the real classes."""
    target = nodes[op["target"] % len(nodes)]
    name = op["name"]
    idx = op.get("index", 0)
    ch = target.children
    if name == "append":
        ch.append(items[0])
    elif name == "insert":
        ch.insert(idx, items[0])
    elif name == "extend":
        ch.extend(items)
    elif name == "setitem":
        ch[idx] = items[0]
    elif name == "delitem":
        del ch[idx]
    elif name == "remove":
        ch.remove(items[0])
    elif name == "pop":
        ch.pop(idx)
    elif name == "pop_last":
        ch.pop()
    elif name == "reverse":
        ch.reverse()
    elif name == "clear":
        ch.clear()
    elif name == "addchild":
        target.addchild(items[0])
    elif name == "addchild_idx":
        target.addchild(items[0], idx)
    elif name == "children_set":
        target.children = items
    elif name == "children_set_sub":
        # re-assign a sub-list of the current children (+ new items)
        cur = list(target.children)
        lo = idx % (len(cur) + 1) if cur else 0
        target.children = cur[lo:] + items
    elif name == "children_set_alias":
        target.children = target.children
    elif name == "iadd":
        target.children += items
    elif name == "replace_with":
        target.replace_with(items[0])
    elif name == "detach":
        target.detach()
    elif name == "pop_all_children":
        target.pop_all_children()
    else:
        raise ValueError(name)


def mechanism_of(op, raised, what_kind, pre_len):
    """Mechanism facts from the (minimal) operation alone."""
    name = op["name"]
    idx = op.get("index", 0)
    if name in ("children_set_alias", "iadd"):
        return "children_setter_given_its_own_list"
    if name in ("children_set", "children_set_sub") and raised:
        return "children_setter_not_atomic"
    if name in ("insert", "pop", "delitem", "addchild_idx", "setitem") \
            and idx < 0:
        return "negative_index_validation"
    if name in ("insert", "addchild_idx") and idx > pre_len:
        return "index_beyond_end_validation"
    if name == "extend" and not raised:
        return "extend_same_item_twice"
    return None


def run_history(history, part, tag):
    """Executes one history on a fresh tree under the monitor."""
    root = base_tree()
    forest = Forest(root)
    for step, op in enumerate(history):
        nodes = forest.all()
        items = prepare_items(op, forest, nodes)
        before = forest.fingerprint()
        target = nodes[op["target"] % len(nodes)]
        pre_len = len(target.children)
        raised = None
        try:
            apply_op(op, nodes, items)
        except RecursionError:
            raise
        except Exception as err:      # any error: tree must be unchanged
            raised = err
        part.count("ops_executed")
        part.count("op:%s:%s" % (op["name"], "raised" if raised else "ok"))
        desc = dict(op)
        desc["target_type"] = type(target).__name__
        desc["target_len"] = pre_len
        if raised is not None:
            after = forest.fingerprint()
            if after != before:
                part.violation({
                    "kind": "tree_changed_by_failed_operation",
                    "mechanism": mechanism_of(op, True, None, pre_len),
                    "what": "%s on %s (len %d, index %s) raised %s but the "
                            "tree changed" % (op["name"],
                                              type(target).__name__, pre_len,
                                              op.get("index"),
                                              type(raised).__name__),
                    "history": history[:step + 1], "op": desc,
                    "dedupe": (op["name"], type(target).__name__,
                               "changed")})
                return step
        bad = forest.check()
        if bad:
            part.violation({
                "kind": "tree_not_well_formed",
                "mechanism": mechanism_of(op, raised is not None, bad[0],
                                          pre_len),
                "what": "after %s on %s (len %d, index %s, items %s)%s: %s"
                        % (op["name"], type(target).__name__, pre_len,
                           op.get("index"), op.get("items"),
                           " [raised %s]" % type(raised).__name__
                           if raised else "", bad[1]),
                "history": history[:step + 1], "op": desc, "broken": bad[0],
                "dedupe": (op["name"], type(target).__name__, bad[0])})
            return step
    return None


def rand_op(rnd, nnodes):
    name = rnd.choice(OPS)
    op = {"name": name, "target": rnd.randrange(10 ** 6),
          "index": rnd.randint(-6, 6)}
    nitems = {"extend": rnd.choice([1, 2, 2, 3]),
              "children_set": rnd.choice([0, 1, 2, 3, 4]),
              "children_set_sub": rnd.choice([0, 1]),
              "iadd": 1}.get(name, 1)
    items = []
    for _ in range(nitems):
        r = rnd.random()
        if r < 0.6:
            items.append(["fresh", rnd.choice(FRESH)])
        else:
            items.append(["node", rnd.randrange(10 ** 6)])
    if name == "extend" and rnd.random() < 0.15 and items:
        items.append(items[0] if items[0][0] == "node" else items[0])
    op["items"] = items
    return op


def batch(arg):
    import random
    part = Part()
    rnd = random.Random(arg["seed"])
    for h in range(arg["count"]):
        hist = [rand_op(rnd, 0) for _ in range(rnd.randint(1, arg["maxlen"]))]
        run_history(hist, part, "rand")
        part.case(key=hist, nontrivial=True,
                  sample=[{k: v for k, v in o.items()} for o in hist]
                  if h == 0 else None)
    return part


def exhaustive_space(target_indices):
    """All single operations of the small alphabet on each target."""
    ops = []
    smallfresh = ["ref", "assign", "sched1"]
    for t in target_indices:
        for name in OPS:
            idxs = range(-5, 6) if name in (
                "insert", "setitem", "delitem", "pop", "addchild_idx",
                "children_set_sub") else [0]
            for idx in idxs:
                if name in ("append", "insert", "setitem", "remove",
                            "addchild", "addchild_idx", "replace_with",
                            "iadd"):
                    itemsets = [[["fresh", k]] for k in smallfresh] + \
                        [[["node", t + 1]]]
                elif name == "extend":
                    itemsets = [[["fresh", "ref"], ["fresh", "ref"]],
                                [["fresh", "assign"], ["node", t + 1]],
                                [["node", t + 2], ["node", t + 2]]]
                elif name in ("children_set",):
                    itemsets = [[], [["fresh", "ref"], ["fresh", "sched1"]],
                                [["fresh", "assign"]],
                                [["fresh", "ref"], ["fresh", "ref"]]]
                elif name == "children_set_sub":
                    itemsets = [[], [["fresh", "assign"]],
                                [["fresh", "ref"]]]
                else:
                    itemsets = [[]]
                for items in itemsets:
                    ops.append({"name": name, "target": t, "index": idx,
                                "items": items})
    return ops


def exhaustive_batch(arg):
    """All histories [op1] and [op1, op2] with op1 in arg['first'] and op2 in
    the full single-operation space."""
    part = Part()
    space = arg["space"]
    for op1 in arg["first"]:
        run_history([op1], part, "ex1")
        part.case(key=[op1], nontrivial=True)
        if arg["depth2"]:
            for op2 in space:
                run_history([op1, op2], part, "ex2")
                part.case(key=[op1, op2], nontrivial=True)
    return part


def suite_under_monitor(ctx):
    """Thorough tier: the repository's own suite with the E4 monitor on."""
    from vf import suite
    res = suite.run_suite("c14")
    if res is None:
        ctx.inconclusive("suite-under-monitor run did not complete")
        return
    for k, v in res["events"].items():
        ctx.count("suite:" + k, v)
    ctx.extra["suite_summary"] = res["summary"]
    ctx.extra["suite_failed_tests"] = res.get("failed_tests")
    for f in res["firings"]:
        if f["property"] != "C14":
            continue
        ctx.violation({"kind": "suite:" + f["kind"],
                       "mechanism": f.get("mechanism"),
                       "what": "%s [%s]" % (f["what"], f["test"]),
                       "test": f["test"],
                       "dedupe": (f["kind"], f.get("op"),
                                  f.get("transformation"),
                                  f.get("mechanism"))})


def main(ctx):
    ctx.rule = ("histories of public child-list operations (%s) with indices "
                "in [-6,6] and items that are fresh orphans, attached nodes, "
                "orphan roots or duplicates, on a tree with loops, if-blocks, "
                "assignments, a call, schedules and an OpenMP directive; "
                "every history is distinct by its operation list; exhaustive "
                "part: all single operations of a small alphabet on each of "
                "K target nodes and all pairs of them" % ", ".join(OPS))
    root = base_tree()
    nnodes = len(root.walk(object))
    ctx.extra["tree_nodes"] = nnodes
    # targets for the exhaustive part: one node of each interesting type
    from psyclone.psyir.nodes import (Loop, IfBlock, Call, Schedule,
                                      Assignment, Routine, ArrayReference,
                                      OMPParallelDoDirective,
                                      IntrinsicCall, BinaryOperation)
    allnodes = list(Forest(root).all())
    targets = []
    for cls in (Loop, IfBlock, Call, Schedule, Assignment, Routine,
                ArrayReference, OMPParallelDoDirective, IntrinsicCall,
                BinaryOperation):
        for k, n in enumerate(allnodes):
            if type(n) is cls:
                targets.append(k)
                break
    ctx.extra["exhaustive_targets"] = [type(allnodes[t]).__name__
                                       for t in targets]
    space = exhaustive_space(targets if not ctx.quick else targets[:6])
    ctx.extra["single_op_space"] = len(space)
    jobs = []
    chunk = max(1, len(space) // 48)
    depth2_first = space if not ctx.quick else \
        ctx.rng("d2").sample(space, min(len(space), 160))
    for lo in range(0, len(space), chunk):
        jobs.append({"first": space[lo:lo + chunk], "space": [],
                     "depth2": False})
    ch2 = max(1, len(depth2_first) // 48)
    for lo in range(0, len(depth2_first), ch2):
        jobs.append({"first": depth2_first[lo:lo + ch2], "space": space,
                     "depth2": True})
    for res in ctx.pmap("vf.checks.c14", "exhaustive_batch", jobs,
                        timeout=3000):
        if res:
            ctx.merge(res)
    nb = 32 if ctx.quick else 96
    cnt = 500 if ctx.quick else 4000
    maxlen = 12 if ctx.quick else 40
    rjobs = [{"seed": ctx.rng("r", i).random(), "count": cnt,
              "maxlen": maxlen} for i in range(nb)]
    for res in ctx.pmap("vf.checks.c14", "batch", rjobs, timeout=3000):
        if res:
            ctx.merge(res)
    ctx.extra["exhaustive"] = False
    ctx.extra["exhaustive_part"] = (
        "all %d single operations; pairs: %d first operations x %d second"
        % (len(space), len(depth2_first), len(space)))
    if not ctx.quick:
        suite_under_monitor(ctx)
    if ctx.counters.get("ops_executed", 0) == 0:
        ctx.inconclusive("no operation executed")
    ctx.assumptions += [
        "cycles (adding the root of the target's own tree below it) are not "
        "generated: the property does not speak about them",
        "nodes are never built with the constructor parent= shortcut"]
