"""CLI: python -m vf.run Cxx --tier quick|thorough [--replay file]"""
import argparse
import os
import sys

from vf import core


def main():
    ap = argparse.ArgumentParser()
    ap.add_argument("prop")
    ap.add_argument("--tier", default=os.environ.get("VERIF_TIER") or "quick")
    ap.add_argument("--replay")
    a = ap.parse_args()
    if a.tier not in ("quick", "thorough"):
        a.tier = "quick"
    # re-exec once with the fixed environment (hash seed, config, guard)
    if os.environ.get("VF_REEXEC") != "1":
        env = core.base_env()
        env["VF_REEXEC"] = "1"
        core.ensure_deps()
        os.execve(core.PY, [core.PY, "-m", "vf.run"] + sys.argv[1:], env)
    sys.exit(core.run_check(a.prop.upper(), a.tier, a.replay))


if __name__ == "__main__":
    main()
