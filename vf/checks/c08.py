"""C08 Loops reported parallelisable have no loop-carried dependence.

Monitors: (1) an offline checker over the reference interpreter's
per-iteration access trace (Bernstein conditions at element granularity) for
every loop the real DependencyTools declares parallelisable; (2) a step bound
(sys.monitoring LINE events restricted to the dependency-analysis modules) on
every analysis call: termination is decided on logical steps, not wall time.
"""
import os
import random
import signal
import sys

from vf import flite, finterp, diffrun, scen, fx, psy
from vf.core import Part

PROPERTY = "C08"
LEVEL = "exploration"

STEP_LIMIT = 300_000          # executions of one source line within one call


class StepBound(Exception):
    pass


class Watchdog(Exception):
    pass


class StepMonitor:
    """Counts LINE events per (code, line) in the analysis modules."""
    TOOL = 3

    def __init__(self):
        self.counts = {}
        self.max_seen = 0
        self.active = False
        self.files = ("dependency_tools.py", "symbolic_maths.py",
                      "sympy_writer.py")

    def install(self):
        mon = sys.monitoring
        try:
            mon.use_tool_id(self.TOOL, "vf_c08")
        except ValueError:
            pass
        mon.register_callback(self.TOOL, mon.events.LINE, self._line)
        import psyclone.psyir.tools.dependency_tools as m1
        import psyclone.core.symbolic_maths as m2
        import psyclone.psyir.backend.sympy_writer as m3
        n = 0
        for mod in (m1, m2, m3):
            for obj in vars(mod).values():
                if isinstance(obj, type) and obj.__module__ == mod.__name__:
                    for f in vars(obj).values():
                        fn = getattr(f, "__func__", f)
                        code = getattr(fn, "__code__", None)
                        if code is not None:
                            mon.set_local_events(self.TOOL, code,
                                                 mon.events.LINE)
                            n += 1
        self.ncodes = n

    def _line(self, code, line):
        if not self.active:
            return
        k = (code, line)
        c = self.counts.get(k, 0) + 1
        self.counts[k] = c
        if c > self.max_seen:
            self.max_seen = c
        if c > STEP_LIMIT:
            self.active = False
            raise StepBound("%s:%d executed more than %d times in one call"
                            % (os.path.basename(code.co_filename), line,
                               STEP_LIMIT))

    def start(self):
        self.counts = {}
        self.active = True

    def stop(self):
        self.active = False
        return self.max_seen


class IterTracer(finterp.Tracer):
    """Per-iteration read/write sets of one target loop (every dynamic
    instance of it)."""

    def __init__(self, target):
        self.target = target
        self.cur = None
        self.instances = []       # list of {k: {"first": {}, "R": set, "W"}}
        self.cells = {}

    def iteration(self, loop, k, value):
        if loop is not self.target:
            return
        if k == -1:
            self.cur = None
            return
        if k == 0:
            self.instances.append({})
        self.cur = self.instances[-1].setdefault(k, {"first": {}, "R": set(),
                                                     "W": set()})

    def read(self, cell):
        if self.cur is None:
            return
        cid = id(cell)
        self.cells[cid] = cell
        self.cur["first"].setdefault(cid, "R")
        self.cur["R"].add(cid)

    def write(self, cell):
        if self.cur is None:
            return
        cid = id(cell)
        self.cells[cid] = cell
        self.cur["first"].setdefault(cid, "W")
        self.cur["W"].add(cid)


def find_conflict(tr, loopvar):
    """A loop-carried dependence observed dynamically, or None.
    Returns dict(location, iters, kind)."""
    for inst in tr.instances:
        iters = sorted(inst)
        if len(iters) < 2:
            continue
        writers = {}
        readers = {}
        for k in iters:
            for c in inst[k]["W"]:
                writers.setdefault(c, []).append(k)
            for c in inst[k]["R"]:
                readers.setdefault(c, []).append(k)
        for c, wk in writers.items():
            cell = tr.cells[c]
            if cell.name == loopvar and cell.idx == ():
                continue
            others = set(wk) | set(readers.get(c, []))
            if len(others) < 2:
                continue
            if cell.idx == ():
                # scalar: excluded iff every iteration that touches it
                # writes it before reading it
                if all(inst[k]["first"].get(c) == "W" for k in others):
                    continue
            ww = len(wk) > 1
            other = sorted(others - {wk[0]})[0] if others - {wk[0]} else wk[1]
            return {"location": "%s%s" % (cell.name,
                                          list(cell.idx) if cell.idx else ""),
                    "name": cell.name, "scalar": cell.idx == (),
                    "iterations": [wk[0], other],
                    "kind": "write-write" if ww and other in wk
                    else "read-write"}
    return None


def flite_loops(unit):
    out = []

    def f(s):
        if s[0] == "do":
            out.append(s)
    flite.walk_stmts(unit["routines"][0]["body"], f)
    return out


def ast_facts(loop, conflict):
    """Mechanism facts from my AST and the dynamic conflict."""
    facts = []
    name = conflict["name"]
    if conflict["scalar"]:
        cond = [False]

        def f(s, inside_if=False):
            pass

        def walk(body, in_if):
            for s in body:
                if s[0] == "assign" and s[1][0] == "var" and \
                        s[1][1] == name and in_if:
                    cond[0] = True
                if s[0] == "if":
                    for _, b in s[1]:
                        walk(b, True)
                    if s[2]:
                        walk(s[2], True)
                elif s[0] == "do":
                    walk(s[5], in_if)
        walk(loop[5], False)
        if cond[0]:
            facts.append("scalar_conditional_write")
    else:
        hit = [False]
        lv = loop[1].lower()

        def uses_lv(x):
            found = [False]
            flite.walk_expr(x, lambda y: found.__setitem__(
                0, found[0] or (y[0] == "var" and y[1].lower() == lv)))
            return found[0]

        def chk(e):
            if e[0] == "arr" and e[1] == name:
                for sub in e[2]:
                    if sub[0] != "rng":
                        # an integer division whose operands involve the
                        # LOOP VARIABLE (the recorded mechanism); a division
                        # of loop-invariant terms does not count
                        flite.walk_expr(sub, lambda x: hit.__setitem__(
                            0, hit[0] or (x[0] == "bin" and x[1] == "/"
                                          and uses_lv(x))))

        def st(s):
            if s[0] == "assign":
                flite.walk_expr(s[1], chk)
                flite.walk_expr(s[2], chk)
        flite.walk_stmts(loop[5], st)
        if hit[0]:
            facts.append("subscript_int_division")
    return facts


def batch(arg):
    from psyclone.psyir.nodes import Loop
    from psyclone.psyir.tools import DependencyTools
    part = Part()
    rnd = random.Random(arg["seed"])
    mon = StepMonitor()
    mon.install()
    part.count("monitored_code_objects", mon.ncodes)
    inputs = diffrun.INPUTS[:arg["ninputs"]]

    def alarm(signum, frame):
        raise Watchdog()
    signal.signal(signal.SIGALRM, alarm)
    for n in range(arg["count"]):
        unit, _ = scen.make("dep", rnd.random(), False)
        text = flite.module_text(unit)
        try:
            tree = psy.read(text)
        except Exception:
            part.count("reader_failed")
            continue
        ploops = tree.walk(Loop)
        floops = flite_loops(unit)
        if len(ploops) != len(floops):
            part.count("loop_mapping_failed")
            continue
        nontrivial = False
        for k, (pl, fl) in enumerate(zip(ploops, floops)):
            if pl.variable.name.lower() != fl[1].lower():
                part.count("loop_mapping_failed")
                continue
            dt = DependencyTools()
            mon.start()
            signal.alarm(120)
            try:
                par = dt.can_loop_be_parallelised(pl)
            except StepBound as err:
                signal.alarm(0)
                part.violation({"kind": "analysis_does_not_terminate",
                                "mechanism": None,
                                "what": "can_loop_be_parallelised: %s" % err,
                                "source": text, "dedupe": str(err)[:60]})
                continue
            except Watchdog:
                part.inconclusive("wall-clock watchdog fired inside the "
                                  "dependency analysis")
                continue
            except Exception as err:
                signal.alarm(0)
                part.count("analysis_raised:" + type(err).__name__)
                continue
            finally:
                signal.alarm(0)
                steps = mon.stop()
            part.count("analysis_calls")
            part.count("parallelisable" if par else "not_parallelisable")
            if not par:
                continue
            # dynamic trace of this loop on every valid input
            judged = False
            for seed, nn in inputs:
                tr = IterTracer(fl)
                it = finterp.Interp(unit, tracer=tr)
                try:
                    it.run_main(seed, nn)
                except (finterp.Trap, finterp.Poison, RecursionError):
                    continue
                if not any(len(i) >= 2 for i in tr.instances):
                    continue
                judged = True
                part.count("traces_checked")
                cf = find_conflict(tr, fl[1].lower())
                if cf:
                    facts = ast_facts(fl, cf)
                    part.violation({
                        "kind": "parallelisable_but_loop_carried_dependence",
                        "mechanism": facts[0] if len(facts) == 1 else None,
                        "facts": facts,
                        "what": "loop %d (%s) reported parallelisable; input "
                                "(seed=%d,n=%d): iterations %s both touch %s "
                                "(%s)" % (k, fl[1], seed, nn,
                                          cf["iterations"], cf["location"],
                                          cf["kind"]),
                        "source": text, "loop": k, "conflict": cf,
                        "dedupe": (cf["kind"], tuple(facts),
                                   cf["scalar"])})
                    break
            if judged:
                nontrivial = True
        part.case(key=text, nontrivial=nontrivial,
                  sample=text[:1000] if n == 0 else None)
    part.count("max_line_executions_in_one_call", 0)
    part.d["counters"]["max_line_executions_in_one_call"] = mon.max_seen
    return part


def validate_interpreter(ctx, n=12):
    """The traces come from vf.finterp: compare its final state with gfortran
    on a sample of this run's programs."""
    rnd = ctx.rng("validate")
    ok = 0
    for k in range(n):
        unit, _ = scen.make("dep", rnd.random(), False)
        good = diffrun.valid_inputs(unit, diffrun.INPUTS[:4])
        if not good:
            continue
        wd = os.path.join(ctx.tmp, "v%d" % k)
        c, err, res = diffrun.run_all(wd, flite.full_text(unit), sorted(good))
        if not c:
            ctx.inconclusive("validation program does not compile")
            return 0
        for key in good:
            if res[key][0] != 0 or res[key][1] != good[key]:
                ctx.inconclusive("reference interpreter disagrees with "
                                 "gfortran on a dep-scenario program")
                return 0
            ok += 1
    return ok


def main(ctx):
    ctx.rule = ("loops (and 2-deep nests) whose bodies mix subscripts i, i±1, "
                "i/2, mod(i,2), index arrays, 2i, 2i-1, n-i+1, i+s1, i+d_i, "
                "constants, private/conditional scalars and reductions; "
                "every loop is analysed by the real DependencyTools under a "
                "step monitor; loops reported parallelisable are executed by "
                "the reference interpreter on up to 8 inputs and every pair "
                "of iterations is checked for a conflicting access; a case is "
                "non-trivial when a loop reported parallelisable ran >= 2 "
                "iterations; distinct by module text")
    nv = validate_interpreter(ctx)
    ctx.extra["traces_validated_against_impl"] = nv
    nb = 32 if ctx.quick else 160
    cnt = 40 if ctx.quick else 250
    jobs = [{"seed": ctx.rng("b", i).random(), "count": cnt,
             "ninputs": 6 if ctx.quick else 8} for i in range(nb)]
    for res in ctx.pmap("vf.checks.c08", "batch", jobs, timeout=3400):
        if res:
            ctx.merge(res)
    mx = ctx.counters.pop("max_line_executions_in_one_call", 0)
    if ctx.counters.get("analysis_calls", 0) == 0 or \
            ctx.counters.get("monitored_code_objects", 0) == 0:
        ctx.inconclusive("the analysis / its step monitor was never reached")
    if ctx.counters.get("traces_checked", 0) == 0:
        ctx.inconclusive("no parallelisable loop was traced")
    ctx.assumptions += [
        "a verdict needs a concrete pair of iterations and a location from "
        "an interpreter run; the interpreter is compared with gfortran on a "
        "sample of this run's programs",
        "step bound %d line executions per analysis call; a 120 s wall "
        "watchdog only yields 'inconclusive'" % STEP_LIMIT]
