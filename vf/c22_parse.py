"""C22: strict reader of the distributed-memory LFRic PSy-layer text that
PSyclone emits, producing the halo event trace of each invoke subroutine.

Nothing is guessed: every statement of the executable part of an invoke must
match one of the known shapes, otherwise Unparsed is raised and the invoke is
counted and skipped by the check.
"""
import re

MARK = "! Call kernels and communication routines"


class Unparsed(Exception):
    pass


PROXY = r"(\w+_proxy(?:\(\d+\))?)"
RE_SUB = re.compile(r"^\s*SUBROUTINE\s+(\w+)\s*\(", re.I)
RE_ENDSUB = re.compile(r"^\s*END\s+SUBROUTINE\b", re.I)
RE_GUARD = re.compile(r"^IF \(" + PROXY + r"%is_dirty\(depth=(.+)\)\) THEN$")
RE_HEX = re.compile(r"^CALL " + PROXY +
                    r"%halo_exchange(_start|_finish)?\(depth=(.+)\)$")
RE_SETD = re.compile(r"^CALL " + PROXY + r"%set_dirty\(\)$")
RE_SETC = re.compile(r"^CALL " + PROXY + r"%set_clean\((.+)\)$")
RE_DO = re.compile(r"^DO (\w+)\s*=\s*([^,]+),\s*(.+?)(?:,\s*1)?$")
RE_CALL = re.compile(r"^CALL (\w+)\((.*)\)$")
RE_ASSIGN = re.compile(r"^([\w%]+(?:\([^=]*\))?(?:%\w+)?)\s*=\s*(?!>)(.+)$")
RE_PTR = re.compile(r"^(\w+)\s*=>\s*" + PROXY + r"%data$")
RE_HALO_WORD = re.compile(r"is_dirty|set_dirty|set_clean|halo_exchange", re.I)


def split_invokes(text):
    """{subroutine name: [(lineno, stripped line), ...]}"""
    subs = {}
    cur = None
    for no, raw in enumerate(text.splitlines(), 1):
        m = RE_SUB.match(raw)
        if m and cur is None:
            cur = m.group(1)
            subs[cur] = []
            continue
        if cur is not None:
            if RE_ENDSUB.match(raw):
                cur = None
                continue
            subs[cur].append((no, raw.strip()))
    return subs


def classify_bound(expr):
    """('cells', h-expression) | ('dofs', 'owned'|'annexed'|depth-expression,
    proxy) | ('colours',) for the upper bound of a DO loop."""
    e = expr.replace(" ", "")
    m = re.match(r"^mesh%get_last_edge_cell\(\)$", e)
    if m:
        return ("cells", "0")
    m = re.match(r"^mesh%get_last_halo_cell\((\d*)\)$", e)
    if m:
        return ("cells", m.group(1) or "max_halo_depth_mesh")
    m = re.match(r"^last_edge_cell_all_colours\(colour\)$", e)
    if m:
        return ("cells", "0")
    m = re.match(r"^last_halo_cell_all_colours\(colour,(\d+|"
                 r"max_halo_depth_mesh)\)$", e)
    if m:
        return ("cells", m.group(1))
    m = re.match(r"^" + PROXY + r"%vspace%get_last_dof_(owned|annexed)\(\)$",
                 e)
    if m:
        return ("dofs", m.group(2), m.group(1))
    m = re.match(r"^" + PROXY + r"%vspace%get_last_dof_halo\((\d*)\)$", e)
    if m:
        return ("dofs", m.group(2) or "max_halo_depth_mesh", m.group(1))
    if re.match(r"^ncolour$", e):
        return ("colours",)
    raise Unparsed("loop bound '%s'" % expr)


def split_args(s):
    out, depth, cur = [], 0, ""
    for ch in s:
        if ch == "(":
            depth += 1
        elif ch == ")":
            depth -= 1
        if ch == "," and depth == 0:
            out.append(cur.strip())
            cur = ""
        else:
            cur += ch
    if cur.strip():
        out.append(cur.strip())
    return out


def parse_invoke(lines):
    """lines: [(lineno, text)] of one invoke subroutine.  Returns
    {"events": [...], "ptr": {data name: proxy}, "stats": {...}}."""
    idx = [i for i, (_, l) in enumerate(lines) if l == MARK]
    if len(idx) != 1:
        raise Unparsed("marker comment found %d times" % len(idx))
    setup, body = lines[:idx[0]], lines[idx[0] + 1:]
    assigns = {}
    ptr = {}
    for no, l in setup:
        if not l or l.startswith("!"):
            continue
        if RE_HALO_WORD.search(l):
            raise Unparsed("halo call in set-up part: " + l)
        if re.match(r"^DO (cell|df|colour)\b", l):
            raise Unparsed("kernel loop in set-up part: " + l)
        m = RE_PTR.match(l)
        if m:
            ptr[m.group(1)] = m.group(2)
            continue
        m = re.match(r"^(\w+)\s*=\s*(?!>)(.+)$", l)
        if m:
            assigns[m.group(1)] = m.group(2).strip()
    if "max_halo_depth_mesh" in assigns and \
            assigns["max_halo_depth_mesh"].replace(" ", "") != \
            "mesh%get_halo_depth()":
        raise Unparsed("max_halo_depth_mesh = " +
                       assigns["max_halo_depth_mesh"])
    stats = {}

    def bump(k):
        stats[k] = stats.get(k, 0) + 1

    def resolve(name_or_expr):
        e = name_or_expr.strip()
        if re.match(r"^loop\d+_(start|stop)$", e):
            if e not in assigns:
                raise Unparsed("no assignment for " + e)
            return assigns[e]
        return e

    root = []
    # stack entries: (kind, event-or-None, target list)
    stack = [("root", None, root)]
    omp_par = 0
    pos = 0
    n = len(body)

    def cur_list():
        return stack[-1][2]

    def emit(ev):
        cur_list().append(ev)

    def in_kind(k):
        return any(s[0] == k for s in stack)

    while pos < n:
        no, l = body[pos]
        pos += 1
        if not l:
            continue
        if l.startswith("!"):
            low = l.lower().replace(" ", "")
            if low.startswith("!$omp"):
                bump("ev_omp_directive")
                if low.startswith("!$ompparalleldo") or \
                        low.startswith("!$ompparallel"):
                    omp_par += 1
                elif low.startswith("!$ompendparallel"):
                    omp_par -= 1
            elif low.startswith("!$acc"):
                raise Unparsed("OpenACC directive")
            continue
        top = stack[-1][0]
        m = RE_GUARD.match(l)
        if m:
            if top not in ("root", "colours"):
                raise Unparsed("guard inside " + top)
            ev = {"t": "guard", "field": m.group(1), "depth": m.group(2),
                  "body": [], "line": no, "text": l,
                  "in_colours": in_kind("colours")}
            emit(ev)
            stack.append(("guard", ev, ev["body"]))
            bump("ev_is_dirty_guard")
            continue
        if l == "END IF":
            if top != "guard":
                raise Unparsed("END IF outside a guard")
            g = stack.pop()[1]
            if not g["body"] or any(
                    e["t"] != "hex" or e["field"] != g["field"]
                    for e in g["body"]):
                raise Unparsed("guard body is not an exchange of its field")
            continue
        m = RE_HEX.match(l)
        if m:
            if top not in ("root", "colours", "guard"):
                raise Unparsed("halo exchange inside " + top)
            if omp_par:
                raise Unparsed("halo exchange inside an OpenMP region")
            kind = {None: "sync", "_start": "start",
                    "_finish": "finish"}[m.group(2)]
            emit({"t": "hex", "kind": kind, "field": m.group(1),
                  "depth": m.group(3), "line": no, "text": l,
                  "in_colours": in_kind("colours")})
            bump("ev_halo_exchange_" + kind)
            if in_kind("colours"):
                bump("halo_exchange_inside_colours_loop")
            continue
        if top == "guard":
            raise Unparsed("unexpected statement inside guard: " + l)
        m = RE_SETD.match(l)
        if m:
            if top != "root":
                raise Unparsed("set_dirty inside " + top)
            emit({"t": "set_dirty", "field": m.group(1), "line": no,
                  "text": l})
            bump("ev_set_dirty")
            continue
        m = RE_SETC.match(l)
        if m:
            if top != "root":
                raise Unparsed("set_clean inside " + top)
            emit({"t": "set_clean", "field": m.group(1), "depth": m.group(2),
                  "line": no, "text": l})
            bump("ev_set_clean")
            continue
        m = RE_DO.match(l)
        if m:
            var, lo, hi = m.group(1), m.group(2).strip(), m.group(3).strip()
            if re.match(r"^th_idx(_\d+)?$", var):
                # reproducible-reduction summation loop: no field data
                stack.append(("noop_loop", None, []))
                continue
            if top not in ("root", "colours"):
                raise Unparsed("loop inside " + top)
            if resolve(lo) != "1":
                raise Unparsed("loop lower bound " + resolve(lo))
            b = classify_bound(resolve(hi))
            if b[0] == "colours":
                if top != "root" or not var.startswith("colour"):
                    raise Unparsed("colours loop shape")
                stack.append(("colours", None, cur_list()))
                bump("ev_colours_loop")
                continue
            ev = {"t": "loop", "kind": b[0], "line": no, "text": l,
                  "var": var, "body_text": [], "calls": [], "assigns": [],
                  "in_colours": in_kind("colours"), "omp": omp_par > 0}
            if b[0] == "cells":
                if not var.startswith("cell"):
                    raise Unparsed("cell loop variable " + var)
                ev["h"] = b[1]
                bump("ev_cell_loop")
            else:
                if not var.startswith("df"):
                    raise Unparsed("dof loop variable " + var)
                ev["bound"] = b[1]
                ev["bound_proxy"] = b[2]
                bump("ev_dof_loop")
            emit(ev)
            stack.append(("loop", ev, None))
            continue
        if l == "END DO":
            if top not in ("loop", "colours", "noop_loop"):
                raise Unparsed("END DO outside a loop")
            stack.pop()
            continue
        if top == "noop_loop":
            if re.search(r"_data\b|_proxy\b", l):
                raise Unparsed("field data in summation loop: " + l)
            continue
        if top == "loop":
            ev = stack[-1][1]
            ev["body_text"].append(l)
            m = RE_CALL.match(l)
            if m:
                if ev["kind"] != "cells":
                    raise Unparsed("kernel call inside a DoF loop")
                ev["calls"].append((m.group(1), split_args(m.group(2)), no))
                bump("ev_kernel_call")
                continue
            m = RE_ASSIGN.match(l)
            if m and ev["kind"] == "dofs":
                ev["assigns"].append((m.group(1), m.group(2), no))
                bump("ev_builtin_assignment")
                continue
            raise Unparsed("statement in loop body: " + l)
        if top == "colours":
            raise Unparsed("statement inside colours loop: " + l)
        # --- top level, none of the above
        m = RE_CALL.match(l)
        if m:
            # a kernel called outside any loop: 'domain' kernel
            emit({"t": "loop", "kind": "cells", "h": "0", "line": no,
                  "text": l, "var": None, "body_text": [l], "domain": True,
                  "calls": [(m.group(1), split_args(m.group(2)), no)],
                  "assigns": [], "in_colours": False, "omp": omp_par > 0})
            bump("ev_domain_kernel_call")
            continue
        if re.match(r"^(ALLOCATE|DEALLOCATE) \(", l):
            continue
        m = RE_ASSIGN.match(l)
        if m:
            if re.search(r"_data\b|_proxy\b", l):
                raise Unparsed("top-level assignment with field data: " + l)
            continue      # reduction variable zeroing / global sum
        raise Unparsed("statement: " + l)
    if len(stack) != 1:
        raise Unparsed("unbalanced constructs")
    # mark the end of each contiguous block of set_dirty/set_clean
    out = []
    for i, ev in enumerate(root):
        out.append(ev)
        if ev["t"] in ("set_dirty", "set_clean") and (
                i + 1 == len(root) or
                root[i + 1]["t"] not in ("set_dirty", "set_clean")):
            out.append({"t": "setters_end", "line": ev["line"],
                        "text": "<end of set_dirty/set_clean block>"})
    return {"events": out, "ptr": ptr, "stats": stats}


def _field_of(arg, ptr):
    """proxy key of an actual argument that is field data, or None."""
    a = arg.replace(" ", "")
    if a in ptr:
        return ptr[a]
    m = re.match(r"^" + PROXY + r"%data$", a)
    if m:
        return m.group(1)
    return None


def resolve(parsed, kernels):
    """Attach field accesses to every loop event.
    `kernels`: coded kernels of the invoke in schedule order, each
      {"name", "iterates_over", "intergrid", "args": [
         {"type","proxy","vsize","access","space","stencil": None|expr}]}
    Built-in (DoF) loops are resolved from their own assignment text.
    Raises Unparsed on any mismatch between text and metadata."""
    from vf.c22_model import continuity
    ptr = parsed["ptr"]
    kit = iter(kernels)
    for ev in parsed["events"]:
        if ev["t"] != "loop":
            continue
        accs = []
        if ev["kind"] == "dofs":
            if not ev["assigns"]:
                raise Unparsed("empty DoF loop")
            var = ev["var"]
            ref = re.compile(r"\b(\w+)\(" + re.escape(var) + r"\)")
            for lhs, rhs, no in ev["assigns"]:
                wl = lhs.replace(" ", "")
                wf = None
                m = re.match(r"^(\w+)\(" + re.escape(var) + r"\)$", wl)
                if m:
                    if m.group(1) not in ptr:
                        raise Unparsed("unknown array written: " + lhs)
                    wf = ptr[m.group(1)]
                elif re.search(r"_data\b|_proxy\b", wl):
                    raise Unparsed("built-in LHS " + lhs)
                reads = []
                for m in ref.finditer(rhs):
                    if m.group(1) not in ptr:
                        if m.group(1).endswith("_data"):
                            raise Unparsed("unknown array read: " +
                                           m.group(1))
                        continue
                    reads.append(ptr[m.group(1)])
                if re.search(r"_proxy\b", rhs):
                    raise Unparsed("proxy reference in built-in: " + rhs)
                for f in reads:
                    if f != wf:
                        accs.append({"field": f, "access": "READ",
                                     "cont": "cont", "space": "any_space_1"})
                if wf is not None:
                    accs.append({"field": wf, "access": "READWRITE"
                                 if wf in reads else "WRITE",
                                 "cont": "cont", "space": "any_space_1"})
        else:
            if len(ev["calls"]) != 1:
                raise Unparsed("%d kernel calls in one loop" %
                               len(ev["calls"]))
            name, args, no = ev["calls"][0]
            try:
                k = next(kit)
            except StopIteration:
                raise Unparsed("more kernel calls in text than kernels")
            if k["name"].lower() != name.lower():
                raise Unparsed("kernel order mismatch: text %s, schedule %s"
                               % (name, k["name"]))
            if k["intergrid"]:
                raise Unparsed("inter-grid kernel")
            if bool(ev.get("domain")) != (k["iterates_over"] == "domain"):
                raise Unparsed("kernel outside a loop is not a domain kernel")
            if k["iterates_over"] not in ("cell_column", "domain"):
                raise Unparsed("kernel iterates over " + k["iterates_over"])
            text_fields = []
            for a in args:
                f = _field_of(a, ptr)
                if f is not None:
                    text_fields.append(f)
                elif re.search(r"_data\b", a) and not re.search(
                        r"\(", a):
                    raise Unparsed("unmapped data argument " + a)
            meta_fields = []
            # Kernels whose updated arguments ALL have GH_WRITE access and
            # include a field on a continuous (or any_space) space: the guide
            # ("Halo Exchange Logic" case 2) and the repository's own test
            # test_write_cont_dirty treat them as not reading annexed DoFs at
            # all.  Ambiguous for the READ arguments, so the weaker
            # requirement is used (no annexed requirement over owned cells).
            upd = [a for a in k["args"] if a["access"] not in ("READ",)
                   and a["type"] != "gh_scalar"]
            all_write = bool(upd) and all(a["access"] == "WRITE"
                                          for a in upd)
            special = all_write and any(
                a["type"] == "gh_field" and continuity(a["space"]) == "cont"
                for a in upd)
            for a in k["args"]:
                if a["type"] != "gh_field":
                    continue
                comps = [a["proxy"]] if a["vsize"] == 1 else [
                    "%s(%d)" % (a["proxy"], i + 1)
                    for i in range(a["vsize"])]
                c = continuity(a["space"])
                for comp in comps:
                    meta_fields.append(comp)
                    accs.append({"field": comp, "access": a["access"],
                                 "cont": c, "space": a["space"],
                                 "stencil": a["stencil"],
                                 "gh_write_cont_kernel": special,
                                 "all_updates_gh_write": all_write})
            if text_fields != meta_fields:
                raise Unparsed("field arguments differ: text %s metadata %s"
                               % (text_fields, meta_fields))
        ev["accesses"] = accs
    if next(kit, None) is not None:
        raise Unparsed("fewer kernel calls in text than kernels")
    return parsed
