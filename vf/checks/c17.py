"""C17 Symbolic comparisons agree with Fortran integer arithmetic.

Oracle: an independent evaluator of Fortran INTEGER semantics (vf.iexpr),
itself validated against gfortran on a sample every run, applied to every
claim the real SymbolicMaths makes (equal => same value for all valuations;
never_equal => different for all; reported solutions satisfy the equation;
expand keeps the value).
"""
import itertools
import os
from fractions import Fraction

from vf import iexpr as ix
from vf.core import Part

PROPERTY = "C17"
LEVEL = "exploration"

VARS = ["i", "j", "n"]
ARRS = ["ia", "ib"]
RANGE = list(range(-6, 7))
BIG = [(17, -23, 101), (-40, 9, 64), (1000, 999, -7)]


# ------------------------------------------------------------------ generator
def gen(rnd, budget, depth=0):
    if budget <= 1 or (depth > 0 and rnd.random() < 0.15):
        r = rnd.random()
        if r < 0.55:
            return ("var", rnd.choice(VARS))
        return ("lit", rnd.choice([0, 1, 2, 2, 3, 4, 5, 7]))
    r = rnd.random()
    if r < 0.62:
        op = rnd.choice(["+", "-", "*", "*", "/", "/", "+", "-", "**"])
        if op == "**":
            base = gen(rnd, budget - 2, depth + 1)
            if rnd.random() < 0.3:
                base = ("bin", "**", base, ("lit", rnd.choice([2, 3])))
            return ("bin", "**", base,
                    ("lit", rnd.choice([0, 1, 2, 2, 3])))
        if op == "/":
            # divisor mostly a non-zero literal so valuations are defined
            den = (("lit", rnd.choice([2, 2, 3, 4]))
                   if rnd.random() < 0.8 else gen(rnd, budget // 2, depth + 1))
            return ("bin", "/", gen(rnd, budget - 2, depth + 1), den)
        lb = rnd.randint(1, max(1, budget - 2))
        return ("bin", op, gen(rnd, lb, depth + 1),
                gen(rnd, budget - 1 - lb, depth + 1))
    if r < 0.70:
        return ("neg", gen(rnd, budget - 1, depth + 1))
    if r < 0.88:
        name = rnd.choice(["MOD", "MOD", "MIN", "MAX", "ABS"])
        if name == "ABS":
            return ("call", name, [gen(rnd, budget - 1, depth + 1)])
        if name == "MOD":
            return ("call", name, [gen(rnd, budget - 2, depth + 1),
                                   ("lit", rnd.choice([2, 3, 4]))])
        lb = rnd.randint(1, max(1, budget - 2))
        return ("call", name, [gen(rnd, lb, depth + 1),
                               gen(rnd, budget - 1 - lb, depth + 1)])
    return ("arr", rnd.choice(ARRS), [gen(rnd, min(3, budget - 1), depth + 1)])


def L(v):
    return ("lit", v)


def B(op, a, b):
    return ("bin", op, a, b)


def rewrite(rnd, e):
    """Near-identities: true over the reals, some false over the integers.
    Returns a related expression (the analysis, not this generator, decides
    whether they are 'equal')."""
    c = L(rnd.choice([2, 3, 4]))
    x = e
    y = ("var", rnd.choice(VARS))
    choice = rnd.randrange(16)
    if choice == 0:
        return B("*", B("/", x, c), c)            # x/c*c  vs x   (int: no)
    if choice == 1:
        return B("/", B("*", x, c), c)            # (x*c)/c vs x  (int: yes)
    if choice == 2:
        return B("+", B("/", x, c), B("/", y, c))  # vs (x+y)/c below
    if choice == 3:
        return B("-", B("+", x, y), y)            # x+y-y
    if choice == 4:
        return B("+", y, B("-", x, y))
    if choice == 5:
        return B("*", x, L(1))
    if choice == 6:
        return B("-", x, B("*", B("/", x, c), c))  # == MOD(x,c) in Fortran
    if choice == 7:
        return ("call", "MOD", [B("+", x, c), c])  # vs MOD(x,c): differs <0
    if choice == 8:
        return B("/", x, L(1))
    if choice == 9:
        return ("neg", ("neg", x))
    if choice == 10:
        return B("/", B("*", L(2), x), L(2))
    if choice == 11:
        return B("*", L(2), B("/", x, L(2)))
    if choice == 12:
        return ("call", "MAX", [x, x])
    if choice == 13:
        return B("+", x, L(0))
    if choice == 14:
        return B("-", B("*", B("+", x, L(1)), B("+", x, L(1))),
                 B("+", B("*", L(2), x), L(1)))     # (x+1)^2-(2x+1) vs x*x
    return B("/", B("+", x, x), L(2))


def make_pair(rnd, budget):
    """(e1, e2, tag)"""
    e = gen(rnd, rnd.randint(1, max(1, budget // 2)))
    r = rnd.random()
    if r < 0.45:
        e2 = rewrite(rnd, e)
        if rnd.random() < 0.3:
            e2 = rewrite(rnd, e2)
        return e, e2, "rewrite"
    if r < 0.6:
        e2 = rewrite(rnd, e)
        return e, B("+", e2, L(rnd.choice([1, 2, -1]))), "rewrite+c"
    if r < 0.7:
        y = ("var", rnd.choice(VARS))
        c = L(rnd.choice([2, 3, 4]))
        return (B("/", B("+", e, y), c),
                B("+", B("/", e, c), B("/", y, c)), "split-div")
    if r < 0.8:
        c = L(rnd.choice([2, 3, 4]))
        return (("call", "MOD", [e, c]),
                ("call", "MOD", [B("+", e, c), c]), "mod-shift")
    return e, gen(rnd, rnd.randint(1, max(1, budget // 2))), "random"


# ------------------------------------------------------------------ valuations
def valuations(vs, arrays=True):
    """All valuations of the scalar variables, for each of three array
    contents (the evaluators read ix.SALT)."""
    vs = sorted(vs)
    for salt in ((0, 1, 2) if arrays else (0,)):
        ix.SALT[0] = salt
        if not vs:
            yield {"__salt": salt}
            continue
        for tup in itertools.product(RANGE, repeat=len(vs)):
            d = dict(zip(vs, tup))
            d["__salt"] = salt
            yield d
        for big in BIG:
            d = dict(zip(vs, big))
            d["__salt"] = salt
            yield d
    ix.SALT[0] = 0


def find_counterexample(e1, e2, want_equal):
    """Valuation where (e1 == e2) != want_equal, with mechanism facts.  All
    valuations are scanned: a counterexample that no recorded mechanism
    explains is preferred over one that is explained, so a new defect cannot
    hide behind a known one in the same expression."""
    vs = ix.variables(e1) | ix.variables(e2)
    ndef = 0
    explained = None
    for env in valuations(vs):
        st = {}
        try:
            a = ix.ev(e1, env, st)
            b = ix.ev(e2, env, st)
        except ix.Undefined:
            continue
        ndef += 1
        if (a == b) != want_equal:
            # classify by mechanism: would exact rational '/' and floored MOD
            # (SymPy's reading) have agreed with the claim?
            try:
                ra, rb = ix.ev_real(e1, env), ix.ev_real(e2, env)
                sympy_view_agrees = ((ra == rb) == want_equal)
            except ix.Undefined:
                sympy_view_agrees = None
            cx = {"env": env, "v1": a, "v2": b,
                  "inexact_div": bool(st.get("inexact_div")),
                  "neg_mod": bool(st.get("neg_mod")),
                  "sympy_view_agrees": sympy_view_agrees}
            if mechanism(cx) is None:
                return cx, ndef
            if explained is None:
                explained = cx
    return explained, ndef


def mechanism(cx):
    if cx.get("sympy_view_agrees") and cx.get("inexact_div"):
        return "int_division_as_real"
    if cx.get("sympy_view_agrees") and cx.get("neg_mod"):
        return "mod_floored_not_truncated"
    return None


# --------------------------------------------------------- PSyIR evaluator
def ev_psyir(node, env, stats=None, rational=False):
    """Evaluate an integer-valued PSyIR expression (result of expand).
    rational=True gives SymPy's reading (exact '/', floored MOD); it is only
    used to classify a disagreement by mechanism."""
    from psyclone.psyir.nodes import (Literal, Reference, BinaryOperation,
                                      UnaryOperation, IntrinsicCall,
                                      ArrayReference)
    from psyclone.psyir.symbols import ScalarType

    def rec(n):
        return ev_psyir(n, env, stats, rational)

    if isinstance(node, Literal):
        if node.datatype.intrinsic == ScalarType.Intrinsic.INTEGER:
            return int(node.value)
        txt = node.value.lower().replace("d", "e")
        return Fraction(txt) if "e" not in txt else Fraction(float(txt))
    if isinstance(node, ArrayReference):
        idx = [rec(c) for c in node.children]
        if any(isinstance(i, Fraction) and i.denominator != 1 for i in idx):
            if not rational:
                raise ix.Undefined("fractional index")
            flat = []
            for i in idx:
                i = Fraction(i)
                flat += [i.numerator, i.denominator]
            return ix.arr_value(node.name.lower() + "_frac", flat)
        return ix.arr_value(node.name.lower(), [int(i) for i in idx])
    if isinstance(node, Reference):
        return env[node.name.lower()]
    if isinstance(node, UnaryOperation):
        v = rec(node.children[0])
        if node.operator == UnaryOperation.Operator.MINUS:
            return -v
        if node.operator == UnaryOperation.Operator.PLUS:
            return v
        raise ix.Undefined("unary " + str(node.operator))
    if isinstance(node, BinaryOperation):
        a = rec(node.children[0])
        b = rec(node.children[1])
        O = BinaryOperation.Operator
        isint = isinstance(a, int) and isinstance(b, int)
        if node.operator == O.ADD:
            return a + b
        if node.operator == O.SUB:
            return a - b
        if node.operator == O.MUL:
            return a * b
        if node.operator == O.DIV:
            if b == 0:
                raise ix.Undefined("div0")
            if isint and not rational:
                r = ix.tdiv(a, b)
                if stats is not None and r * b != a:
                    stats["inexact_div"] = True
                return r
            r = Fraction(a) / Fraction(b)
            return int(r) if r.denominator == 1 and isint else r
        if node.operator == O.POW:
            if isinstance(b, Fraction):
                if b.denominator != 1:
                    raise ix.Undefined("frac exp")
                b = int(b)
            if b < 0:
                if isint and not rational:
                    raise ix.Undefined("negexp")
                if a == 0:
                    raise ix.Undefined("0**neg")
                return Fraction(a) ** b
            if b > 8:
                raise ix.Undefined("bigexp")
            return a ** b
        raise ix.Undefined("binop " + str(node.operator))
    if isinstance(node, IntrinsicCall):
        args = [rec(c) for c in node.arguments]
        name = node.intrinsic.name
        if name == "MOD":
            if args[1] == 0:
                raise ix.Undefined("mod0")
            if rational:
                return args[0] - args[1] * (args[0] // args[1])
            if all(isinstance(x, int) for x in args):
                if stats is not None and (args[0] < 0 or args[1] < 0):
                    stats["neg_mod"] = True
                return ix.fmod(args[0], args[1])
            raise ix.Undefined("real mod")
        if name == "MIN":
            return min(args)
        if name == "MAX":
            return max(args)
        if name == "ABS":
            return abs(args[0])
        raise ix.Undefined("intrinsic " + name)
    raise ix.Undefined("node " + type(node).__name__)


# ------------------------------------------------------------------ worker
def _parse_pairs(pairs):
    """One parse for a whole batch: returns list of (rhs1, rhs2) nodes."""
    from psyclone.psyir.frontend.fortran import FortranReader
    from psyclone.psyir.nodes import Assignment
    lines = ["subroutine s(i, j, n, ia, ib)",
             "  integer :: i, j, n, x",
             "  integer, dimension(-99:99) :: ia, ib"]
    for e1, e2, _ in pairs:
        lines.append("  x = " + ix.fortran(e1))
        lines.append("  x = " + ix.fortran(e2))
    lines.append("end subroutine s")
    psyir = FortranReader().psyir_from_source("\n".join(lines) + "\n")
    assigns = psyir.walk(Assignment)
    assert len(assigns) == 2 * len(pairs)
    return [(assigns[2 * k].rhs, assigns[2 * k + 1].rhs)
            for k in range(len(pairs))], assigns


def batch(arg):
    import random
    import sympy
    from psyclone.core import SymbolicMaths
    from psyclone.psyir.backend.sympy_writer import SymPyWriter
    from psyclone.psyir.backend.fortran import FortranWriter
    part = Part()
    rnd = random.Random(arg["seed"])
    sm = SymbolicMaths.get()
    fw = FortranWriter()
    if arg.get("pairs"):
        pairs = [tuple(p) for p in arg["pairs"]]
    else:
        pairs = [make_pair(rnd, arg["budget"]) for _ in range(arg["count"])]
    nodes, assigns = _parse_pairs(pairs)
    for k, ((e1, e2, tag), (n1, n2)) in enumerate(zip(pairs, nodes)):
        txt = (ix.fortran(e1), ix.fortran(e2))
        nontrivial = False
        # ---- equal -------------------------------------------------------
        try:
            eq = sm.equal(n1, n2)
        except Exception as err:
            part.count("equal_raised:" + type(err).__name__)
            eq = None
        if eq is True:
            nontrivial = True
            part.count("equal_true")
            cx, ndef = find_counterexample(e1, e2, True)
            part.count("valuations_checked", ndef)
            if cx:
                part.violation({
                    "kind": "equal_but_values_differ",
                    "mechanism": mechanism(cx),
                    "what": "equal(%s, %s) is True but %r gives %d vs %d" % (
                        txt[0], txt[1], cx["env"], cx["v1"], cx["v2"]),
                    "e1": e1, "e2": e2, "cx": cx})
        elif eq is False:
            part.count("equal_false")
        # ---- never_equal ---------------------------------------------
        try:
            ne = sm.never_equal(n1, n2)
        except Exception as err:
            part.count("never_equal_raised:" + type(err).__name__)
            ne = None
        if ne is True:
            nontrivial = True
            part.count("never_equal_true")
            cx, ndef = find_counterexample(e1, e2, False)
            part.count("valuations_checked", ndef)
            if cx:
                part.violation({
                    "kind": "never_equal_but_values_agree",
                    "mechanism": mechanism(cx),
                    "what": "never_equal(%s, %s) is True but %r gives %d "
                            "for both" % (txt[0], txt[1], cx["env"], cx["v1"]),
                    "e1": e1, "e2": e2, "cx": cx})
        # ---- solve_equal_for ------------------------------------------
        vs = sorted(ix.variables(e1) | ix.variables(e2))
        if vs and k % 2 == 0:
            var = vs[rnd.randrange(len(vs))]
            try:
                w = SymPyWriter()
                s1, s2 = w([n1, n2])
                sym = w.type_map[var]
                sols = sm.solve_equal_for(s1, s2, sym)
            except Exception as err:
                part.count("solve_raised:" + type(err).__name__)
                sols = None
            if isinstance(sols, set) and sols:
                part.count("solve_finite_nonempty")
                res = check_solutions(e1, e2, var, sols, w.type_map)
                part.count("solutions_substituted", res["checked"])
                part.count("solutions_skipped_noninteger", res["skipped"])
                if res["checked"]:
                    nontrivial = True
                if res["bad"]:
                    b = res["bad"]
                    part.violation({
                        "kind": "reported_solution_not_a_solution",
                        "mechanism": mechanism(b),
                        "what": "solve_equal_for(%s == %s, %s) reports %s; "
                                "with %r it gives %d vs %d" % (
                                    txt[0], txt[1], var, b["sol"], b["env"],
                                    b["v1"], b["v2"]),
                        "e1": e1, "e2": e2, "cx": b})
            elif sols == "independent":
                part.count("solve_independent")
            elif isinstance(sols, set):
                part.count("solve_empty")
        # ---- expand -----------------------------------------------------
        if k % 2 == 1:
            asg = assigns[2 * k]
            before = e1
            try:
                sm.expand(asg.rhs)
                after = asg.rhs
                changed = True
            except Exception as err:
                part.count("expand_raised:" + type(err).__name__)
                changed = False
            if changed:
                part.count("expand_done")
                bad, ndef = check_expand(before, after)
                part.count("valuations_checked", ndef)
                if ndef:
                    nontrivial = True
                if bad:
                    part.violation({
                        "kind": "expand_changed_value",
                        "mechanism": mechanism(bad),
                        "what": "expand(%s) -> %s ; %r gives %s vs %s" % (
                            txt[0], fw(after), bad["env"], bad["v1"],
                            bad["v2"]),
                        "e1": e1, "cx": bad})
        part.case(key=txt if nontrivial else None, nontrivial=nontrivial,
                  sample={"e1": txt[0], "e2": txt[1], "equal": eq,
                          "never_equal": ne, "gen": tag}
                  if nontrivial else None)
    return part


def check_solutions(e1, e2, var, sols, type_map):
    import sympy
    others = sorted((ix.variables(e1) | ix.variables(e2)) - {var})
    res = {"checked": 0, "skipped": 0, "bad": None}
    for sol in sols:
        for env in valuations(others):
            subs = {type_map[v]: env[v] for v in others if v in type_map}
            try:
                val = sol.subs(subs)
                val = sympy.nsimplify(val) if val.is_number else val
            except Exception:
                res["skipped"] += 1
                continue
            if not (getattr(val, "is_Integer", False)):
                res["skipped"] += 1
                continue
            full = dict(env)
            full[var] = int(val)
            if abs(full[var]) > 10 ** 6:
                res["skipped"] += 1
                continue
            st = {}
            try:
                a = ix.ev(e1, full, st)
                b = ix.ev(e2, full, st)
            except ix.Undefined:
                res["skipped"] += 1
                continue
            res["checked"] += 1
            if a != b and res["bad"] is None:
                try:
                    agrees = ix.ev_real(e1, full) == ix.ev_real(e2, full)
                except ix.Undefined:
                    agrees = None
                res["bad"] = {"env": full, "v1": a, "v2": b, "sol": str(sol),
                              "inexact_div": bool(st.get("inexact_div")),
                              "neg_mod": bool(st.get("neg_mod")),
                              "sympy_view_agrees": agrees}
    return res


def check_expand(before, after):
    vs = ix.variables(before)
    ndef = 0
    explained = None
    for env in valuations(vs):
        st = {}
        try:
            a = ix.ev(before, env, st)
            b = ev_psyir(after, env, st)
        except (ix.Undefined, KeyError):
            continue
        ndef += 1
        if a != b:
            try:
                agrees = (ix.ev_real(before, env) ==
                          Fraction(ev_psyir(after, env, None, True)))
            except (ix.Undefined, KeyError):
                agrees = None
            cx = {"env": env, "v1": a, "v2": str(b),
                  "inexact_div": bool(st.get("inexact_div")),
                  "neg_mod": bool(st.get("neg_mod")),
                  "sympy_view_agrees": agrees}
            if mechanism(cx) is None:
                return cx, ndef
            if explained is None:
                explained = cx
    return explained, ndef


# ------------------------------------------------------- evaluator validation
def validate_evaluator(ctx, rnd, n=120):
    """Compare vf.iexpr.ev with gfortran on n (expression, valuation) pairs."""
    from vf import fx
    ix.SALT[0] = 0
    items = []
    while len(items) < n:
        e = gen(rnd, rnd.randint(2, 9))
        env = {v: rnd.choice(RANGE) for v in VARS}
        try:
            val = ix.ev(e, env)
        except ix.Undefined:
            continue
        items.append((e, env, val))
    src = ["program p", " implicit none", " integer :: i, j, n, k",
           " integer :: ia(-99:99), ib(-99:99)"]
    # arrays are functions in the model: tabulate them for gfortran
    src.append(" ia = (/ %s /)" % ", ".join(
        str(ix.arr_value("ia", [k])) for k in range(-99, 100)))
    src.append(" ib = (/ %s /)" % ", ".join(
        str(ix.arr_value("ib", [k])) for k in range(-99, 100)))
    keep = []
    for e, env, val in items:
        # array indices must stay within the table
        ok = True

        def chk(x):
            nonlocal ok
            if x[0] == "arr":
                try:
                    v = ix.ev(x[2][0], env)
                except ix.Undefined:
                    v = 1000
                if abs(v) > 99:
                    ok = False
            return False
        ix.has(e, chk)
        if not ok:
            continue
        keep.append((e, env, val))
        src.append(" i = %d; j = %d; n = %d" % (env["i"], env["j"], env["n"]))
        src.append(" print *, " + ix.fortran(e))
    src.append("end program p")
    text = "\n".join(l if len(l) < 120 else _wrap(l) for l in src) + "\n"
    wd = os.path.join(ctx.tmp, "evalcheck")
    ok, err = fx.compile_f(wd, [("p.f90", text)], flags=[
        "-O0", "-fimplicit-none", "-ffree-line-length-none"])
    if not ok:
        ctx.inconclusive("evaluator validation program did not compile: "
                         + err[-300:])
        return 0
    rc, out, err = fx.run_exe(wd)
    got = [int(x) for x in out.split()]
    if rc != 0 or len(got) != len(keep):
        ctx.inconclusive("evaluator validation run failed rc=%s" % rc)
        return 0
    bad = [(ix.fortran(e), env, val, g)
           for (e, env, val), g in zip(keep, got) if val != g]
    if bad:
        ctx.inconclusive("my integer evaluator disagrees with gfortran: %r"
                         % (bad[0],))
        return 0
    return len(keep)


def _wrap(line):
    out = []
    while len(line) > 100:
        cut = line.rfind(",", 0, 100) + 1
        out.append(line[:cut] + " &")
        line = "   " + line[cut:]
    out.append(line)
    return "\n".join(out)


ANCHORS = [
    # (e1, e2) hand-written: reach equal-True, never_equal-True, solve, expand
    (B("+", ("var", "i"), L(1)), B("+", L(1), ("var", "i")), "anchor"),
    (B("+", ("var", "i"), L(1)), ("var", "i"), "anchor"),
    (B("*", L(2), B("+", ("var", "i"), ("var", "j"))),
     B("+", B("*", L(2), ("var", "i")), B("*", L(2), ("var", "j"))),
     "anchor"),
    (B("*", B("+", ("var", "i"), L(1)), B("-", ("var", "i"), L(1))),
     B("-", B("*", ("var", "i"), ("var", "i")), L(1)), "anchor"),
    (B("*", B("/", ("var", "n"), L(2)), L(2)), ("var", "n"), "anchor"),
    (("call", "MOD", [B("+", ("var", "i"), L(2)), L(2)]),
     ("call", "MOD", [("var", "i"), L(2)]), "anchor"),
    (B("+", B("*", L(2), ("var", "i")), L(1)), ("var", "n"), "anchor"),
    (B("*", ("var", "i"), ("var", "i")), L(4), "anchor"),
    # power of a power (left-nested **): grouping must survive the writer
    (B("**", B("**", ("var", "i"), L(2)), L(3)),
     B("**", ("var", "i"), L(8)), "anchor"),
    (B("**", B("**", ("var", "i"), L(2)), L(3)),
     B("**", ("var", "i"), L(6)), "anchor"),
    (B("**", B("**", ("var", "j"), L(3)), L(2)),
     B("*", B("**", ("var", "j"), L(3)), B("**", ("var", "j"), L(3))),
     "anchor"),
    (B("**", ("var", "i"), B("**", L(2), L(3))),
     B("**", ("var", "i"), L(8)), "anchor"),
    (("arr", "ia", [L(1)]), ("arr", "ia", [L(2)]), "anchor"),
]


def main(ctx):
    ctx.rule = ("pairs of integer expressions (size<=9 nodes over + - * / ** "
                "neg MOD MIN MAX ABS and index arrays, 3 variables) built as "
                "near-identities by algebraic rewrites; a pair is non-trivial "
                "when SymbolicMaths made a checkable claim about it (equal "
                "True, never_equal True, a finite solution set that could be "
                "substituted, or an expansion); each claim is checked on all "
                "valuations in [-6,6]^vars plus 3 large ones; distinct = "
                "distinct pair text")
    rnd = ctx.rng("validate")
    nval = validate_evaluator(ctx, rnd, 150 if ctx.quick else 600)
    ctx.extra["evaluator_vs_gfortran_agreements"] = nval
    nb = 48 if ctx.quick else 640
    cnt = 120 if ctx.quick else 250
    jobs = [{"seed": 0, "pairs": [list(a) for a in ANCHORS]}]
    for b in range(nb):
        jobs.append({"seed": ctx.rng("batch", b).random(), "count": cnt,
                     "budget": 9 if b % 3 else 6})
    for res in ctx.pmap("vf.checks.c17", "batch", jobs,
                        timeout=900 if ctx.quick else 3000):
        if res:
            ctx.merge(res)
    if ctx.counters.get("equal_true", 0) == 0 or \
            ctx.counters.get("valuations_checked", 0) == 0:
        ctx.inconclusive("no 'equal' claim was ever checked")
    ctx.assumptions += [
        "variables range over [-6,6] exhaustively plus three large "
        "valuations; index arrays are modelled as fixed integer functions",
        "valuations with undefined Fortran value (division by zero, overflow,"
        " negative exponent) are skipped",
        "non-integer reported solutions are skipped and counted, not judged"]
