"""E1: F-lite -- a small Fortran subset of my own (not PSyIR, not fparser).

Everything is plain lists/tuples/dicts so that programs travel through JSON
(workers, replay files).

Expressions (first element is the tag):
  ["lit", value, ty]            ty in 'i' 'r' 'l'
  ["var", name]
  ["arr", name, [sub...]]       sub: expr | ["rng", lo|None, hi|None, step|None]
  ["bin", op, a, b]             + - * / **
  ["neg", a]
  ["cmp", op, a, b]             == /= < <= > >=
  ["log", op, a, b]             .and. .or.
  ["not", a]
  ["icall", NAME, [args], {kw: expr}]   intrinsic
  ["fcall", name, [args]]       user function

Statements:
  ["assign", lhs, rhs]
  ["do", var, lo, hi, step|None, [body]]  (optional 7th item: construct name;
                                           ["exit"|"cycle", name] target it)
  ["if", [[cond, [body]], ...], [else_body] | None]
  ["select", expr, [[[item...], [body]], ...], [default] | None]
        item: ["v", expr] | ["r", lo|None, hi|None]
  ["where", [[mask, [body]], ...], [elsewhere_body] | None]
  ["call", name, [args]]
  ["verb", text]                verbatim statement (becomes a CodeBlock)
  ["exit"] ["cycle"] ["return"]

Declarations: {"name", "ty", "dims": [[lo, hi]|[None, None]...] | [],
               "intent": None|"in"|"out"|"inout", "param": expr|None}
Routine: {"kind": "subroutine"|"function", "name", "args": [names],
          "decls": [decl...], "body": [stmts], "result": name|None,
          "pure": bool}
Program unit file: {"module": name, "routines": [routine...],
                    "main": routine-like dict (kind 'program') | None}
"""

TYNAME = {"i": "integer", "r": "double precision", "l": "logical"}


# ------------------------------------------------------------ constructors
def I(v):
    return ["lit", int(v), "i"]


def R(v):
    return ["lit", float(v), "r"]


def Lg(v):
    return ["lit", bool(v), "l"]


def V(n):
    return ["var", n]


def A(n, *subs):
    return ["arr", n, list(subs)]


def RNG(lo=None, hi=None, step=None):
    return ["rng", lo, hi, step]


def B(op, a, b):
    return ["bin", op, a, b]


def C(op, a, b):
    return ["cmp", op, a, b]


def IC(name, *args, **kw):
    return ["icall", name, list(args), dict(kw)]


def decl(name, ty, dims=(), intent=None, param=None):
    return {"name": name, "ty": ty, "dims": [list(d) for d in dims],
            "intent": intent, "param": param}


# ------------------------------------------------------------------ printer
def lit_text(e):
    v, ty = e[1], e[2]
    if ty == "i":
        return str(v) if v >= 0 else "(%d)" % v
    if ty == "l":
        return ".true." if v else ".false."
    # exactly representable reals only
    if v == int(v) and abs(v) < 1e15:
        t = "%d.0d0" % int(v)
    else:
        t = repr(float(v)).replace("e", "d")
        if "d" not in t:
            t += "d0"
    return t if v >= 0 else "(%s)" % t


def ex(e):
    """Expression text.  Parentheses follow the tree exactly (every binary
    node is bracketed), so printing is unambiguous by construction."""
    t = e[0]
    if t == "lit":
        return lit_text(e)
    if t == "var":
        return e[1]
    if t == "arr":
        return "%s(%s)" % (e[1], ", ".join(sub(s) for s in e[2]))
    if t == "bin":
        return "(%s %s %s)" % (ex(e[2]), e[1], ex(e[3]))
    if t == "neg":
        return "(-%s)" % ex(e[1])
    if t == "cmp":
        return "(%s %s %s)" % (ex(e[2]), e[1], ex(e[3]))
    if t == "log":
        return "(%s %s %s)" % (ex(e[2]), e[1], ex(e[3]))
    if t == "not":
        return "(.not. %s)" % ex(e[1])
    if t == "icall":
        args = [ex(a) for a in e[2]]
        for k, v in (e[3] or {}).items():
            args.append("%s=%s" % (k, ex(v)))
        return "%s(%s)" % (e[1], ", ".join(args))
    if t == "fcall":
        return "%s(%s)" % (e[1], ", ".join(ex(a) for a in e[2]))
    raise ValueError("expr " + repr(e))


def sub(s):
    if s[0] == "rng":
        lo = ex(s[1]) if s[1] is not None else ""
        hi = ex(s[2]) if s[2] is not None else ""
        if s[3] is not None:
            return "%s:%s:%s" % (lo, hi, ex(s[3]))
        return "%s:%s" % (lo, hi)
    return ex(s)


def top(e):
    """Expression text without the redundant outermost brackets."""
    s = ex(e)
    if e[0] in ("bin", "cmp", "log") and s.startswith("(") and \
            s.endswith(")"):
        return s[1:-1]
    return s


def stmts(body, ind):
    out = []
    p = "  " * ind
    for s in body:
        t = s[0]
        if t == "assign":
            out.append("%s%s = %s" % (p, ex(s[1]), top(s[2])))
        elif t == "do":
            cname = s[6] if len(s) > 6 and s[6] else None
            hdr = "%s%sdo %s = %s, %s" % (p, cname + ": " if cname else "",
                                          s[1], top(s[2]), top(s[3]))
            if s[4] is not None:
                hdr += ", " + top(s[4])
            out.append(hdr)
            out += stmts(s[5], ind + 1)
            out.append(p + "end do" + (" " + cname if cname else ""))
        elif t == "if":
            for k, (cond, b) in enumerate(s[1]):
                kw = "if" if k == 0 else "else if"
                out.append("%s%s (%s) then" % (p, kw, top(cond)))
                out += stmts(b, ind + 1)
            if s[2] is not None:
                out.append(p + "else")
                out += stmts(s[2], ind + 1)
            out.append(p + "end if")
        elif t == "select":
            out.append("%sselect case (%s)" % (p, top(s[1])))
            for items, b in s[2]:
                its = []
                for it in items:
                    if it[0] == "v":
                        its.append(top(it[1]))
                    else:
                        its.append("%s:%s" % (
                            top(it[1]) if it[1] is not None else "",
                            top(it[2]) if it[2] is not None else ""))
                out.append("%scase (%s)" % (p, ", ".join(its)))
                out += stmts(b, ind + 1)
            if s[3] is not None:
                out.append(p + "case default")
                out += stmts(s[3], ind + 1)
            out.append(p + "end select")
        elif t == "where":
            for k, (mask, b) in enumerate(s[1]):
                if k == 0:
                    out.append("%swhere (%s)" % (p, top(mask)))
                else:
                    out.append("%selsewhere (%s)" % (p, top(mask)))
                out += stmts(b, ind + 1)
            if s[2] is not None:
                out.append(p + "elsewhere")
                out += stmts(s[2], ind + 1)
            out.append(p + "end where")
        elif t == "call":
            out.append("%scall %s(%s)" % (p, s[1],
                                          ", ".join(top(a) if a[0] != "arr"
                                                    else ex(a)
                                                    for a in s[2])))
        elif t == "icallsub":
            out.append("%scall %s(%s)" % (p, s[1], ", ".join(
                ex(a) if a[0] == "arr" else top(a) for a in s[2])))
        elif t == "verb":
            out.append(p + s[1])
        elif t in ("exit", "cycle", "return"):
            out.append(p + t + (" " + s[1] if len(s) > 1 and s[1] else ""))
        else:
            raise ValueError("stmt " + repr(s))
    return out


def decl_text(d):
    attrs = [TYNAME[d["ty"]]]
    if d.get("param") is not None:
        attrs.append("parameter")
    if d.get("intent"):
        attrs.append("intent(%s)" % d["intent"])
    if d.get("alloc"):
        attrs.append("allocatable")
    attrs += list(d.get("attrs", []))      # e.g. volatile, asynchronous
    name = d["name"]
    if d["dims"]:
        ds = []
        for lo, hi in d["dims"]:
            if lo is None and hi is None:
                ds.append(":")
            elif lo is None:
                ds.append(top(hi) if not isinstance(hi, int) else str(hi))
            else:
                l = lo if isinstance(lo, str) else (
                    str(lo) if isinstance(lo, int) else top(lo))
                h = hi if isinstance(hi, str) else (
                    str(hi) if isinstance(hi, int) else top(hi))
                ds.append("%s:%s" % (l, h))
        name += "(%s)" % ", ".join(ds)
    txt = "%s :: %s" % (", ".join(attrs), name)
    if d.get("param") is not None:
        txt += " = " + top(d["param"])
    return txt


def routine_text(r, ind=1):
    p = "  " * ind
    out = []
    if r["kind"] == "program":
        out.append("%sprogram %s" % (p, r["name"]))
        for u in r.get("uses", []):
            out.append("%s  use %s" % (p, u))
        out.append(p + "  implicit none")
    elif r["kind"] == "function":
        pre = "pure " if r.get("pure") else ""
        out.append("%s%sfunction %s(%s) result(%s)" % (
            p, pre, r["name"], ", ".join(r["args"]), r["result"]))
    else:
        pre = "pure " if r.get("pure") else ""
        pre += r.get("prefix", "")
        out.append("%s%ssubroutine %s(%s)" % (p, pre, r["name"],
                                              ", ".join(r["args"])))
    if r["kind"] != "program":
        for u in r.get("uses", []):
            out.append("%s  use %s" % (p, u))
    for d in r["decls"]:
        out.append(p + "  " + decl_text(d))
    out += stmts(r["body"], ind + 1)
    out.append("%send %s %s" % (p, r["kind"], r["name"]))
    return out


def module_text(unit):
    out = []
    # optional data-only modules: [{"name":, "decls": [...]}]; a routine
    # imports from them with "uses": ["a_mod, only: scale"]
    for em in unit.get("extra_modules", []):
        out += ["module %s" % em["name"], "  implicit none"]
        out += ["  " + decl_text(d) for d in em["decls"]]
        out.append("end module %s" % em["name"])
    out += ["module %s" % unit["module"], "  implicit none"]
    for d in unit.get("mod_decls", []):
        out.append("  " + decl_text(d))
    out.append("contains")
    for r in unit["routines"]:
        out += routine_text(r, 1)
    out.append("end module %s" % unit["module"])
    return "\n".join(out) + "\n"


def main_text(unit):
    if not unit.get("main"):
        return ""
    return "\n".join(routine_text(unit["main"], 0)) + "\n"


def full_text(unit):
    return module_text(unit) + main_text(unit)


# --------------------------------------------------------------- traversal
def walk_expr(e, fn):
    fn(e)
    t = e[0]
    if t == "arr":
        for s in e[2]:
            if s[0] == "rng":
                for x in s[1:]:
                    if x is not None:
                        walk_expr(x, fn)
            else:
                walk_expr(s, fn)
    elif t in ("bin", "cmp", "log"):
        walk_expr(e[2], fn)
        walk_expr(e[3], fn)
    elif t in ("neg", "not"):
        walk_expr(e[1], fn)
    elif t == "icall":
        for a in e[2]:
            walk_expr(a, fn)
        for a in (e[3] or {}).values():
            walk_expr(a, fn)
    elif t == "fcall":
        for a in e[2]:
            walk_expr(a, fn)


def walk_stmts(body, fn):
    for s in body:
        fn(s)
        t = s[0]
        if t == "do":
            walk_stmts(s[5], fn)
        elif t == "if":
            for _, b in s[1]:
                walk_stmts(b, fn)
            if s[2] is not None:
                walk_stmts(s[2], fn)
        elif t == "select":
            for _, b in s[2]:
                walk_stmts(b, fn)
            if s[3] is not None:
                walk_stmts(s[3], fn)
        elif t == "where":
            for _, b in s[1]:
                walk_stmts(b, fn)
            if s[2] is not None:
                walk_stmts(s[2], fn)


# ------------------------------------------------------- standard driver
def std_main(unit_name, kernel, actuals, sizes, print_vars, extra_decls=(),
             pre=(), nseeds_hint=None):
    """Build a main program that reads an integer seed, fills the actual
    arguments deterministically from it, calls `kernel` and prints every
    variable in `print_vars`.

    actuals: list of decl dicts (explicit constant bounds) in call order,
             each with optional "init": 'seed' | 'zero' | expr-of-(seed,k)
    """
    decls = [decl("seed", "i"), decl("k_", "i"), decl("k2_", "i")]
    body = [["verb", "read(*,*) seed"]]
    for d in actuals:
        dd = dict(d)
        dd["intent"] = None
        decls.append(dd)
        salt = sum(ord(c) for c in d["name"]) % 7 + 1
        if d["ty"] == "l":
            if d["dims"]:
                rank = len(d["dims"])
                if rank == 1:
                    lo, hi = d["dims"][0]
                    body.append(["do", "k_", I(lo), I(hi), None, [
                        ["assign", A(d["name"], V("k_")),
                         C("<", IC("mod", B("+", B("*", V("seed"), I(salt)),
                                             B("*", V("k_"), I(3))), I(5)),
                           I(2))]]])
                else:
                    (l1, h1), (l2, h2) = d["dims"]
                    body.append(["do", "k2_", I(l2), I(h2), None, [
                        ["do", "k_", I(l1), I(h1), None, [
                            ["assign", A(d["name"], V("k_"), V("k2_")),
                             C("<", IC("mod", B("+", B("+", B("*", V("seed"),
                                                                I(salt)),
                                                       B("*", V("k_"), I(3))),
                                                 V("k2_")), I(5)), I(2))]]]]])
            else:
                body.append(["assign", V(d["name"]),
                             C("<", IC("mod", B("*", V("seed"), I(salt)),
                                       I(3)), I(1))])
            continue
        conv = (lambda e: e) if d["ty"] == "i" else \
            (lambda e: IC("real", e, I(8)))
        if d.get("value") is not None:
            body.append(["assign", V(d["name"]), d["value"]])
            continue
        if not d["dims"]:
            body.append(["assign", V(d["name"]), conv(
                B("-", IC("mod", B("+", B("*", V("seed"), I(salt)), I(salt)),
                          I(9)), I(4)))])
        elif len(d["dims"]) == 1:
            lo, hi = d["dims"][0]
            body.append(["do", "k_", I(lo), I(hi), None, [
                ["assign", A(d["name"], V("k_")), conv(
                    B("-", IC("mod", B("+", B("*", V("seed"), I(salt)),
                                        B("*", V("k_"), I(3 + salt))), I(11)),
                      I(5)))]]])
        else:
            (l1, h1), (l2, h2) = d["dims"]
            body.append(["do", "k2_", I(l2), I(h2), None, [
                ["do", "k_", I(l1), I(h1), None, [
                    ["assign", A(d["name"], V("k_"), V("k2_")), conv(
                        B("-", IC("mod", B("+", B("+", B("*", V("seed"),
                                                          I(salt)),
                                                  B("*", V("k_"), I(5))),
                                            B("*", V("k2_"), I(7))), I(11)),
                          I(5)))]]]]])
    for s in pre:
        body.append(s)
    body.append(["call", kernel["name"], [V(a) if isinstance(a, str) else a
                                          for a in kernel["call_args"]]])
    for name in print_vars:
        d = [x for x in actuals if x["name"] == name][0]
        body.append(["verb", print_stmt(name, d["ty"], bool(d["dims"]))])
    for d in extra_decls:
        decls.append(d)
    return {"kind": "program", "name": "main", "uses": [unit_name],
            "args": [], "decls": decls, "body": body}


def print_stmt(name, ty, is_array):
    if ty == "r":
        return "write(*,'(A,*(1X,ES23.15E3))') '%s', %s" % (name, name)
    if ty == "l":
        return "write(*,'(A,*(1X,L1))') '%s', %s" % (name, name)
    return "write(*,'(A,*(1X,I0))') '%s', %s" % (name, name)
