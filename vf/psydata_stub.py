"""E5: a hand-generated checking PSyData library (no jinja).  Every method of
every wrapper type appends one line to stdout:
    PSYDATA <prefix> <handle> <event> [<module> <region>] [<varname>]
It enforces nothing: the offline checker in the check does.
"""

PREFIXES = {"profile": "profile", "extract": "extract",
            "nan_test": "nan_test", "read_only_verify": "read_only_verify"}
TYPES = [("Int", "integer"), ("Dbl", "double precision"),
         ("Log", "logical"), ("Real", "real")]


def module_text(prefix):
    t = "%s_PSyDataType" % prefix
    out = ["module %s_psy_data_mod" % prefix, "  implicit none",
           "  integer, save :: next_handle = 0",
           "  type :: %s" % t,
           "    integer :: handle = 0",
           "  contains",
           "    procedure :: PreStart", "    procedure :: PreEndDeclaration",
           "    procedure :: PreEnd", "    procedure :: PostStart",
           "    procedure :: PostEnd"]
    decl_names, prov_names = [], []
    for tag, ft in TYPES:
        for rank in (0, 1, 2):
            decl_names.append("Declare%s%d" % (tag, rank))
            prov_names.append("Provide%s%d" % (tag, rank))
    for n in decl_names + prov_names:
        out.append("    procedure :: %s" % n)
    out.append("    generic :: PreDeclareVariable => " + ", ".join(decl_names))
    out.append("    generic :: ProvideVariable => " + ", ".join(prov_names))
    out += ["  end type %s" % t, "contains",
            "  subroutine ev(this, what, extra)",
            "    class(%s), intent(inout) :: this" % t,
            "    character(*), intent(in) :: what, extra",
            "    if (this%handle == 0) then",
            "      next_handle = next_handle + 1",
            "      this%handle = next_handle",
            "    end if",
            "    write(*,'(A,1X,A,1X,I0,1X,A,1X,A)') 'PSYDATA', '%s', "
            "this%%handle, what, extra" % prefix,
            "  end subroutine ev",
            "  subroutine PreStart(this, module_name, region_name, "
            "num_pre_vars, num_post_vars)",
            "    class(%s), intent(inout), target :: this" % t,
            "    character(*), intent(in) :: module_name, region_name",
            "    integer, intent(in) :: num_pre_vars, num_post_vars",
            "    call ev(this, 'PreStart', trim(module_name)//' '//"
            "trim(region_name))",
            "  end subroutine PreStart"]
    for m in ("PreEndDeclaration", "PreEnd", "PostStart", "PostEnd"):
        out += ["  subroutine %s(this)" % m,
                "    class(%s), intent(inout), target :: this" % t,
                "    call ev(this, '%s', '')" % m,
                "  end subroutine %s" % m]
    for tag, ft in TYPES:
        for rank in (0, 1, 2):
            dim = "" if rank == 0 else "(%s)" % ",".join([":"] * rank)
            for kind, ev in (("Declare", "PreDeclareVariable"),
                             ("Provide", "ProvideVariable")):
                nm = "%s%s%d" % (kind, tag, rank)
                out += ["  subroutine %s(this, name, value)" % nm,
                        "    class(%s), intent(inout), target :: this" % t,
                        "    character(*), intent(in) :: name",
                        "    %s, intent(in) :: value%s" % (ft, dim),
                        "    call ev(this, '%s', trim(name))" % ev,
                        "  end subroutine %s" % nm]
    out.append("end module %s_psy_data_mod" % prefix)
    return "\n".join(out) + "\n"


def all_modules():
    return [("psydata_%s.f90" % p, module_text(p)) for p in PREFIXES]
