#!/venv/bin/python
"""Confirm a seeded change in a scratch worktree and keep it under
/verif/seeded/<name>/ (patch.diff, demo.py, README.md, meta.json).

usage: tools/keep_seed.py <name> <property> <srcdir> <tests...> -- <check result text>
"""
import json
import os
import shutil
import subprocess
import sys
import tempfile

name, prop, src = sys.argv[1:4]
rest = sys.argv[4:]
tests = rest[:rest.index("--")] if "--" in rest else rest
detected = " ".join(rest[rest.index("--") + 1:]) if "--" in rest else ""
wt = tempfile.mkdtemp(prefix="kwt_")
os.rmdir(wt)
subprocess.run(["git", "-C", "/repo", "worktree", "add", "-q", wt, "HEAD"],
               check=True)
env = dict(os.environ, PYTHONPATH=wt + "/src",
           PSYCLONE_CONFIG=wt + "/config/psyclone.cfg")
env.pop("SVALAT_PSYCLONE_VERIF", None)


def run(cmd, **kw):
    p = subprocess.run(cmd, cwd=wt, env=env, capture_output=True, text=True,
                       **kw)
    return p.returncode, (p.stdout + p.stderr)[-600:]


try:
    demo = os.path.join(src, "demo.py")
    rc_clean, out_clean = run(["/venv/bin/python", demo], timeout=900)
    ap = subprocess.run(["git", "apply", os.path.join(src, "patch.diff")],
                        cwd=wt)
    rc_mut, out_mut = run(["/venv/bin/python", demo], timeout=900)
    rc_tests, out_tests = (0, "not run")
    if tests:
        rc_tests, out_tests = run(
            ["/venv/bin/python", "-m", "pytest", "-q", "-p",
             "no:cacheprovider", "-n", "4"] + tests, timeout=3000)
    ok = rc_clean == 0 and rc_mut != 0 and ap.returncode == 0 and \
        rc_tests == 0
    print("demo clean rc=%d, mutated rc=%d, tests rc=%d -> %s" % (
        rc_clean, rc_mut, rc_tests, "KEEP" if ok else "REJECT"))
    if not ok:
        print(out_clean[-300:], "\n---\n", out_mut[-300:], "\n---\n",
              out_tests[-300:])
    if ok:
        dst = os.path.join("/verif/seeded", name)
        os.makedirs(dst, exist_ok=True)
        for f in ("patch.diff", "demo.py", "README.md"):
            if os.path.exists(os.path.join(src, f)):
                shutil.copy(os.path.join(src, f), dst)
        suite_logs = [f for f in os.listdir(src) if "suite" in f.lower()]
        suite_tail = ""
        for f in suite_logs:
            lines = open(os.path.join(src, f), errors="replace").read()\
                .strip().splitlines()
            if lines:
                suite_tail = lines[-1][:200]
        readme = open(os.path.join(src, "README.md")).read() \
            if os.path.exists(os.path.join(src, "README.md")) else ""
        meta = {
            "property": prop, "name": name,
            "needs_to_manifest": readme[:1500],
            "confirmed": {
                "demo_on_clean_worktree_rc": rc_clean,
                "demo_with_change_rc": rc_mut,
                "demo_output_with_change": out_mut[-300:],
                "related_tests_run_by_me": tests,
                "related_tests_rc": rc_tests,
                "related_tests_tail": out_tests.strip().splitlines()[-1][:200]
                if out_tests.strip() else "",
                "full_suite_by_author_tail": suite_tail,
            },
            "detected_by": detected,
            "base_commit": subprocess.run(
                ["git", "-C", "/repo", "rev-parse", "--short", "HEAD"],
                capture_output=True, text=True).stdout.strip(),
        }
        json.dump(meta, open(os.path.join(dst, "meta.json"), "w"), indent=1)
finally:
    subprocess.run(["git", "-C", "/repo", "worktree", "remove", "--force",
                    wt])
