"""C09 OpenMP-parallelised loops compute the serial result on any schedule.

Two monitors on loops that the real OpenMP loop transformations accept
without `force`:
 (1) real executions: the generated code is compiled with gfortran -fopenmp
     and run with 1/2/4/8 threads under static / static,1 / dynamic / guided
     schedules; shared variables must equal the serial run (variables in the
     emitted private/firstprivate clauses are masked);
 (2) schedule emulation: the reference interpreter executes the loop as a
     team of T threads with exactly the data-sharing clauses parsed from the
     emitted directive (private copies undefined, firstprivate copies
     initialised at region entry) under many iteration-to-thread assignments
     and interleavings; every such execution is one the OpenMP rules allow,
     so any mismatch with the serial result is a true violation.
"""
import os
import random
import re
import shutil
import tempfile

from vf import fgen, flite, finterp, diffrun, scen, psy, fx
from vf.core import Part

PROPERTY = "C09"
LEVEL = "exploration"

CLAUSE = re.compile(r"(private|firstprivate|shared|reduction)\(([^)]*)\)")


def parse_directive(line):
    d = {"private": set(), "firstprivate": set(), "reduction": []}
    for kind, names in CLAUSE.findall(line.lower()):
        if kind == "reduction":
            op, vs = names.split(":")
            for v in vs.split(","):
                d["reduction"].append((op.strip(), v.strip()))
        elif kind in d:
            for v in names.split(","):
                d[kind].add(v.strip())
    return d


def team_handler(clauses, assignment_rng, nthreads, mode):
    """Returns a loop_override handler that runs the loop as a team."""
    def handler(it, s, fr):
        var_name = s[1].lower()
        lo = it.ev(s[2], fr)
        hi = it.ev(s[3], fr)
        st = it.ev(s[4], fr) if s[4] is not None else 1
        trips = max(0, finterp.tdiv(hi - lo + st, st))
        values = [lo + k * st for k in range(trips)]
        # iteration -> thread
        T = nthreads
        if mode == "static":
            per = (trips + T - 1) // T if trips else 0
            owner = [min(T - 1, k // per) if per else 0 for k in range(trips)]
        elif mode == "static1":
            owner = [k % T for k in range(trips)]
        else:
            owner = [assignment_rng.randrange(T) for _ in range(trips)]
        frames = []
        for t in range(T):
            tf = dict(fr)
            names = set(clauses["private"]) | {var_name}
            for nm in names:
                obj = fr.get(nm)
                if obj is None:
                    continue
                if isinstance(obj, finterp.Arr):
                    tf[nm] = finterp.new_array(nm, obj.bounds, obj.ty, None)
                else:
                    tf[nm] = finterp.Cell(None, nm, (), obj.ty)
            for nm in clauses["firstprivate"]:
                obj = fr.get(nm)
                if obj is None:
                    continue
                if isinstance(obj, finterp.Arr):
                    a = finterp.new_array(nm, obj.bounds, obj.ty, None)
                    for c, o in zip(a.cells, obj.cells):
                        c.v = o.v
                    tf[nm] = a
                else:
                    tf[nm] = finterp.Cell(obj.v, nm, (), obj.ty)
            for op, nm in clauses["reduction"]:
                obj = fr.get(nm)
                if obj is not None and not isinstance(obj, finterp.Arr):
                    tf[nm] = finterp.Cell(0 if obj.ty == "i" else 0.0, nm,
                                          (), obj.ty)
            frames.append(tf)
        # interleaving: threads take turns in random order, each runs its
        # own iterations in increasing order
        queues = [[k for k in range(trips) if owner[k] == t]
                  for t in range(T)]
        while any(queues):
            live = [t for t in range(T) if queues[t]]
            t = assignment_rng.choice(live) if mode != "serial" else live[0]
            k = queues[t].pop(0)
            tf = frames[t]
            tf[var_name].v = values[k]
            try:
                it.run_body(s[5], tf)
            except finterp._Cycle:
                pass
        for op, nm in clauses["reduction"]:
            obj = fr.get(nm)
            if obj is not None and not isinstance(obj, finterp.Arr):
                tot = obj.v
                for tf in frames:
                    tot = tot + tf[nm].v
                obj.v = tot
    return handler


def flite_loops(unit):
    out = []

    def f(s):
        if s[0] == "do":
            out.append(s)
    flite.walk_stmts(unit["routines"][0]["body"], f)
    return out


def printed_masked(text, masked):
    return "\n".join(l for l in text.splitlines()
                     if l.split(" ")[0].lower() not in masked)


def cond_write_fact(loop, name):
    hit = [False]

    def walk(body, in_if):
        for s in body:
            if s[0] == "assign" and s[1][0] == "var" and \
                    s[1][1].lower() == name and in_if:
                hit[0] = True
            if s[0] == "if":
                for _, b in s[1]:
                    walk(b, True)
                if s[2]:
                    walk(s[2], True)
            elif s[0] == "do":
                walk(s[5], in_if)
    walk(loop[5], False)
    return hit[0]


def uncond_scalar_write(loop, name):
    """AST fact: `name` is a scalar assigned at the top level of the loop
    body (not inside an IF or inner loop)."""
    return any(s[0] == "assign" and s[1][0] == "var" and
               s[1][1].lower() == name for s in loop[5])


def int_div_subscript(loop, name):
    """AST fact: array `name` is subscripted with an expression containing
    integer division inside the loop."""
    hit = [False]
    lv = loop[1].lower()

    def uses_lv(x):
        found = [False]
        flite.walk_expr(x, lambda y: found.__setitem__(
            0, found[0] or (y[0] == "var" and y[1].lower() == lv)))
        return found[0]

    def chk(e):
        if e[0] == "arr" and e[1].lower() == name:
            for sb in e[2]:
                if sb[0] != "rng":
                    flite.walk_expr(sb, lambda x: hit.__setitem__(
                        0, hit[0] or (x[0] == "bin" and x[1] == "/"
                                      and uses_lv(x))))

    def st(s_):
        if s_[0] == "assign":
            flite.walk_expr(s_[1], chk)
            flite.walk_expr(s_[2], chk)
    flite.walk_stmts(loop[5], st)
    return hit[0]


THREADS = [1, 2, 4, 8]
SCHEDULES = ["static", "static,1", "dynamic,1", "guided"]


def batch(arg):
    from psyclone.psyir.nodes import Loop
    from psyclone.transformations import OMPParallelLoopTrans, \
        OMPParallelTrans
    from psyclone.psyir.transformations import OMPLoopTrans, \
        TransformationError
    part = Part()
    rnd = random.Random(arg["seed"])
    wd = tempfile.mkdtemp(prefix="vf_c09_")
    inputs = diffrun.INPUTS[:arg["ninputs"]]
    try:
        for n in range(arg["count"]):
            x = rnd.random()
            if x < 0.6:
                unit, _ = scen.make("dep", rnd.random(), False)
                tag = "dep"
            elif x < 0.8:
                unit, _ = scen.make(rnd.choice(["chunk", "swap", "fuse"]),
                                    rnd.random(), False)
                tag = "scen"
            else:
                unit, _ = fgen.kernel_unit(rnd, {
                    "select": False, "where": False, "verb": False,
                    "nstmts": rnd.randint(2, 4), "intrinsics": False})
                tag = "generic"
            mod_text = flite.module_text(unit)
            main_text = flite.main_text(unit)
            good = diffrun.valid_inputs(unit, inputs)
            if not good:
                part.count("no_valid_input")
                continue
            ins = sorted(good)
            floops = flite_loops(unit)
            try:
                tree0 = psy.read(mod_text)
            except Exception:
                part.count("reader_failed")
                continue
            nl = len(tree0.walk(Loop))
            if nl != len(floops):
                part.count("loop_mapping_failed")
                continue
            nontrivial = False
            for k in range(nl):
                tree = psy.read(mod_text)
                lp = tree.walk(Loop)[k]
                variant = rnd.choice(["paralleldo", "parallel+do"])
                try:
                    if variant == "paralleldo":
                        OMPParallelLoopTrans(omp_schedule="runtime").apply(lp)
                    else:
                        OMPLoopTrans(omp_schedule="runtime").apply(lp)
                        OMPParallelTrans().apply(lp.parent.parent)
                except TransformationError:
                    part.count("refused")
                    continue
                except Exception as err:
                    part.count("crash:" + type(err).__name__)
                    continue
                try:
                    ttext = psy.write(tree)
                except Exception as err:
                    part.count("writer_refused:" + type(err).__name__)
                    continue
                part.count("accepted")
                part.count("accepted:" + variant)
                dl = [l for l in ttext.splitlines()
                      if l.strip().lower().startswith("!$omp parallel")]
                if not dl:
                    part.count("no_directive_found")
                    continue
                cl = parse_directive(dl[0])
                # the worksharing directive may carry clauses too
                for l in ttext.splitlines():
                    if l.strip().lower().startswith("!$omp do"):
                        c2 = parse_directive(l)
                        for key in ("private", "firstprivate"):
                            cl[key] |= c2[key]
                        cl["reduction"] += c2["reduction"]
                masked = set(cl["private"]) | set(cl["firstprivate"]) | \
                    {floops[k][1].lower()}
                serial = {key: printed_masked(good[key], masked)
                          for key in ins}
                witness = None
                # ---------------- (2) schedule emulation
                for key in ins:
                    for trial in range(arg["emulations"]):
                        T = rnd.choice([2, 3, 4])
                        mode = rnd.choice(["static", "static1", "dynamic",
                                           "dynamic"])
                        it = finterp.Interp(unit)
                        it.loop_override[id(floops[k])] = team_handler(
                            cl, random.Random(rnd.random()), T, mode)
                        try:
                            fr = it.run_main(*key)
                            got = printed_masked(fx.canon(it.printed(fr)),
                                                 masked)
                        except finterp.Trap as tr:
                            got = "TRAP " + str(tr)
                        part.count("emulated_executions")
                        if got != serial[key]:
                            witness = ("emulated", key, T, mode, got)
                            break
                    if witness:
                        break
                # ---------------- (1) real executions
                if witness is None:
                    ok, err = fx.compile_f(
                        os.path.join(wd, "omp"),
                        [("p.f90", ttext + main_text)],
                        extra=["-fopenmp"])
                    if not ok:
                        part.violation({
                            "kind": "openmp_code_does_not_compile",
                            "mechanism": None,
                            "what": "loop %d: %s" % (k, err.strip()[:300]),
                            "source": mod_text, "transformed": ttext,
                            "dedupe": "compile"})
                        continue
                    for key in ins:
                        for T in THREADS:
                            sch = rnd.choice(SCHEDULES)
                            rc, out, serr = fx.run_exe(
                                os.path.join(wd, "omp"),
                                stdin="%d %d\n" % key,
                                env={"OMP_NUM_THREADS": str(T),
                                     "OMP_SCHEDULE": sch,
                                     "OMP_DYNAMIC": "false"})
                            part.count("real_executions")
                            got = printed_masked(fx.canon(
                                diffrun.strip_markers(out)), masked)
                            if rc != 0 or got != serial[key]:
                                witness = ("real", key, T, sch,
                                           got if rc == 0 else
                                           "rc=%s %s" % (rc, serr[-150:]))
                                break
                        if witness:
                            break
                nontrivial = True
                if witness:
                    how, key, T, mode, got = witness
                    a_l = serial[key].splitlines()
                    b_l = got.splitlines()
                    d = [(x_, y_) for x_, y_ in zip(a_l, b_l) if x_ != y_][:1]
                    var = d[0][0].split(" ")[0].lower() if d else "?"
                    mech = None
                    fp = [v for v in cl["firstprivate"] | cl["private"]
                          if cond_write_fact(floops[k], v)]
                    if fp:
                        mech = "scalar.cond_write_privatised"
                    elif int_div_subscript(floops[k], var):
                        mech = "subscript_int_division"
                    elif var not in masked and uncond_scalar_write(
                            floops[k], var) and not any(
                                var == x_[0] for x_ in []):
                        # the variable whose final value differs is a scalar
                        # assigned (unconditionally) in every iteration that
                        # the emitted clauses leave SHARED
                        mech = "scalar.written_each_iteration_left_shared"
                    part.violation({
                        "kind": "parallel_result_differs_from_serial",
                        "mechanism": mech,
                        "what": "loop %d, '%s', %s execution, input %s, %d "
                                "threads, %s: serial %r vs parallel %r" % (
                                    k, dl[0].strip(), how, key, T, mode,
                                    d[0][0][:100] if d else "?",
                                    d[0][1][:100] if d else got[:100]),
                        "source": mod_text, "transformed": ttext,
                        "dedupe": (how, mech)})
            part.case(key=mod_text, nontrivial=nontrivial,
                      sample=mod_text[:800] if n == 0 else None)
    finally:
        shutil.rmtree(wd, ignore_errors=True)
    return part


def region_program(rnd):
    """A scalar assigned once per (serial) outer iteration and then used by
    a work-shared loop; the scalar assignment is to be executed by ONE thread
    (single) inside the same parallel region."""
    from vf.flite import B as B_, V as V_, I as I_, R as R_, A as A_, IC as IC_
    w, r = rnd.sample(["a", "b", "c"], 2)
    sc = rnd.choice(["r1", "r2"])
    outer = rnd.random() < 0.7
    val = B_("+", V_("x2"), IC_("real", V_("k"), I_(8))) if outer else \
        B_("*", V_("x2"), R_(2.0))
    inner = ["do", "i", I_(1), V_("n"), None, [
        ["assign", A_(w, V_("i")),
         B_("+", A_(w, V_("i")), B_("*", V_(sc), A_(r, V_("i"))))]]]
    body = [["assign", V_(sc), val], inner]
    if outer:
        body = [["do", "k", I_(1), I_(rnd.choice([2, 3])), None, body]]
    return scen._unit(rnd, body), outer


def region_batch(arg):
    """OMPLoopTrans on the loop, OMPSingleTrans on the scalar assignment in
    front of it, OMPParallelTrans around both (inside an enclosing serial
    loop or at routine level); real executions only."""
    from psyclone.psyir.nodes import Loop, Assignment
    from psyclone.transformations import OMPParallelTrans, OMPSingleTrans
    from psyclone.psyir.transformations import OMPLoopTrans, \
        TransformationError
    part = Part()
    rnd = random.Random(arg["seed"])
    wd = tempfile.mkdtemp(prefix="vf_c09r_")
    inputs = diffrun.INPUTS[:arg["ninputs"]]
    try:
        for n in range(arg["count"]):
            unit, outer = region_program(rnd)
            mod_text = flite.module_text(unit)
            main_text = flite.main_text(unit)
            good = diffrun.valid_inputs(unit, inputs)
            if not good:
                part.count("no_valid_input")
                continue
            tree = psy.read(mod_text)
            loops = tree.walk(Loop)
            lp = loops[1] if outer else loops[0]
            asg = lp.parent.children[lp.position - 1]
            try:
                OMPLoopTrans(omp_schedule="runtime").apply(lp)
                OMPSingleTrans().apply(asg)
                sched = lp.parent.parent.parent
                pos = lp.parent.parent.position
                OMPParallelTrans().apply(sched.children[pos - 1:pos + 1])
                ttext = psy.write(tree)
            except TransformationError:
                part.count("refused")
                continue
            except Exception as err:
                part.count("region_crash:" + type(err).__name__)
                continue
            part.count("accepted")
            part.count("accepted:single+do_region" +
                       ("_in_serial_loop" if outer else ""))
            cl = {"private": set(), "firstprivate": set()}
            for l in ttext.splitlines():
                if l.strip().lower().startswith("!$omp"):
                    c2 = parse_directive(l)
                    for key in ("private", "firstprivate"):
                        cl[key] |= c2[key]
            masked = set(cl["private"]) | set(cl["firstprivate"]) | {"i", "k"}
            ok, err = fx.compile_f(os.path.join(wd, "omp"),
                                   [("p.f90", ttext + main_text)],
                                   extra=["-fopenmp"])
            if not ok:
                part.violation({"kind": "openmp_code_does_not_compile",
                                "mechanism": None,
                                "what": "single+do region: " +
                                        err.strip()[:300],
                                "source": mod_text, "transformed": ttext,
                                "dedupe": "compile_region"})
                continue
            witness = None
            for key in sorted(good):
                serial = printed_masked(good[key], masked)
                for T in THREADS:
                    sch = rnd.choice(SCHEDULES)
                    rc, out, serr = fx.run_exe(
                        os.path.join(wd, "omp"), stdin="%d %d\n" % key,
                        env={"OMP_NUM_THREADS": str(T), "OMP_SCHEDULE": sch,
                             "OMP_DYNAMIC": "false"})
                    part.count("real_executions")
                    got = printed_masked(fx.canon(
                        diffrun.strip_markers(out)), masked)
                    if rc != 0 or got != serial:
                        witness = (key, T, sch, serial, got if rc == 0 else
                                   "rc=%s %s" % (rc, serr[-150:]))
                        break
                if witness:
                    break
            if witness:
                key, T, sch, serial, got = witness
                d = [(x_, y_) for x_, y_ in zip(serial.splitlines(),
                                                got.splitlines())
                     if x_ != y_][:1]
                part.violation({
                    "kind": "parallel_result_differs_from_serial",
                    "mechanism": None,
                    "what": "single+do region (clauses %s), input %s, %d "
                            "threads, %s: serial %r vs parallel %r" % (
                                sorted(masked), key, T, sch,
                                d[0][0][:100] if d else "?",
                                d[0][1][:100] if d else got[:100]),
                    "source": mod_text, "transformed": ttext,
                    "dedupe": ("region", outer)})
            part.case(key=("region", mod_text), nontrivial=True)
    finally:
        shutil.rmtree(wd, ignore_errors=True)
    return part


def main(ctx):
    ctx.rule = ("kernels from the dependence scenario generator, chunk/swap/"
                "fuse scenarios and generic kernels; OMPParallelLoopTrans or "
                "OMPLoopTrans+OMPParallelTrans (schedule(runtime), no force) "
                "is attempted on every loop; accepted loops are (2) emulated "
                "as teams of 2-4 threads under static/static,1/random "
                "assignments and random interleavings with the emitted "
                "data-sharing clauses and (1) run for real with 1/2/4/8 "
                "threads x OMP_SCHEDULE; non-trivial = a loop was accepted "
                "and executed in parallel; distinct by module text")
    nb = 32 if ctx.quick else 160
    jobs = [{"seed": ctx.rng("b", i).random(),
             "count": 4 if ctx.quick else 30,
             "ninputs": 3 if ctx.quick else 6,
             "emulations": 6 if ctx.quick else 20} for i in range(nb)]
    for res in ctx.pmap("vf.checks.c09", "batch", jobs, timeout=3400):
        if res:
            ctx.merge(res)
    rjobs = [{"seed": ctx.rng("r", i).random(),
              "count": 2 if ctx.quick else 10,
              "ninputs": 3 if ctx.quick else 6} for i in range(16)]
    for res in ctx.pmap("vf.checks.c09", "region_batch", rjobs, timeout=3400):
        if res:
            ctx.merge(res)
    if ctx.counters.get("emulated_executions", 0) == 0:
        ctx.inconclusive("no accepted loop was executed in parallel")
    ctx.assumptions += [
        "emulation interleaves whole iterations (each thread runs its "
        "iterations in order, private state persists per thread); "
        "statement-level races inside one iteration are only reachable by "
        "the real executions",
        "variables named in the emitted private/firstprivate clauses and the "
        "loop variable are masked after the region (documented exclusion)"]
