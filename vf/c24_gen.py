"""C24 helper: Fortran templates (data-flow probe kernels, init/dump utility
module), the fixed catalogue of program variables, and the generator of LFRic
algorithm *programs* (x90 text) whose invokes use repeated, case-varied,
array-element, structure-component and literal arguments.

Nothing here imports PSyclone.  The mesh / function-space boilerplate follows
vf.lfric.algorithm_program (which cannot express field arrays, derived types
or unnamed invokes), the output format is the one vf.lfric.parse_dump reads.
"""

# --------------------------------------------------------------------- kernels
# name -> dict(module, type, space, args=[(role, access)], source)
# role: "f" real field, "r" real scalar, "i" integer scalar
_KHEAD = """module %(mod)s
  use constants_mod
  use argument_mod
  use fs_continuity_mod
  use kernel_mod
  implicit none
  type, extends(kernel_type) :: %(type)s
     type(arg_type), dimension(%(nargs)d) :: meta_args = (/ &
%(meta)s
          /)
     integer :: operates_on = cell_column
   contains
     procedure, nopass :: code => %(code)s
  end type %(type)s
contains
"""

KERNELS = {
    # out = 2*in1 + 3*in2 + s   (per DoF, W3, discontinuous)
    "c24_probe_w3_type": {
        "module": "c24_probe_w3_mod", "space": "W3", "roles": "Fffr",
        "args": [("f", "write"), ("f", "read"), ("f", "read"), ("r", "read")],
        "meta": ["arg_type(gh_field,  gh_real, gh_write, w3)",
                 "arg_type(gh_field,  gh_real, gh_read,  w3)",
                 "arg_type(gh_field,  gh_real, gh_read,  w3)",
                 "arg_type(gh_scalar, gh_real, gh_read)"],
        "body": """  subroutine c24_probe_w3_code(nlayers, fout, fin1, fin2, s, ndf_w3, undf_w3, map_w3)
    implicit none
    integer(kind=i_def), intent(in) :: nlayers
    integer(kind=i_def), intent(in) :: ndf_w3, undf_w3
    integer(kind=i_def), dimension(ndf_w3), intent(in) :: map_w3
    real(kind=r_def), intent(in) :: s
    real(kind=r_def), dimension(undf_w3), intent(inout) :: fout
    real(kind=r_def), dimension(undf_w3), intent(in) :: fin1
    real(kind=r_def), dimension(undf_w3), intent(in) :: fin2
    integer(kind=i_def) :: k, df
    real(kind=r_def) :: t1, t2
    do k = 0, nlayers - 1
      do df = 1, ndf_w3
        t1 = 2.0_r_def * fin1(map_w3(df) + k)
        t2 = 3.0_r_def * fin2(map_w3(df) + k)
        t1 = t1 + t2
        fout(map_w3(df) + k) = t1 + s
      end do
    end do
  end subroutine c24_probe_w3_code
"""},
    # x = x + s*in1 + n   (scalar first, readwrite field, integer scalar last)
    "c24_axpn_w3_type": {
        "module": "c24_axpn_w3_mod", "space": "W3", "roles": "rFfi",
        "args": [("r", "read"), ("f", "readwrite"), ("f", "read"),
                 ("i", "read")],
        "meta": ["arg_type(gh_scalar, gh_real,    gh_read)",
                 "arg_type(gh_field,  gh_real,    gh_readwrite, w3)",
                 "arg_type(gh_field,  gh_real,    gh_read,      w3)",
                 "arg_type(gh_scalar, gh_integer, gh_read)"],
        "body": """  subroutine c24_axpn_w3_code(nlayers, s, x, fin1, n, ndf_w3, undf_w3, map_w3)
    implicit none
    integer(kind=i_def), intent(in) :: nlayers
    integer(kind=i_def), intent(in) :: ndf_w3, undf_w3
    integer(kind=i_def), dimension(ndf_w3), intent(in) :: map_w3
    real(kind=r_def), intent(in) :: s
    integer(kind=i_def), intent(in) :: n
    real(kind=r_def), dimension(undf_w3), intent(inout) :: x
    real(kind=r_def), dimension(undf_w3), intent(in) :: fin1
    integer(kind=i_def) :: k, df
    real(kind=r_def) :: t1
    do k = 0, nlayers - 1
      do df = 1, ndf_w3
        t1 = s * fin1(map_w3(df) + k)
        t1 = x(map_w3(df) + k) + t1
        x(map_w3(df) + k) = t1 + real(n, r_def)
      end do
    end do
  end subroutine c24_axpn_w3_code
"""},
    # out = out + in1 + s on every visit of a DoF (W0, continuous, gh_inc):
    # order independent because a visit only touches the visited DoF
    "c24_inc_w0_type": {
        "module": "c24_inc_w0_mod", "space": "W0", "roles": "Ffr",
        "args": [("f", "inc"), ("f", "read"), ("r", "read")],
        "meta": ["arg_type(gh_field,  gh_real, gh_inc,  w0)",
                 "arg_type(gh_field,  gh_real, gh_read, w0)",
                 "arg_type(gh_scalar, gh_real, gh_read)"],
        "body": """  subroutine c24_inc_w0_code(nlayers, fout, fin1, s, ndf_w0, undf_w0, map_w0)
    implicit none
    integer(kind=i_def), intent(in) :: nlayers
    integer(kind=i_def), intent(in) :: ndf_w0, undf_w0
    integer(kind=i_def), dimension(ndf_w0), intent(in) :: map_w0
    real(kind=r_def), intent(in) :: s
    real(kind=r_def), dimension(undf_w0), intent(inout) :: fout
    real(kind=r_def), dimension(undf_w0), intent(in) :: fin1
    integer(kind=i_def) :: k, df
    real(kind=r_def) :: t1
    do k = 0, nlayers - 1
      do df = 1, ndf_w0
        t1 = fout(map_w0(df) + k) + fin1(map_w0(df) + k)
        fout(map_w0(df) + k) = t1 + s
      end do
    end do
  end subroutine c24_inc_w0_code
"""},
    # out = in(centre cell of the stencil) + 8*stencil_size + n: the stencil
    # EXTENT is an extra invoke argument written after the stencil field
    # (role "e"); the stencil size seen by the kernel depends on it
    "c24_sten_w3_type": {
        "module": "c24_sten_w3_mod", "space": "W3", "roles": "Ffei",
        "args": [("f", "write"), ("f", "read"), ("i", "read")],
        "meta": ["arg_type(gh_field,  gh_real,    gh_write, w3)",
                 "arg_type(gh_field,  gh_real,    gh_read,  w3, "
                 "stencil(cross))",
                 "arg_type(gh_scalar, gh_integer, gh_read)"],
        "body": """  subroutine c24_sten_w3_code(nlayers, fout, fin, ssize, smap, n, ndf_w3, undf_w3, map_w3)
    implicit none
    integer(kind=i_def), intent(in) :: nlayers
    integer(kind=i_def), intent(in) :: ndf_w3, undf_w3
    integer(kind=i_def), dimension(ndf_w3), intent(in) :: map_w3
    integer(kind=i_def), intent(in) :: ssize
    integer(kind=i_def), dimension(ndf_w3, ssize), intent(in) :: smap
    integer(kind=i_def), intent(in) :: n
    real(kind=r_def), dimension(undf_w3), intent(inout) :: fout
    real(kind=r_def), dimension(undf_w3), intent(in) :: fin
    integer(kind=i_def) :: k, df
    do k = 0, nlayers - 1
      do df = 1, ndf_w3
        fout(map_w3(df) + k) = fin(smap(df, 1) + k) + real(8 * ssize + n, r_def)
      end do
    end do
  end subroutine c24_sten_w3_code
"""},
}


def kernel_sources():
    """[(file name, text)] of the probe kernels, in compilation order."""
    out = []
    for tname in sorted(KERNELS):
        k = KERNELS[tname]
        head = _KHEAD % {
            "mod": k["module"], "type": tname, "nargs": len(k["meta"]),
            "meta": ", &\n".join("          " + m for m in k["meta"]) + " &",
            "code": tname[:-5] + "_code"}
        out.append((k["module"] + ".f90",
                    head + k["body"] + "end module %s\n" % k["module"]))
    return out


# ------------------------------------------------------------- utility module
UTIL = """module c24_util_mod
  use constants_mod, only: r_def, i_def
  use field_mod,     only: field_type, field_proxy_type
  use, intrinsic :: iso_fortran_env, only: int64, real64
  implicit none
contains
  ! distinct per-DoF data from a distinct prime p: two fields with different
  ! primes differ at EVERY DoF
  subroutine c24_init(f, p)
    type(field_type), intent(in) :: f
    integer(kind=i_def), intent(in) :: p
    type(field_proxy_type) :: px
    integer(kind=i_def) :: df
    px = f%get_proxy()
    do df = 1, size(px%data)
      px%data(df) = real(p * (mod(df, 5) + 1) + mod(df, 3), r_def)
    end do
  end subroutine c24_init
  ! number of (cell, layer, dof-of-cell) incidences of every DoF
  subroutine c24_mult(f)
    type(field_type), intent(in) :: f
    type(field_proxy_type) :: px
    integer(kind=i_def), pointer :: map(:,:)
    integer(kind=i_def) :: cell, k, df, ndf, nlayers
    px = f%get_proxy()
    map => px%vspace%get_whole_dofmap()
    ndf = px%vspace%get_ndf()
    nlayers = px%vspace%get_nlayers()
    px%data(:) = 0.0_r_def
    do cell = 1, px%vspace%get_ncell()
      do k = 0, nlayers - 1
        do df = 1, ndf
          px%data(map(df, cell) + k) = px%data(map(df, cell) + k) + 1.0_r_def
        end do
      end do
    end do
    write(*,'(A,1X,I0,1X,I0,1X,I0)') 'C24MULT', px%vspace%get_ncell(), ndf, nlayers
  end subroutine c24_mult
  ! per-DoF size of the CROSS stencil of the given extent around the cell
  ! that owns the DoF (W3 field), straight from the infrastructure
  subroutine c24_ssize(f, extent)
    use stencil_dofmap_mod, only: stencil_dofmap_type, STENCIL_CROSS
    type(field_type), intent(in) :: f
    integer(kind=i_def), intent(in) :: extent
    type(field_proxy_type) :: px
    type(stencil_dofmap_type), pointer :: smap
    integer(kind=i_def), pointer :: sizes(:), map(:,:)
    integer(kind=i_def) :: cell, k, df, ndf, nlayers
    px = f%get_proxy()
    smap => px%vspace%get_stencil_dofmap(STENCIL_CROSS, extent)
    sizes => smap%get_stencil_sizes()
    map => px%vspace%get_whole_dofmap()
    ndf = px%vspace%get_ndf()
    nlayers = px%vspace%get_nlayers()
    px%data(:) = 0.0_r_def
    ! (the stub infrastructure holds stencil sizes for the cells up to the
    !  first halo level only; DoFs of other cells keep 0 = "unknown")
    do cell = 1, min(px%vspace%get_ncell(), size(sizes))
      do k = 0, nlayers - 1
        do df = 1, ndf
          px%data(map(df, cell) + k) = real(sizes(cell), r_def)
        end do
      end do
    end do
  end subroutine c24_ssize
  subroutine c24_dump_f(tag, name, space, f)
    character(len=*), intent(in) :: tag, name, space
    type(field_type), intent(in) :: f
    type(field_proxy_type) :: px
    integer(kind=i_def) :: df
    px = f%get_proxy()
    write(*,'(A,1X,A,1X,A,1X,A,1X,A,1X,A,1X,I0,1X,A)') 'DUMP', tag, 'FIELD', &
        name, 'real', space, size(px%data), 'DIRTY'
    do df = 1, size(px%data)
      write(*,'(A,1X,A,1X,A,1X,I0,1X,Z16.16)') 'D', tag, name, df, &
          transfer(real(px%data(df), real64), 1_int64)
    end do
  end subroutine c24_dump_f
  subroutine c24_dump_r(tag, name, x)
    character(len=*), intent(in) :: tag, name
    real(kind=r_def), intent(in) :: x
    write(*,'(A,1X,A,1X,A,1X,A,1X,A,1X,Z16.16)') 'DUMP', tag, 'SCALAR', name, &
        'real', transfer(real(x, real64), 1_int64)
  end subroutine c24_dump_r
  subroutine c24_dump_i(tag, name, n)
    character(len=*), intent(in) :: tag, name
    integer(kind=i_def), intent(in) :: n
    write(*,'(A,1X,A,1X,A,1X,A,1X,A,1X,I0)') 'DUMP', tag, 'SCALAR', name, &
        'integer', n
  end subroutine c24_dump_i
end module c24_util_mod
"""

# ------------------------------------------------------------------ catalogue
# The program variables every generated program declares.  `store` is the
# canonical designator (lower case, no blanks, literal indices).
PRIMES = [2, 3, 5, 7, 11, 13, 17, 19, 23, 29, 31, 37, 41, 43, 47, 53, 59, 61,
          67, 71, 73, 79, 83, 89, 97]

DECLS = """  type :: state_type
    type(field_type) :: f
    type(field_type) :: fa(2)
    type(field_type) :: g
    real(kind=r_def) :: s
    integer(kind=i_def) :: n
    integer(kind=i_def) :: e
  end type state_type
  type :: col_type
    type(field_type) :: f
    type(field_type) :: g
  end type col_type
  type(field_type) :: f1, f2, f3
  type(field_type) :: fa(3)
  type(field_type) :: fa_1, state_f, f1_data, f2_proxy
  type(field_type) :: g1, g2, g3
  type(field_type) :: ga(2)
  type(field_type) :: cell, mult_w0, ssz1, ssz2
  type(state_type) :: state
  type(col_type)   :: cols(2)
  real(kind=r_def) :: a, b, df
  real(kind=r_def) :: sa(2)
  integer(kind=i_def) :: n, nlayers
  integer(kind=i_def) :: e1, e2, state_e
  integer(kind=i_def) :: ea(2)
  integer(kind=i_def) :: idx
  integer(kind=i_def), parameter :: i1 = 1, i2 = 2
"""

FIELDS_W3 = ["f1", "f2", "f3", "fa(1)", "fa(2)", "fa(3)", "fa_1", "state_f",
             "f1_data", "f2_proxy", "state%f", "state%fa(1)", "state%fa(2)",
             "cols(1)%f", "cols(2)%f"]
FIELDS_W0 = ["g1", "g2", "g3", "ga(1)", "ga(2)", "cell", "state%g",
             "cols(1)%g", "cols(2)%g"]
FIELDS = [(s, "W3") for s in FIELDS_W3] + [(s, "W0") for s in FIELDS_W0]
PRIME_OF = {s: PRIMES[i] for i, (s, _) in enumerate(FIELDS)}
SPACE_OF = dict(FIELDS)
# real scalars with their initial values (exactly representable)
REALS = {"a": "2.0", "b": "0.5", "df": "3.0", "sa(1)": "-1.0", "sa(2)": "4.0",
         "state%s": "1.5"}
INTS = {"n": 3, "nlayers": 5, "state%n": 2,
        # usable as stencil extents (1 or 2 = the halo depth of the mesh);
        # state_e is a decoy: the flattened name of state%e, other value
        "e1": 1, "e2": 2, "state%e": 2, "state_e": 1, "ea(1)": 1, "ea(2)": 2}
EXTENT_PLAIN = ["e1", "e2"]
EXTENT_LITERALS = ["1", "2"]
# a literal extent WITH a kind suffix makes PSyclone crash (ValueError in
# int('2_i_def')): a refusal, so only a few programs try it
EXTENT_LITERAL_KIND = "2_i_def"
AUX_FIELDS = [("mult_w0", "W0"), ("ssz1", "W3"), ("ssz2", "W3")]
# the three argument forms of a stencil extent that the pinned PSyclone
# mishandles (found by this check), plus the invoke-label clash
DANGEROUS = ["extent_struct", "extent_array", "extent_dup", "label_clash"]
INDEX_VARS = {"idx": 1}           # assigned by {"assign": ...} steps
INDEX_PARAMS = {"i1": 1, "i2": 2}
REAL_LITERALS = ["2.0_r_def", "1.0_r_def", "0.5_r_def", "-1.0_r_def",
                 "3.0_r_def", "0.0_r_def", "4.0_r_def", "-2.0_r_def"]
INT_LITERALS = ["2_i_def", "1_i_def", "3", "-1_i_def", "4_i_def"]

# ----------------------------------------------------------------- built-ins
# name -> list of roles in argument order; "F" = written field, "f" = read
# field, "r" = real scalar (read), "R" = real scalar written (reduction)
BUILTINS = {
    "setval_c": "Fr", "setval_X": "Ff",
    "X_plus_Y": "Fff", "inc_X_plus_Y": "Ff",
    "a_plus_X": "Frf", "inc_a_plus_X": "rF",
    "aX_plus_Y": "Frff", "inc_aX_plus_Y": "rFf", "inc_X_plus_bY": "Frf",
    "aX_plus_bY": "Frfrf", "inc_aX_plus_bY": "rFrf",
    "aX_plus_aY": "Frff",
    "X_minus_Y": "Fff", "inc_X_minus_Y": "Ff",
    "a_minus_X": "Frf", "inc_a_minus_X": "rF",
    "X_minus_a": "Ffr", "inc_X_minus_a": "Fr",
    "aX_minus_Y": "Frff", "X_minus_bY": "Ffrf", "inc_X_minus_bY": "Frf",
    "aX_minus_bY": "Frfrf",
    "X_times_Y": "Fff", "inc_X_times_Y": "Ff", "inc_aX_times_Y": "rFf",
    "a_times_X": "Frf", "inc_a_times_X": "rF",
    "sum_X": "Rf", "X_innerproduct_Y": "Rff", "X_innerproduct_X": "Rf",
}
# products make values grow quickly: used sparingly
_GROWING = {"X_times_Y", "inc_X_times_Y", "inc_aX_times_Y", "X_innerproduct_Y",
            "X_innerproduct_X"}


# ------------------------------------------------------------------- spelling
def _vary_case(rnd, s):
    m = rnd.random()
    if m < 0.35:
        return s
    if m < 0.6:
        return s.upper()
    if m < 0.8:
        return s.capitalize()
    return "".join(c.upper() if rnd.random() < 0.5 else c for c in s)


def spell(rnd, store, forms):
    """One spelling of the designator `store`; records the argument forms
    used in the set `forms`."""
    txt = store
    if "(" in store:
        forms.add("array_element")
        head, rest = store.split("(", 1)
        ind, tail = rest.split(")", 1)
        m = rnd.random()
        if m < 0.3 and ind in ("1", "2"):
            ind = "i" + ind
            forms.add("index_by_parameter")
        elif m < 0.55:
            ind = "idx"        # the generator sets idx before the invoke
            forms.add("index_by_variable")
        txt = head + "(" + ind + ")" + tail
    if "%" in store:
        forms.add("derived_type_component")
    low = txt
    txt = _vary_case(rnd, txt)
    if txt != low:
        forms.add("case_varied")
    if rnd.random() < 0.4:
        new = txt
        for ch in "(%)":
            if rnd.random() < 0.6:
                new = new.replace(ch, rnd.choice([" " + ch, ch + " ",
                                                  " " + ch + " "]))
        if rnd.random() < 0.5:
            new = rnd.choice([" ", "  "]) + new + rnd.choice(["", " "])
        if new != txt:
            forms.add("extra_blanks")
        txt = new
    return txt


def index_needed(store):
    """value idx must have for `store` if it is spelt with idx"""
    if "(" in store:
        return int(store.split("(", 1)[1].split(")", 1)[0])
    return None


# ---------------------------------------------------------- random programs
def _pick_kernel(rnd, grow_left):
    m = rnd.random()
    if m < 0.45:
        return rnd.choice(sorted(KERNELS))
    names = sorted(BUILTINS)
    for _ in range(20):
        n = rnd.choice(names)
        if n in _GROWING and grow_left[0] <= 0:
            continue
        if n in _GROWING:
            grow_left[0] -= 1
        return n
    return "X_plus_Y"


def _norm(t):
    return "".join(t.split()).lower()


def generated_name(position, kernels):
    """name the user guide / psyGen give the PSy routine of an UNNAMED invoke
    at `position` (0-based) with the given kernel names"""
    if len(kernels) == 1 and kernels[0].lower() in {
            k.lower() for k in KERNELS}:
        return "invoke_%d_%s" % (position, kernels[0].lower())
    return "invoke_%d" % position


def random_program(rnd, name="c24prog", ranks=1, ninvokes=None, style=None,
                   p_dup=0.04, danger=None):
    """Return a program description (JSON-able):
    {"name", "ranks", "steps": [{"assign": [var, int]} |
                                {"invoke": <text of the call statement>,
                                 "meta": {...generator's own view...}}],
     "forms": [...], "danger": None | one of DANGEROUS}.
    `style`: None (mixed), "plain" (distinct lower-case plain variables only:
    the hazard-free twin).  With probability `p_dup` the program may repeat
    the very same argument text inside one kernel call (PSyclone documents
    that it refuses this).  `danger`: plant exactly one instance of one of
    the DANGEROUS argument forms (at most one class per program)."""
    ninv = ninvokes or rnd.randint(1, 4)
    steps = []
    forms = set()
    idx_now = None
    grow_left = [1]
    plain = style == "plain"
    allow_dup = not plain and rnd.random() < p_dup
    allow_clash = not plain and rnd.random() < 0.03
    # an upper-case kind suffix (1.0_R_DEF) makes PSyclone fail ("not a
    # recognised LFRic precision"): a refusal, so only a few programs try it
    upper_lit = not plain and rnd.random() < 0.03
    planted = [False]
    danger_inv = rnd.randrange(ninv)
    unnamed_positions = []

    for iv in range(ninv):
        ncalls = rnd.randint(1, 4)
        # a small working set per space makes repeats likely
        ws = {"W3": rnd.sample(FIELDS_W3, rnd.randint(2, 5)),
              "W0": rnd.sample(FIELDS_W0, rnd.randint(2, 4))}
        if plain:
            ws = {"W3": ["f1", "f2", "f3", "fa_1"], "W0": ["g1", "g2", "g3"]}
        # a field called f2_proxy / f1_data next to f2 / f1 in one invoke
        # makes the PSy module itself invalid Fortran (observed; outside
        # this property): only a few programs keep that combination
        for base, evil in (("f2", "f2_proxy"), ("f1", "f1_data")):
            if base in ws["W3"] and evil in ws["W3"] and not allow_clash:
                ws["W3"].remove(evil if rnd.random() < 0.5 else base)
        wsr = rnd.sample(sorted(REALS), 3)
        # idx can have only one value during an invoke
        idx_inv = None if plain else rnd.choice([1, 2])
        calls = []
        texts = []
        seen_stores = set()
        extent_norms = set()     # texts used as stencil extents
        iarg_norms = set()       # texts used as integer kernel arguments
        want_danger = (danger in ("extent_struct", "extent_array",
                                  "extent_dup") and iv == danger_inv)

        def spelled(st, f2):
            """a spelling of st that is valid while idx == idx_inv"""
            if plain:
                return st
            for _ in range(12):
                f3 = set()
                tx = spell(rnd, st, f3)
                if "index_by_variable" in f3 and index_needed(st) != idx_inv:
                    continue
                f2 |= f3
                return tx
            if "(" in st:
                f2.add("array_element")
            if "%" in st:
                f2.add("derived_type_component")
            return st

        for kc in range(ncalls):
            kname = _pick_kernel(rnd, grow_left)
            if want_danger and not planted[0] and kc == ncalls - 1:
                kname = "c24_sten_w3_type"
            if kname in KERNELS:
                roles = list(KERNELS[kname]["roles"])
                space = KERNELS[kname]["space"]
            else:
                roles = list(BUILTINS[kname])
                space = rnd.choice(["W3", "W3", "W0"])
            args = []
            stores = []
            norms_here = set()

            def choose(pool, avoid=()):
                """(store, text) whose normalised text is new in this kernel
                call (unless the program is allowed a duplicate)"""
                for _ in range(60):
                    st = rnd.choice(pool)
                    f2 = set()
                    tx = spelled(st, f2)
                    if _norm(tx) in avoid:
                        continue
                    if _norm(tx) in norms_here:
                        if not (allow_dup and rnd.random() < 0.5):
                            continue
                        forms.add("same_text_twice_in_kernel_call")
                    norms_here.add(_norm(tx))
                    forms.update(f2)
                    return st, tx
                # pool exhausted: widen it
                wide = (FIELDS_W3 if pool[0] in FIELDS_W3 else FIELDS_W0
                        if pool[0] in FIELDS_W0 else sorted(REALS)
                        if pool[0] in REALS else sorted(INTS))
                rest = [x for x in wide if _norm(x) not in norms_here
                        and _norm(x) not in avoid]
                st = rnd.choice(rest)
                norms_here.add(_norm(st))
                return st, st

            for r in roles:
                if r in "Ff":
                    st, tx = choose(ws[space])
                elif r == "R":
                    st, tx = choose(sorted(REALS))
                elif r == "r":
                    if rnd.random() < 0.45:
                        st = rnd.choice(REAL_LITERALS)
                        forms.add("literal")
                        tx = st
                        if upper_lit and rnd.random() < 0.5:
                            tx = st.upper()
                            forms.add("literal_kind_upper_case")
                    else:
                        st, tx = choose(wsr)
                elif r == "e":
                    forms.add("stencil_extent")
                    if want_danger and not planted[0] and \
                            danger in ("extent_struct", "extent_array"):
                        # state%e: a variable called state_e exists (decoy,
                        # other value); state%n: no state_n exists
                        st = rnd.choice(["state%e", "state%n"]) \
                            if danger == "extent_struct" \
                            else rnd.choice(["ea(1)", "ea(2)"])
                        tx = st if plain else _vary_case(rnd, st)
                        planted[0] = True
                        forms.add("stencil_" + danger)
                    elif want_danger and not planted[0]:
                        # extent_dup: the same text is also the integer
                        # argument that follows
                        st = tx = rnd.choice(EXTENT_PLAIN)
                    elif rnd.random() < 0.4:
                        st = tx = rnd.choice(EXTENT_LITERALS)
                        if upper_lit:
                            st = tx = EXTENT_LITERAL_KIND
                            forms.add("stencil_extent_literal_with_kind")
                        forms.add("literal")
                    else:
                        st = rnd.choice(EXTENT_PLAIN)
                        tx = st if plain else _vary_case(rnd, st)
                        if _norm(tx) in iarg_norms:
                            st = tx = rnd.choice(EXTENT_LITERALS)
                    if st in INTS:
                        extent_norms.add(_norm(tx))
                else:  # "i"
                    if want_danger and not planted[0] and \
                            danger == "extent_dup" and roles[:3] == \
                            ["F", "f", "e"]:
                        st, tx = stores[-1], args[-1]
                        planted[0] = True
                        forms.add("stencil_extent_dup")
                        iarg_norms.add(_norm(tx))
                    elif rnd.random() < 0.5:
                        st = tx = rnd.choice(INT_LITERALS)
                        forms.add("literal")
                    else:
                        st, tx = choose(sorted(INTS), avoid=extent_norms)
                        iarg_norms.add(_norm(tx))
                stores.append(st)
                args.append(tx)
            fs = [x for x, r in zip(stores, roles) if r in "Ff"]
            if len(set(fs)) < len(fs):
                forms.add("same_field_twice_in_kernel_call")
            if seen_stores & set(fs):
                forms.add("repeated_across_kernel_calls")
            seen_stores |= set(fs)
            kspell = kname if (plain or rnd.random() < 0.6) \
                else _vary_case(rnd, kname)
            if kspell != kname:
                forms.add("kernel_name_case_varied")
            texts.append("%s(%s)" % (kspell, ",".join(
                (a if rnd.random() < 0.3 and not plain else " " + a)
                for a in args).strip()))
            calls.append({"kern": kname, "stores": stores})
        nm = None
        if danger == "label_clash" and not planted[0] and unnamed_positions:
            # the label a user may legitimately choose equals the name
            # PSyclone generates for an earlier unnamed invoke
            nm = rnd.choice(unnamed_positions)
            planted[0] = True
            forms.add("named_invoke")
            forms.add("label_equals_generated_name")
        elif rnd.random() < 0.5 and not (danger == "label_clash"
                                          and not planted[0]
                                          and iv < ninv - 1):
            nm = rnd.choice(["my_invoke", "Step_%d" % (iv + 1), "invoke_mixed",
                             "UPDATE%d" % iv]) + ("_%d" % iv)
            forms.add("named_invoke")
        else:
            forms.add("unnamed_invoke")
            unnamed_positions.append(generated_name(iv, [
                c["kern"] for c in calls]))
        parts = list(texts)
        if nm is not None:
            q = rnd.choice(["'", '"'])
            lab = "%s=%s%s%s" % (rnd.choice(["name", "NAME", "name "]), q,
                                 nm, q)
            if rnd.random() < 0.6:
                parts.insert(0, lab)
            else:
                parts.append(lab)
        stmt = "call invoke(" + ", &\n              ".join(parts) + ")"
        if idx_inv is not None and idx_now != idx_inv:
            steps.append({"assign": ["idx", idx_inv]})
            idx_now = idx_inv
        steps.append({"invoke": stmt, "meta": {"name": nm, "calls": calls}})
    return {"name": name, "ranks": ranks, "steps": steps,
            "forms": sorted(forms), "danger": danger if planted[0] else None}


# ---------------------------------------------------------------- x90 text
def _fs(space):
    return "fs_" + space.lower()


def program_text(desc):
    """x90 text of the program described by `desc`."""
    name = desc.get("name", "c24prog")
    ranks = int(desc.get("ranks", 1))
    hd = 2
    nlayers = int(desc.get("nlayers", 3))
    kern_used = sorted(KERNELS)
    L = ["program %s" % name,
         "  use global_mesh_base_mod, only: global_mesh_base_type",
         "  use mesh_mod,             only: mesh_type, PLANE",
         "  use partition_mod,        only: partition_type, "
         "partitioner_planar, partitioner_interface",
         "  use extrusion_mod,        only: uniform_extrusion_type",
         "  use function_space_mod,   only: function_space_type",
         "  use fs_continuity_mod,    only: W0, W3",
         "  use constants_mod,        only: r_def, i_def",
         "  use field_mod,            only: field_type",
         "  use c24_util_mod,         only: c24_init, c24_mult, c24_ssize, "
         "c24_dump_f, c24_dump_r, c24_dump_i"]
    for k in kern_used:
        L.append("  use %s, only: %s" % (KERNELS[k]["module"], k))
    L += ["  implicit none",
          "  type(global_mesh_base_type), target        :: global_mesh",
          "  class(global_mesh_base_type), pointer      :: global_mesh_ptr",
          "  type(partition_type)                       :: partition",
          "  type(mesh_type), target                    :: mesh",
          "  type(uniform_extrusion_type), target       :: extrusion",
          "  type(uniform_extrusion_type), pointer      :: extrusion_ptr",
          "  procedure (partitioner_interface), pointer :: partitioner_ptr",
          "  integer(kind=i_def) :: element_order = 1",
          "  integer(kind=i_def) :: ndata_sz = 1",
          "  type(function_space_type), target  :: fs_w3, fs_w0",
          "  type(function_space_type), pointer :: fs_w3_ptr, fs_w0_ptr"]
    L += DECLS.rstrip("\n").splitlines()
    L += ["",
          "  global_mesh = global_mesh_base_type()",
          "  global_mesh_ptr => global_mesh",
          "  partitioner_ptr => partitioner_planar"]
    if ranks == 2:
        L.append("  partition = partition_type(global_mesh_ptr, "
                 "partitioner_ptr, 2, 1, %d, 0, 2)" % hd)
    else:
        L.append("  partition = partition_type(global_mesh_ptr, "
                 "partitioner_ptr, 1, 1, %d, 0, 1)" % hd)
    L += ["  extrusion = uniform_extrusion_type(0.0_r_def, 100.0_r_def, %d)"
          % nlayers,
          "  extrusion_ptr => extrusion",
          "  mesh = mesh_type(global_mesh_ptr, partition, extrusion_ptr)",
          "  write(*,'(A,8(1X,I0))') 'MESH', %d, %d, mesh%%get_nlayers(), "
          "mesh%%get_last_edge_cell()%s" % (
              ranks, hd, "".join(", mesh%%get_last_halo_cell(%d)" % d
                                 for d in range(1, hd + 1)))]
    for s in ("W3", "W0"):
        v = _fs(s)
        L += ["  %s = function_space_type(mesh, element_order, %s, ndata_sz)"
              % (v, s),
              "  %s_ptr => %s" % (v, v),
              "  write(*,'(A,1X,A,12(1X,I0))') 'SPACE', '%s', "
              "%s%%get_undf(), %s%%get_last_dof_owned(), "
              "%s%%get_last_dof_annexed()%s" % (
                  s, v, v, v, "".join(", %s%%get_last_dof_halo(%d)" % (v, d)
                                      for d in range(1, hd + 1)))]
    for st, sp in FIELDS + AUX_FIELDS:
        L.append("  call %s%%initialise(vector_space=%s_ptr, name='v%d')" % (
            st, _fs(sp), len(L)))
    for st, sp in FIELDS:
        L.append("  call c24_init(%s, %d_i_def)" % (st, PRIME_OF[st]))
    L += ["  call c24_mult(mult_w0)",
          "  call c24_ssize(ssz1, 1_i_def)",
          "  call c24_ssize(ssz2, 2_i_def)"]
    for st in sorted(REALS):
        L.append("  %s = %s_r_def" % (st, REALS[st]))
    for st in sorted(INTS):
        L.append("  %s = %d_i_def" % (st, INTS[st]))
    for st in sorted(INDEX_VARS):
        L.append("  %s = %d_i_def" % (st, INDEX_VARS[st]))

    def dump(tag, aux=False):
        out = []
        for st, sp in FIELDS + (AUX_FIELDS if aux else []):
            out.append("  call c24_dump_f('%s', '%s', '%s', %s)" % (
                tag, st, sp, st))
        for st in sorted(REALS):
            out.append("  call c24_dump_r('%s', '%s', %s)" % (tag, st, st))
        for st in sorted(INTS):
            out.append("  call c24_dump_i('%s', '%s', %s)" % (tag, st, st))
        out.append("  write(*,'(A)') 'END %s'" % tag)
        return out
    L += dump("d0", aux=True)
    ninv = 0
    for st in desc["steps"]:
        if "assign" in st:
            L.append("  %s = %d_i_def" % (st["assign"][0], st["assign"][1]))
        elif "invoke" in st:
            ninv += 1
            L += ["  " + ln for ln in st["invoke"].splitlines()]
            L += dump("d%d" % ninv)
        else:
            raise ValueError("unknown step %r" % (st,))
    L.append("end program %s" % name)
    return "\n".join(L) + "\n"
