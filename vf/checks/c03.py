"""C03 Re-writing is stable after one round trip.

Monitor: text equality W(R(W(R(src)))) == W(R(src)) on the real reader/writer,
over generated programs and over every Fortran file of the repository's test
files and examples that the reader accepts.
"""
import difflib
import re
import os
import random

from vf import fgen, flite, psy
from vf.core import Part, REPO

PROPERTY = "C03"
LEVEL = "exploration"

CORPUS_DIRS = ["src/psyclone/tests/test_files", "examples", "tutorial"]


def corpus_files():
    out = []
    for d in CORPUS_DIRS:
        for root, _, files in os.walk(os.path.join(REPO, d)):
            for f in files:
                if f.lower().endswith((".f90", ".x90")):
                    out.append(os.path.join(root, f))
    return sorted(out)


WHERE_RE = re.compile(r"^\s*where\s*\(", re.I | re.M)


def check_text(src, part, origin, tag):
    """Returns True if the case reached the comparison."""
    t1, e1 = psy.roundtrip(src)
    if t1 is None:
        part.count("%s_not_accepted_by_reader" % tag)
        return False
    t2, e2 = psy.roundtrip(t1)
    if t2 is None:
        part.violation({"kind": "first_write_not_readable", "mechanism": None,
                        "what": "%s: the text written by pass 1 cannot be "
                                "read back: %s" % (origin, e2),
                        "origin": origin, "pass1": t1[:4000],
                        "source": src if tag == "generated" else None,
                        "dedupe": ("unreadable", e2[:60])})
        return True
    part.count("%s_compared" % tag)
    if t1 != t2:
        diff = list(difflib.unified_diff(t1.splitlines(), t2.splitlines(),
                                         "pass1", "pass2", lineterm="", n=1))
        changed = [l for l in diff if l[:1] in "+-" and l[:3] not in
                   ("+++", "---")]
        part.violation({"kind": "second_write_differs", "mechanism": None,
                        "what": "%s: %s" % (origin, " | ".join(changed[:4])
                                            [:400]),
                        "origin": origin, "diff": "\n".join(diff[:400]),
                        "source_has_where": bool(WHERE_RE.search(src)),
                        "source": src if tag == "generated" else None,
                        "dedupe": ("differs", " ".join(changed[:2])[:80])})
    return True


def gen_batch(arg):
    part = Part()
    rnd = random.Random(arg["seed"])
    for n in range(arg["count"]):
        opts = {"nstmts": rnd.randint(3, 9), "depth": rnd.choice([1, 2, 3]),
                "exitcycle": rnd.random() < 0.4,
                "named": rnd.random() < 0.7,
                "same_operands": rnd.random() < 0.5,
                "where_hazard": rnd.choice([None, None, "mixed_notation",
                                            "stride", "elem_operand"])}
        unit, g = fgen.kernel_unit(rnd, opts)
        src = flite.full_text(unit)
        ok = check_text(src, part, "generated program", "generated")
        part.case(key=src, nontrivial=ok,
                  sample=src[:800] if n == 0 else None)
    return part


def corpus_batch(arg):
    part = Part()
    for path in arg["files"]:
        try:
            with open(path, errors="replace") as fh:
                src = fh.read()
        except OSError:
            continue
        rel = os.path.relpath(path, REPO)
        ok = check_text(src, part, rel, "corpus")
        part.case(key=rel, nontrivial=ok,
                  sample=rel if ok and len(part.d["samples"]) < 1 else None)
    return part


def main(ctx):
    ctx.rule = ("(1) generated F-lite programs (module + main, CodeBlocks, "
                "nested constructs), (2) every .f90/.F90/.x90 file under %s "
                "that FortranReader accepts; a case is non-trivial when pass "
                "1 was produced and compared with pass 2; distinct by source "
                "text / file path" % ", ".join(CORPUS_DIRS))
    files = corpus_files()
    rnd = ctx.rng("corpus")
    if ctx.quick:
        files = rnd.sample(files, min(len(files), 320))
    ctx.extra["corpus_files_considered"] = len(files)
    nchunks = 48
    jobs = [{"files": files[k::nchunks]} for k in range(nchunks)]
    for res in ctx.pmap("vf.checks.c03", "corpus_batch", jobs, timeout=3000):
        if res:
            ctx.merge(res)
    nb = 32 if ctx.quick else 128
    cnt = 12 if ctx.quick else 40
    gj = [{"seed": ctx.rng("g", i).random(), "count": cnt} for i in range(nb)]
    for res in ctx.pmap("vf.checks.c03", "gen_batch", gj, timeout=3000):
        if res:
            ctx.merge(res)
    if ctx.counters.get("generated_compared", 0) + \
            ctx.counters.get("corpus_compared", 0) == 0:
        ctx.inconclusive("no round trip was compared")
    ctx.assumptions += ["no transformation is applied; files the reader "
                        "rejects are counted, not judged"]
