"""C28 PSyData regions are entered and left in matched pairs.

Monitor: generated programs instrumented by the real ProfileTrans /
ExtractTrans / NanTestTrans / ReadOnlyVerifyTrans are compiled against a
checking PSyData stub library (vf.psydata_stub) that logs every call; an
offline checker verifies, for every execution, that region start/end events
are properly nested and matched per handle, that the per-region call protocol
is followed, that no region is open at termination and that (module, region)
names are unique unless the user gave region_name.
"""
import os
import random
import shutil
import tempfile

from vf import fgen, flite, diffrun, psy, fx, psydata_stub
from vf.core import Part

PROPERTY = "C28"
LEVEL = "exploration"

PROTOCOL_NEXT = {
    None: {"PreStart"},
    "PreStart": {"PreDeclareVariable", "PreEndDeclaration", "PostEnd"},
    "PreDeclareVariable": {"PreDeclareVariable", "PreEndDeclaration"},
    "PreEndDeclaration": {"ProvideVariable", "PreEnd"},
    "ProvideVariable": {"ProvideVariable", "PreEnd", "PostEnd"},
    "PreEnd": {"PostStart"},
    "PostStart": {"ProvideVariable", "PostEnd"},
    "PostEnd": {"PreStart"},
}


def check_log(lines):
    """Offline checker over PSYDATA log lines.  Returns (code, what) or
    None."""
    stack = []                 # open handles (prefix, handle)
    last = {}                  # (prefix, handle) -> last event
    names = {}                 # (module, region) -> set of handles
    for ln in lines:
        f = ln.split()
        if len(f) < 4 or f[0] != "PSYDATA":
            continue
        prefix, handle, ev = f[1], f[2], f[3]
        key = (prefix, handle)
        prev = last.get(key)
        if ev not in PROTOCOL_NEXT.get(prev if prev != "PostEnd" else
                                       "PostEnd", set()):
            if ev == "PreStart" and prev not in (None, "PostEnd"):
                return ("region_restarted_while_open",
                        "%s handle %s: PreStart while the region is still "
                        "open (last event %s)" % (prefix, handle, prev))
            return ("protocol_order",
                    "%s handle %s: %s after %s" % (prefix, handle, ev, prev))
        last[key] = ev
        if ev == "PreStart":
            stack.append(key)
            names.setdefault((f[4] if len(f) > 4 else "?",
                              f[5] if len(f) > 5 else "?"), set()).add(key)
        elif ev == "PostEnd":
            if not stack or stack[-1] != key:
                return ("end_not_matching_innermost_start",
                        "%s handle %s: PostEnd but innermost open region is "
                        "%s" % (prefix, handle, stack[-1] if stack else None))
            stack.pop()
    if stack:
        return ("region_open_at_termination",
                "regions %s still open at the end of the run" % stack)
    for nm, hs in names.items():
        if len(hs) > 1:
            return ("region_name_not_unique",
                    "region %s used by %d different handles" % (nm, len(hs)))
    return None


TRANS = ["ProfileTrans", "ExtractTrans", "NanTestTrans",
         "ReadOnlyVerifyTrans"]


def contains_transfer(nodes):
    """AST fact on the PSyIR side is avoided: computed on my AST instead."""
    return None


def stmt_lists(unit):
    """All statement lists of the kernel in pre-order (routine body, loop
    bodies, if/else bodies) -- mirrors PSyIR Schedules in pre-order."""
    out = []

    def walk(body):
        out.append(body)
        for s in body:
            if s[0] == "do":
                walk(s[5])
            elif s[0] == "if":
                for _, b in s[1]:
                    walk(b)
                if s[2] is not None:
                    walk(s[2])
    walk(unit["routines"][0]["body"])
    return out


def has_transfer(stmts, in_loop_inside=False):
    """Does this statement list contain an EXIT/CYCLE that leaves it, or a
    RETURN?"""
    found = []

    def walk(body, loop_depth):
        for s in body:
            if s[0] == "return":
                found.append("return")
            elif s[0] in ("exit", "cycle") and loop_depth == 0:
                found.append(s[0])
            elif s[0] == "do":
                walk(s[5], loop_depth + 1)
            elif s[0] == "if":
                for _, b in s[1]:
                    walk(b, loop_depth)
                if s[2] is not None:
                    walk(s[2], loop_depth)
    walk(stmts, 0)
    return found


def batch(arg):
    from psyclone.psyir import transformations as T
    from psyclone.psyir.nodes import Schedule, Routine
    from psyclone.errors import PSycloneError
    part = Part()
    rnd = random.Random(arg["seed"])
    wd = tempfile.mkdtemp(prefix="vf_c28_")
    inputs = diffrun.INPUTS[:arg["ninputs"]]
    try:
        ok, err = fx.compile_f(os.path.join(wd, "lib"),
                               psydata_stub.all_modules(), compile_only=True)
        if not ok:
            part.inconclusive("PSyData stub does not compile: " + err[-200:])
            return part
        for n in range(arg["count"]):
            unit, g = fgen.kernel_unit(rnd, {
                "select": False, "where": False, "verb": False,
                "exitcycle": True, "nstmts": rnd.randint(3, 6),
                "intrinsics": False})
            # add an early RETURN sometimes
            body = unit["routines"][0]["body"]
            if rnd.random() < 0.3:
                body.insert(rnd.randint(1, len(body)), [
                    "if", [[["cmp", ">", ["var", "s1"], ["lit", 2, "i"]],
                            [["return"]]]], None])
            mod_text = flite.module_text(unit)
            main_text = flite.main_text(unit)
            good = diffrun.valid_inputs(unit, inputs)
            if not good:
                part.count("no_valid_input")
                continue
            lists = stmt_lists(unit)
            nontrivial = False
            for trial in range(arg["placements"]):
                try:
                    tree = psy.read(mod_text)
                except Exception:
                    part.count("reader_failed")
                    break
                kern = tree.walk(Routine)[0]
                scheds = [s for s in kern.walk(Schedule)]
                if len(scheds) != len(lists):
                    part.count("schedule_mapping_failed")
                    break
                nplace = rnd.choice([1, 1, 2])
                hist = []
                transfer = []
                for _ in range(nplace):
                    k = rnd.randrange(len(scheds))
                    sch = scheds[k]
                    if not sch.children:
                        continue
                    i = rnd.randrange(len(sch.children))
                    j = rnd.randint(i, min(len(sch.children) - 1, i + 3))
                    tname = rnd.choice(TRANS)
                    opts = None
                    if rnd.random() < 0.15:
                        opts = {"region_name": ("mymod", "myreg")}
                    try:
                        getattr(T, tname)().apply(sch.children[i:j + 1],
                                                  opts)
                        hist.append((tname, k, i, j, bool(opts)))
                        part.count("accepted:" + tname)
                        if len(lists[k]) == len(sch.children) or True:
                            # fact from MY ast: does the wrapped range hold a
                            # transfer of control out of it?
                            if k < len(lists) and j < len(lists[k]):
                                transfer += has_transfer(lists[k][i:j + 1])
                    except PSycloneError:
                        part.count("refused:" + tname)
                    except Exception as err:
                        part.count("crash:%s:%s" % (tname,
                                                    type(err).__name__))
                    # schedules changed: re-collect (mapping to my lists is
                    # only valid for the first placement)
                    break
                if not hist:
                    continue
                try:
                    ttext = psy.write(tree)
                except PSycloneError:
                    part.count("writer_refused")
                    continue
                except Exception as err:
                    part.count("writer_crash:" + type(err).__name__)
                    continue
                okc, errc = fx.compile_f(
                    os.path.join(wd, "p"), [("p.f90", ttext + main_text)],
                    extra=["-I", os.path.join(wd, "lib")] + [
                        os.path.join(wd, "lib", f[:-4] + ".o")
                        for f, _ in psydata_stub.all_modules()])
                if not okc:
                    part.violation({
                        "kind": "instrumented_code_does_not_compile",
                        "mechanism": None,
                        "what": "%s: %s" % (hist, errc.strip()[:300]),
                        "source": mod_text, "transformed": ttext,
                        "dedupe": ("compile", hist[0][0],
                                   errc.strip().splitlines()[-1][:50]
                                   if errc.strip() else "")})
                    continue
                part.count("instrumented_programs")
                for key in sorted(good):
                    rc, out, serr = fx.run_exe(os.path.join(wd, "p"),
                                               stdin="%d %d\n" % key)
                    if rc != 0:
                        part.count("instrumented_run_failed")
                        continue
                    log = [l for l in out.splitlines()
                           if l.startswith("PSYDATA")]
                    part.count("runs_checked")
                    part.count("psydata_events", len(log))
                    if log:
                        nontrivial = True
                    fault = check_log(log)
                    if fault:
                        mech = None
                        if transfer and fault[0] in (
                                "region_restarted_while_open",
                                "region_open_at_termination",
                                "end_not_matching_innermost_start"):
                            # named by the kinds of transfer AND the
                            # transformation that accepted the region
                            mech = "region_left_by_" + "_".join(
                                sorted(set(transfer))) + ":" + hist[0][0]
                        part.violation({
                            "kind": fault[0], "mechanism": mech,
                            "what": "%s input %s: %s" % (hist, key,
                                                         fault[1]),
                            "source": mod_text, "transformed": ttext,
                            "log": log[:40],
                            "dedupe": (fault[0], hist[0][0], mech)})
                        break
            part.case(key=mod_text, nontrivial=nontrivial,
                      sample=mod_text[:800] if n == 0 else None)
    finally:
        shutil.rmtree(wd, ignore_errors=True)
    return part


PSYKAL_FILES = {
    "gocean": ["single_invoke_two_identical_kernels.f90",
               "single_invoke_two_kernels.f90",
               "single_invoke_three_kernels.f90",
               "test12_two_invokes_two_kernels.f90"],
    "lfric": ["4_multikernel_invokes.f90", "4.1_multikernel_invokes.f90",
              "4.8_multikernel_invokes.f90", "1.2_multi_invoke.f90",
              "15.1.2_builtin_and_normal_kernel_invoke.f90"]}


def psykal_names_batch(arg):
    """(stdout of PSyclone's own diagnostics is swallowed)"""
    import contextlib
    import io
    with contextlib.redirect_stdout(io.StringIO()):
        return _psykal_names_batch(arg)


def _psykal_names_batch(arg):
    """Region names on PSyKAl invokes: each top-level loop of an invoke is
    wrapped in its own region (profiling / extraction / NaN test / read-only
    verification), with a fresh transformation object per region, one shared
    object, or one options dictionary reused for every apply() - none of
    which asks for aggregation.  The (module, region) identifiers of the
    PreStart hooks in the generated code must all differ."""
    import re
    from psyclone.configuration import Config
    from psyclone.parse.algorithm import parse
    from psyclone.psyGen import PSyFactory
    from psyclone.psyir.nodes import Loop
    from psyclone.errors import PSycloneError
    import psyclone
    part = Part()
    api = arg["api"]
    Config.get().api = "gocean1.0" if api == "gocean" else "lfric"
    if api == "gocean":
        from psyclone.domain.gocean.transformations import \
            GOceanExtractTrans as Extract
        tdir = "gocean1p0"
    else:
        from psyclone.domain.lfric.transformations import \
            LFRicExtractTrans as Extract
        tdir = "dynamo0p3"
    from psyclone.psyir.transformations import (ProfileTrans, NanTestTrans,
                                                ReadOnlyVerifyTrans)
    base = os.path.join(os.path.dirname(psyclone.__file__), "tests",
                        "test_files", tdir)
    for fname in PSYKAL_FILES[api]:
        path = os.path.join(base, fname)
        if not os.path.exists(path):
            part.count("psykal_file_missing")
            continue
        for tcls in (Extract, ProfileTrans, NanTestTrans,
                     ReadOnlyVerifyTrans):
            for style in ("fresh_object", "shared_object",
                          "shared_options_dict"):
                try:
                    _, info = parse(path, api=Config.get().api)
                    psy_ = PSyFactory(Config.get().api,
                                      distributed_memory=False).create(info)
                except Exception as err:
                    part.count("psykal_setup_failed:" + type(err).__name__)
                    break
                shared = tcls()
                opts = {"create_driver": False} if tcls is Extract else \
                    {"dummy_option": 1}
                nreg = 0
                for inv in psy_.invokes.invoke_list:
                    for node in list(inv.schedule.children):
                        if not isinstance(node, Loop):
                            continue
                        try:
                            if style == "fresh_object":
                                tcls().apply(node)
                            elif style == "shared_object":
                                shared.apply(node)
                            else:
                                shared.apply(node, opts)
                            nreg += 1
                        except PSycloneError:
                            part.count("refused:" + tcls.__name__)
                if nreg < 2:
                    continue
                try:
                    code = str(psy_.gen)
                except Exception as err:
                    part.count("psykal_gen_failed:" + type(err).__name__)
                    continue
                starts = re.findall(
                    r'%\s*PreStart\(\s*"([^"]*)"\s*,\s*"([^"]*)"', code,
                    flags=re.I)
                part.count("psykal_programs_checked")
                part.count("psykal_region_names_seen", len(starts))
                dup = sorted({x for x in starts if starts.count(x) > 1})
                if len(starts) != nreg:
                    part.count("psykal_start_count_differs")
                if dup:
                    part.violation({
                        "kind": "region_names_not_unique",
                        "mechanism": None,
                        "what": "%s %s, %s, %s: %d regions, identifiers %s "
                                "used more than once" % (
                                    api, fname, tcls.__name__, style, nreg,
                                    dup),
                        "dedupe": ("names", tcls.__name__, style)})
                part.case(key=("psykal", api, fname, tcls.__name__, style),
                          nontrivial=True)
    return part


def main(ctx):
    ctx.rule = ("generic kernels with loops containing IF(..) EXIT / CYCLE "
                "and early RETURNs; a random contiguous statement range of a "
                "random schedule (routine body, loop body, if body) is "
                "wrapped by Profile/Extract/NanTest/ReadOnlyVerify (15% with "
                "a user region_name); accepted placements are compiled "
                "against the checking stub and run on up to 5 inputs; "
                "non-trivial = a run produced PSyData events; distinct by "
                "module text")
    nb = 32 if ctx.quick else 160
    jobs = [{"seed": ctx.rng("b", i).random(),
             "count": 3 if ctx.quick else 20,
             "placements": 5 if ctx.quick else 12,
             "ninputs": 4 if ctx.quick else 6} for i in range(nb)]
    for res in ctx.pmap("vf.checks.c28", "batch", jobs, timeout=3400):
        if res:
            ctx.merge(res)
    for res in ctx.pmap("vf.checks.c28", "psykal_names_batch",
                        [{"api": "gocean"}, {"api": "lfric"}], timeout=3400):
        if res:
            ctx.merge(res)
    if ctx.counters.get("runs_checked", 0) == 0:
        ctx.inconclusive("no instrumented program was run")
    ctx.assumptions += [
        "the stub library is mine (jinja is absent so the real wrapper "
        "libraries cannot be generated); it logs and enforces nothing",
        "one placement per program (nested/repeated placements are a "
        "thorough-tier extension)"]
