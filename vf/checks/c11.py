"""C11 Variable access information covers every actual read and write.

Monitor: an offline comparison, per statement, of the variables the reference
interpreter actually read / wrote while executing the statement (on several
inputs) with what the real VariablesAccessInfo reports for the corresponding
PSyIR node; and of the reported access order for assignments that read their
own target.
"""
import random

from vf import flite, finterp, diffrun, scen, psy
from vf.core import Part

PROPERTY = "C11"
LEVEL = "exploration"


class StmtTracer(finterp.Tracer):
    """reads/writes (variable names) per statement object, aggregated over
    all dynamic instances; nested statements attribute to every open one."""

    def __init__(self, kernel_names):
        self.stack = []
        self.acc = {}           # id(stmt) -> {"R": set, "W": set, "stmt": s}
        self.names = kernel_names
        self.depth_call = 0

    def stmt(self, s, phase):
        if phase == 0:
            self.stack.append(s)
            self.acc.setdefault(id(s), {"R": set(), "W": set(), "stmt": s,
                                        "n": 0})["n"] += 1
        elif phase in (1, 3):
            self.stack.pop()

    def read(self, cell):
        for s in self.stack:
            self.acc[id(s)]["R"].add(cell.name)

    def write(self, cell):
        for s in self.stack:
            self.acc[id(s)]["W"].add(cell.name)


def kernel_stmts(unit):
    """Statements of the kernel in pre-order, by kind."""
    out = {"assign": [], "do": [], "if": [], "call": []}

    def f(s):
        k = "call" if s[0] == "icallsub" else s[0]
        if k in out:
            out[k].append(s)
    flite.walk_stmts(unit["routines"][0]["body"], f)
    return out


def psyir_nodes(tree):
    from psyclone.psyir.nodes import (Assignment, Loop, IfBlock, Call,
                                      IntrinsicCall, Routine, Schedule)
    kern = tree.walk(Routine)[0]
    calls = [c for c in kern.walk(Call) if isinstance(c.parent, Schedule)]
    ifs = [i for i in kern.walk(IfBlock)
           if "was_elseif" not in i.annotations]
    return {"assign": kern.walk(Assignment), "do": kern.walk(Loop),
            "if": ifs, "call": calls}


def reported(node):
    from psyclone.core import VariablesAccessInfo
    vai = VariablesAccessInfo(node)
    rep = {}
    for sig in vai.all_signatures:
        name = sig[0].lower() if hasattr(sig, "__getitem__") else \
            str(sig).lower()
        info = vai[sig]
        d = rep.setdefault(name, {"R": False, "W": False, "order": []})
        d["R"] = d["R"] or info.is_read()
        d["W"] = d["W"] or info.is_written()
        for acc in info.all_accesses:
            d["order"].append(acc.access_type.name)
    return rep


def batch(arg):
    part = Part()
    rnd = random.Random(arg["seed"])
    inputs = diffrun.INPUTS[:arg["ninputs"]]
    for n in range(arg["count"]):
        unit, _ = scen.make("access", rnd.random(), False)
        text = flite.module_text(unit)
        try:
            tree = psy.read(text)
        except Exception as err:
            part.count("reader_failed")
            continue
        fs = kernel_stmts(unit)
        ps = psyir_nodes(tree)
        if any(len(fs[k]) != len(ps[k]) for k in fs):
            part.count("statement_mapping_failed")
            continue
        kdecl = {d["name"].lower() for d in unit["routines"][0]["decls"]}
        # dynamic accesses aggregated over inputs
        agg = {}
        runs = 0
        for seed, nn in inputs:
            tr = StmtTracer(kdecl)
            it = finterp.Interp(unit, tracer=tr)
            try:
                it.run_main(seed, nn)
            except (finterp.Trap, finterp.Poison, RecursionError):
                # accesses made before the trap are still real accesses only
                # if the program is valid; discard this input
                continue
            runs += 1
            for sid, a in tr.acc.items():
                g = agg.setdefault(sid, {"R": set(), "W": set(),
                                         "stmt": a["stmt"]})
                g["R"] |= a["R"]
                g["W"] |= a["W"]
        if not runs:
            part.count("no_valid_input")
            continue
        nontrivial = False
        for kind in fs:
            for fst, pn in zip(fs[kind], ps[kind]):
                a = agg.get(id(fst))
                if a is None:
                    part.count("statement_never_executed")
                    continue
                try:
                    rep = reported(pn)
                except Exception as err:
                    part.violation({
                        "kind": "access_info_raised", "mechanism": None,
                        "what": "%s: %s on %s" % (type(err).__name__,
                                                  str(err)[:150],
                                                  flite.stmts([fst], 0)[0]),
                        "source": text,
                        "dedupe": type(err).__name__})
                    continue
                part.count("statements_compared")
                part.count("statements_compared:" + kind)
                nontrivial = True
                stxt = flite.stmts([fst], 0)[0][:120]
                for var in sorted(a["R"] & kdecl):
                    if not rep.get(var, {}).get("R"):
                        part.violation({
                            "kind": "actual_read_not_reported",
                            "mechanism": mech(kind, fst, var, "R"),
                            "what": "'%s' reads %s but it is %s" % (
                                stxt, var, "reported only as written"
                                if var in rep else "not reported"),
                            "stmt_kind": kind, "var": var, "source": text,
                            "dedupe": (kind, "R", mech(kind, fst, var,
                                                       "R"))})
                for var in sorted(a["W"] & kdecl):
                    if not rep.get(var, {}).get("W"):
                        part.violation({
                            "kind": "actual_write_not_reported",
                            "mechanism": mech(kind, fst, var, "W"),
                            "what": "'%s' modifies %s but it is %s" % (
                                stxt, var, "reported only as read"
                                if var in rep else "not reported"),
                            "stmt_kind": kind, "var": var, "source": text,
                            "dedupe": (kind, "W", mech(kind, fst, var,
                                                       "W"))})
                if kind == "assign" and fst[1][0] in ("var", "arr"):
                    tgt = fst[1][1].lower()
                    reads_self = [False]

                    def scan(e):
                        if e[0] == "icall" and e[1].lower() in (
                                "size", "lbound", "ubound"):
                            return          # inquiry: not a read
                        if e[0] in ("var", "arr") and e[1].lower() == tgt:
                            reads_self[0] = True
                        if e[0] == "arr":
                            for sb in e[2]:
                                if sb[0] == "rng":
                                    for x in sb[1:]:
                                        if x is not None:
                                            scan(x)
                                else:
                                    scan(sb)
                        elif e[0] in ("bin", "cmp", "log"):
                            scan(e[2])
                            scan(e[3])
                        elif e[0] in ("neg", "not"):
                            scan(e[1])
                        elif e[0] in ("icall",):
                            for a_ in e[2]:
                                scan(a_)
                            for a_ in (e[3] or {}).values():
                                scan(a_)
                        elif e[0] == "fcall":
                            for a_ in e[2]:
                                scan(a_)
                    scan(fst[2])
                    if reads_self[0] and tgt in rep:
                        part.count("self_reading_assignments")
                        order = rep[tgt]["order"]
                        if order and order[0] not in ("READ", "READWRITE",
                                                      "INQUIRY"):
                            part.violation({
                                "kind": "write_ordered_before_read",
                                "mechanism": None,
                                "what": "'%s': accesses of %s reported in "
                                        "order %s" % (stxt, tgt, order),
                                "source": text, "dedupe": "order"})
        part.case(key=text, nontrivial=nontrivial,
                  sample=text[:900] if n == 0 else None)
    return part

# ---------------------------------------------------------------- structures
STRUCT_HEAD = """module smod
  implicit none
  type :: t2
    double precision :: c(5)
    integer :: k
  end type t2
  type :: t1
    type(t2) :: b(5)
    double precision :: v(5)
    integer :: q
  end type t1
contains
  subroutine rsub(p)
    double precision, intent(inout) :: p
    p = p + 1.0d0
  end subroutine rsub
  subroutine isub(p, r)
    integer, intent(inout) :: p
    double precision, intent(in) :: r
    p = p + int(r)
  end subroutine isub
  subroutine kern(s, w, x, i, j, l, m, n)
    type(t1), intent(inout) :: s(5)
    type(t1), intent(inout) :: w
    double precision, intent(inout) :: x
    integer, intent(inout) :: i, j, l, m, n
    integer :: d
"""
IDX = ["i", "j", "l", "m", "n"]


def _designator(rnd, want, depth=0):
    """(text, base, index variables) of a random scalar designator of type
    `want` ('r' or 'i') through the derived types; subscripts are index
    variables, i+1 style expressions or (depth 0) another integer
    designator."""
    used = set()
    bases = set()

    def sub():
        x = rnd.random()
        v = rnd.choice(IDX)
        if x < 0.6 or (x >= 0.8 and depth > 0):
            used.add(v)
            return v
        if x < 0.8:
            used.add(v)
            return "min(5, %s + 1)" % v
        if depth == 0:
            t, b, u = _designator(rnd, "i", depth + 1)
            used.update(u[0])
            bases.update(u[1])
            bases.add(b)
            return "max(1, min(5, %s))" % t
        return v
    base = rnd.choice(["s", "w"])
    head = "s(%s)" % sub() if base == "s" else "w"
    if want == "r":
        tail = rnd.choice(["v", "bc"])
        if tail == "v":
            text = "%s%%v(%s)" % (head, sub())
        else:
            text = "%s%%b(%s)%%c(%s)" % (head, sub(), sub())
    else:
        tail = rnd.choice(["q", "bk"])
        if tail == "q":
            text = "%s%%q" % head
        else:
            text = "%s%%b(%s)%%k" % (head, sub())
    return text, base, (used, bases)


def struct_statements(rnd):
    """[(text lines, kind, expected reads, expected writes)] of 3-6 random
    statements through derived types."""
    stmts = []
    if True:
        for _ in range(rnd.randint(3, 6)):
            x = rnd.random()
            if x < 0.3:
                lt, lb, (lu, lbs) = _designator(rnd, "r")
                rt, rb, (ru, rbs) = _designator(rnd, "r")
                stmts.append((["%s = %s + x" % (lt, rt)], "assign",
                              lu | ru | lbs | rbs | {rb, "x"}, {lb}))
            elif x < 0.45:
                lt, lb, (lu, lbs) = _designator(rnd, "i")
                rt, rb, (ru, rbs) = _designator(rnd, "i")
                stmts.append((["%s = %s + 1" % (lt, rt)], "assign",
                              lu | ru | lbs | rbs | {rb}, {lb}))
            elif x < 0.65:
                at, ab, (au, abs_) = _designator(rnd, "r")
                stmts.append((["call rsub(%s)" % at], "call",
                              au | abs_ | {ab}, {ab}))
            elif x < 0.8:
                at, ab, (au, abs_) = _designator(rnd, "i")
                bt, bb, (bu, bbs) = _designator(rnd, "r")
                stmts.append((["call isub(%s, %s)" % (at, bt)], "call",
                              au | abs_ | bu | bbs | {ab, bb}, {ab}))
            elif x < 0.9:
                ct, cb, (cu, cbs) = _designator(rnd, "r")
                stmts.append((["if (%s > 0.5d0) then" % ct, "  x = x + 1.0d0",
                               "end if"], "if", cu | cbs | {cb, "x"}, {"x"}))
            else:
                at, ab, (au, abs_) = _designator(rnd, "i")
                stmts.append((["do d = 1, max(1, min(3, %s))" % at,
                               "  x = x + 1.0d0", "end do"], "do",
                              au | abs_ | {ab, "x"}, {"x", "d"}))
    return stmts


def struct_batch(arg):
    """Statements whose designators go through derived types: the index
    variables of EVERY component (and the bases) are read, the base of an
    assignment target / of an actual argument of a non-pure call is written.
    The expected sets are known by construction."""
    from psyclone.psyir.nodes import Routine
    part = Part()
    rnd = random.Random(arg["seed"])
    for n in range(arg["count"]):
        stmts = struct_statements(rnd)
        for _ in ():
            pass
        text = STRUCT_HEAD + "".join("    %s\n" % l for st in stmts
                                     for l in st[0]) + \
            "  end subroutine kern\nend module smod\n"
        try:
            tree = psy.read(text)
        except Exception as err:
            part.count("struct_reader_failed")
            continue
        kern = [r for r in tree.walk(Routine) if r.name == "kern"][0]
        if len(kern.children) != len(stmts):
            part.count("statement_mapping_failed")
            continue
        from psyclone.psyir.nodes import CodeBlock
        for (lines, kind, rexp, wexp), node in zip(stmts, kern.children):
            if node.walk(CodeBlock):
                part.count("struct_codeblock")
                continue
            try:
                rep = reported(node)
            except NotImplementedError as err:
                # documented, explicit refusal (a(a(i)) = ...): no access
                # information is given at all, nothing is silently dropped
                part.count("access_info_declined:NotImplementedError")
                continue
            except Exception as err:
                part.violation({
                    "kind": "access_info_raised", "mechanism": None,
                    "what": "%s: %s on %s" % (type(err).__name__,
                                              str(err)[:150], lines[0]),
                    "source": text, "dedupe": type(err).__name__})
                continue
            part.count("statements_compared")
            part.count("struct_statements_compared:" + kind)
            for var in sorted(rexp):
                if not rep.get(var, {}).get("R"):
                    part.violation({
                        "kind": "actual_read_not_reported",
                        "mechanism": None,
                        "what": "'%s' reads %s (a subscript or base inside a "
                                "structure access) but it is %s" % (
                                    lines[0], var, "reported only as written"
                                    if var in rep else "not reported"),
                        "stmt_kind": kind, "var": var, "source": text,
                        "dedupe": ("struct", kind, "R")})
            for var in sorted(wexp):
                if not rep.get(var, {}).get("W"):
                    part.violation({
                        "kind": "actual_write_not_reported",
                        "mechanism": None,
                        "what": "'%s' modifies %s but it is %s" % (
                            lines[0], var, "reported only as read"
                            if var in rep else "not reported"),
                        "stmt_kind": kind, "var": var, "source": text,
                        "dedupe": ("struct", kind, "W")})
        part.case(key=text, nontrivial=True,
                  sample=text[-900:] if n == 0 else None)
    return part


def mech(kind, fst, var, rw):
    """Mechanism facts from my AST: which kind of statement and argument."""
    if fst[0] == "icallsub":
        return "intrinsic_subroutine_%s_arg_%s" % (
            fst[1].lower(), "written" if rw == "W" else "read")
    if kind == "call":
        return "call_%s_arg_%s" % (fst[1].lower(),
                                   "written" if rw == "W" else "read")
    return None


def main(ctx):
    ctx.rule = ("kernels mixing assignments (nested expressions, array "
                "elements and sections, 2-D), DO loops, IF blocks, calls to "
                "module subroutines with intent(in/out/inout) dummies incl. "
                "a PURE one, function references, RANDOM_NUMBER and MVBITS; "
                "every statement that executed on at least one of up to 8 "
                "inputs is compared; non-trivial = at least one statement "
                "compared; distinct by module text")
    nb = 32 if ctx.quick else 160
    cnt = 25 if ctx.quick else 120
    jobs = [{"seed": ctx.rng("b", i).random(), "count": cnt,
             "ninputs": 5 if ctx.quick else 8} for i in range(nb)]
    for res in ctx.pmap("vf.checks.c11", "batch", jobs, timeout=3400):
        if res:
            ctx.merge(res)
    sjobs = [{"seed": ctx.rng("s", i).random(),
              "count": 60 if ctx.quick else 400} for i in range(16)]
    for res in ctx.pmap("vf.checks.c11", "struct_batch", sjobs, timeout=3400):
        if res:
            ctx.merge(res)
    if ctx.counters.get("statements_compared", 0) == 0:
        ctx.inconclusive("no statement was compared")
    ctx.assumptions += [
        "granularity: variable name (Signature's first component); inquiry "
        "intrinsics (SIZE/LBOUND/UBOUND) are not reads; callee-local "
        "variables are ignored; statement <-> PSyIR node mapping is by "
        "pre-order position and is verified by counts (else the program is "
        "skipped and counted)",
        "RANDOM_NUMBER/MVBITS semantics are modelled by the interpreter "
        "(harvest / TO are written)",
        "structure accesses (derived types are outside the reference "
        "interpreter): the expected reads/writes of a statement are known "
        "by construction (every subscript variable and base of a designator "
        "is read; the base of an assignment target or of an actual argument "
        "of a non-pure call is written)"]
