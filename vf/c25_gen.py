"""E7 helpers for C25: probe kernels, algorithm layer, driver program, mock
regions and my own evaluator of iteration-space expressions.

Nothing in this file imports PSyclone: everything here is the trusted,
independent side of the oracle.
"""
import os
import re

HERE = os.path.dirname(os.path.abspath(__file__))

OFFSETS = ["go_offset_ne", "go_offset_sw", "go_offset_any"]
# offsets that are valid metadata but have no built-in regions: only used
# with user-defined iteration spaces
EXTRA_OFFSETS = ["go_offset_se", "go_offset_nw"]
GTYPES = ["go_cu", "go_cv", "go_ct", "go_cf", "go_every"]
BUILTIN_SPACES = ["go_internal_pts", "go_all_pts"]
FIELDS = {"go_cu": ["fu1", "fu2"], "go_cv": ["fv1", "fv2"],
          "go_ct": ["ft1", "ft2"], "go_cf": ["ff1", "ff2"]}
ALLF = ["fu1", "fu2", "fv1", "fv2", "ft1", "ft2", "ff1", "ff2"]
FTYPE = {f: t for t, fs in FIELDS.items() for f in fs}
ALG_NAME = "c25alg"
PSY_MODULE = "psy_" + ALG_NAME

# kernel argument shapes: (access, what); what 'G' = the kernel's grid-point
# type, 'O' = a field on some other grid-point type, 'O2' = yet another
SHAPES = [
    [("go_write", "G")],
    [("go_read", "O"), ("go_write", "G")],
    [("go_readwrite", "G"), ("go_read", "O")],
    [("go_read", "go_r_scalar"), ("go_write", "G"),
     ("go_read", "go_grid_mask_t")],
    [("go_read", "O"), ("go_read", "go_i_scalar"), ("go_readwrite", "G"),
     ("go_read", "go_grid_dx_const")],
    [("go_read", "O"), ("go_write", "G"), ("go_write", "O2")],
    # (grid properties must follow all fields/scalars: PSyclone indexes the
    # algorithm arguments with the metadata index)
    [("go_read", "G"), ("go_write", "G"), ("go_read", "go_grid_area_u")],
]


def mock_source():
    with open(os.path.join(HERE, "gocean", "mock_dl_esm_inf.f90")) as fh:
        return fh.read()


LOG_SOURCE = """\
module c25_log_mod
  implicit none
  integer, parameter :: maxlog = 400000
  integer :: nlog = 0
  integer :: lk(maxlog), li(maxlog), lj(maxlog), lt(maxlog)
contains
  subroutine c25_reset()
    nlog = 0
  end subroutine c25_reset
  subroutine c25_visit(k, i, j)
    !$ use omp_lib
    integer, intent(in) :: k, i, j
    integer :: t
    t = 0
    !$ t = omp_get_thread_num()
    !$omp critical (c25log)
    nlog = nlog + 1
    if (nlog <= maxlog) then
      lk(nlog) = k
      li(nlog) = i
      lj(nlog) = j
      lt(nlog) = t
    end if
    !$omp end critical (c25log)
  end subroutine c25_visit
  subroutine c25_dump(idx)
    integer, intent(in) :: idx
    integer :: n
    write(*,'(A,I0,1X,I0)') 'I ', idx, nlog
    do n = 1, min(nlog, maxlog)
      write(*,'(I0,1X,I0,1X,I0,1X,I0)') lk(n), li(n), lj(n), lt(n)
    end do
  end subroutine c25_dump
end module c25_log_mod
"""


# ------------------------------------------------------------------ kernels
def make_kernel(kid, offset, gtype, space, shape_idx, rnd):
    """A probe kernel description.  Field arguments get a concrete grid-point
    type here ('O' resolved with rnd)."""
    others = [t for t in GTYPES if t != gtype]
    o1 = rnd.choice(others)
    o2 = rnd.choice([t for t in others if t != o1])
    args = []
    for acc, what in SHAPES[shape_idx]:
        if what == "G":
            args.append((acc, gtype))
        elif what == "O":
            args.append((acc, o1))
        elif what == "O2":
            args.append((acc, o2))
        else:
            args.append((acc, what))
    return {"id": kid, "name": "kx%d" % kid, "offset": offset,
            "gtype": gtype, "space": space, "shape": shape_idx,
            "args": args}


def designated_arg(kern):
    """PSyclone's documented rule (psyGen.Arguments.iteration_space_arg): the
    first argument that the kernel modifies."""
    for n, (acc, what) in enumerate(kern["args"]):
        if acc in ("go_write", "go_readwrite") and what in GTYPES:
            return n
    raise ValueError("kernel without a written field")


def kernel_source(kern, metadata=True):
    """Fortran module for one probe kernel.  With metadata=False the kernel
    type is left out (the compiled version: no kernel_mod/argument_mod mock
    is needed then)."""
    name = kern["name"]
    dummies = []
    decls = []
    metas = []
    for n, (acc, what) in enumerate(kern["args"]):
        d = "a%d" % n
        dummies.append(d)
        if what in GTYPES:
            intent = {"go_read": "in", "go_write": "inout",
                      "go_readwrite": "inout"}[acc]
            decls.append("    real(go_wp), intent(%s), dimension(:,:) :: %s"
                         % (intent, d))
            metas.append("go_arg(%s, %s, GO_POINTWISE)" % (acc.upper(),
                                                           what.upper()))
        elif what == "go_r_scalar":
            decls.append("    real(go_wp), intent(in) :: %s" % d)
            metas.append("go_arg(GO_READ, GO_R_SCALAR, GO_POINTWISE)")
        elif what == "go_i_scalar":
            decls.append("    integer, intent(in) :: %s" % d)
            metas.append("go_arg(GO_READ, GO_I_SCALAR, GO_POINTWISE)")
        elif what == "go_grid_mask_t":
            decls.append("    integer, intent(in), dimension(:,:) :: %s" % d)
            metas.append("go_arg(GO_READ, GO_GRID_MASK_T)")
        elif what == "go_grid_dx_const":
            decls.append("    real(go_wp), intent(in) :: %s" % d)
            metas.append("go_arg(GO_READ, GO_GRID_DX_CONST)")
        elif what == "go_grid_area_u":
            decls.append("    real(go_wp), intent(in), dimension(:,:) :: %s"
                         % d)
            metas.append("go_arg(GO_READ, GO_GRID_AREA_U)")
        else:
            raise ValueError(what)
    out = ["module %s_mod" % name, "  use kind_params_mod"]
    if metadata:
        out += ["  use kernel_mod", "  use argument_mod", "  use field_mod",
                "  use grid_mod"]
    out += ["  use c25_log_mod, only: c25_visit", "  implicit none"]
    if metadata:
        out += ["  type, extends(kernel_type) :: %s" % name,
                "     type(go_arg), dimension(%d) :: meta_args = &"
                % len(metas),
                "          (/ " + ", &\n             ".join(metas) + " /)",
                "     integer :: ITERATES_OVER = %s" % kern["space"].upper()
                if kern["space"] in BUILTIN_SPACES
                else "     integer :: ITERATES_OVER = %s" % kern["space"],
                "     integer :: index_offset = %s" % kern["offset"].upper(),
                "  contains",
                "    procedure, nopass :: code => %s_code" % name,
                "  end type %s" % name]
    out += ["contains",
            "  subroutine %s_code(ji, jj, %s)" % (name, ", ".join(dummies)),
            "    integer, intent(in) :: ji, jj"]
    out += decls
    out += ["    call c25_visit(%d, ji, jj)" % kern["id"],
            "  end subroutine %s_code" % name,
            "end module %s_mod" % name, ""]
    return "\n".join(out)


# ------------------------------------------------------------------ invokes
def make_call(kern, rnd, prefer=None):
    """Choose actual arguments for one kernel call: fields of the right
    grid-point type (any field for go_every), all distinct within the call.
    `prefer` is a list of field names to favour (to create shared fields
    between the kernels of an invoke)."""
    used = []
    actual = []
    for acc, what in kern["args"]:
        if what in GTYPES:
            pool = ALLF if what == "go_every" else FIELDS[what]
            pool = [f for f in pool if f not in used] or pool
            pref = [f for f in pool if prefer and f in prefer]
            f = rnd.choice(pref) if pref and rnd.random() < 0.6 \
                else rnd.choice(pool)
            used.append(f)
            actual.append(f)
        elif what == "go_r_scalar":
            actual.append("rs1")
        elif what == "go_i_scalar":
            actual.append("is1")
        else:
            actual.append(None)        # grid property: not passed
    return {"kid": kern["id"], "actual": actual,
            "field": actual[designated_arg(kern)]}


def alg_source(kernels, invokes):
    """Algorithm layer.  invokes: list of lists of calls."""
    kb = {k["id"]: k for k in kernels}
    used = sorted({c["kid"] for inv in invokes for c in inv})
    out = ["program %s" % ALG_NAME, "  use kind_params_mod", "  use grid_mod",
           "  use field_mod"]
    for kid in used:
        out.append("  use %s_mod, only: %s" % (kb[kid]["name"],
                                               kb[kid]["name"]))
    out += ["  implicit none",
            "  type(r2d_field) :: " + ", ".join(ALLF),
            "  real(go_wp) :: rs1", "  integer :: is1"]
    for inv in invokes:
        calls = []
        for c in inv:
            args = [a for a in c["actual"] if a is not None]
            calls.append("%s(%s)" % (kb[c["kid"]]["name"], ", ".join(args)))
        out.append("  call invoke(" + ", &\n              ".join(calls) + ")")
    out += ["end program %s" % ALG_NAME, ""]
    return "\n".join(out)


SUB_RE = re.compile(r"^\s*SUBROUTINE\s+(\w+)\s*\(([^)]*)\)", re.I | re.M)


def invoke_signatures(psy_text):
    """[(name, [dummy names])] of the invoke subroutines, in order of
    appearance in the generated PSy layer."""
    res = []
    # join continuation lines first
    text = re.sub(r"&\s*\n\s*&?", "", psy_text)
    for m in SUB_RE.finditer(text):
        name = m.group(1)
        if not name.lower().startswith("invoke"):
            continue
        args = [a.strip().lower() for a in m.group(2).split(",") if a.strip()]
        res.append((name, args))
    return res


def rename_psy_module(psy_text, new_name):
    """Several PSy layers generated from the same algorithm file are linked
    into one program: only the name on the MODULE / END MODULE lines of the
    compiled copy is changed."""
    out, n = re.subn(r"(?mi)^(\s*(?:END\s+)?MODULE\s+)%s\s*$" % PSY_MODULE,
                     r"\g<1>%s" % new_name, psy_text)
    if n != 2:
        raise ValueError("expected MODULE and END MODULE lines, found %d"
                         % n)
    return out


def driver_source(variants):
    """variants: [(module name, [(invoke name, [dummy names])])].  For every
    mock case read from stdin the driver calls every invoke of every variant
    and dumps the visit log after each call (dump index = running number)."""
    known = set(ALLF) | {"rs1", "is1"}
    for _mod, sigs in variants:
        for name, args in sigs:
            for a in args:
                if a not in known:
                    raise ValueError("invoke %s has unexpected argument %s" %
                                     (name, a))
    out = ["program c25_driver", "  use kind_params_mod", "  use region_mod",
           "  use grid_mod", "  use field_mod", "  use c25_log_mod"]
    for v, (mod, sigs) in enumerate(variants):
        for name, _args in sigs:
            out.append("  use %s, only: v%d_%s => %s" % (mod, v, name, name))
    out += ["  implicit none",
           "  type(grid_type), target :: grid",
           "  type(r2d_field) :: " + ", ".join(ALLF),
           "  real(go_wp) :: rs1", "  integer :: is1",
           "  integer :: ncase, ic, gx, gy, dmax",
           "  rs1 = 1.0_go_wp", "  is1 = 1",
           "  read(*,*) ncase", "  do ic = 1, ncase",
           "    read(*,*) gx, gy, dmax",
           "    grid%subdomain%internal = region_type(gx-1, gy-1, 2, gx, 2, gy)",
           "    grid%subdomain%global = grid%subdomain%internal",
           "    grid%nx = dmax", "    grid%ny = dmax",
           "    if (allocated(grid%tmask)) then",
           "      deallocate(grid%tmask, grid%dx_t, grid%dy_t, grid%dx_u, "
           "grid%dy_u, grid%dx_v, grid%dy_v, grid%area_t, grid%area_u, "
           "grid%area_v, grid%gphiu, grid%gphiv)",
           "    end if",
           "    allocate(grid%tmask(dmax,dmax), grid%dx_t(dmax,dmax), "
           "grid%dy_t(dmax,dmax), grid%dx_u(dmax,dmax), grid%dy_u(dmax,dmax),"
           " grid%dx_v(dmax,dmax), grid%dy_v(dmax,dmax), "
           "grid%area_t(dmax,dmax), grid%area_u(dmax,dmax), "
           "grid%area_v(dmax,dmax), grid%gphiu(dmax,dmax), "
           "grid%gphiv(dmax,dmax))",
           "    grid%tmask = 1", "    grid%dx_t = 1; grid%dy_t = 1; "
           "grid%dx_u = 1; grid%dy_u = 1; grid%dx_v = 1; grid%dy_v = 1",
           "    grid%area_t = 1; grid%area_u = 1; grid%area_v = 1; "
           "grid%gphiu = 0; grid%gphiv = 0"]
    for f in ALLF:
        out.append("    call setf(%s)" % f)
    out.append("    write(*,'(A,I0)') 'C ', ic")
    n = 0
    for v, (mod, sigs) in enumerate(variants):
        for name, args in sigs:
            out += ["    call c25_reset()",
                    "    call v%d_%s(%s)" % (v, name, ", ".join(args)),
                    "    call c25_dump(%d)" % n]
            n += 1
    out += ["  end do", "contains", "  subroutine setf(f)",
            "    type(r2d_field), intent(inout) :: f",
            "    integer :: r(10)", "    read(*,*) r",
            "    f%grid => grid",
            "    f%internal = region_type(r(2)-r(1)+1, r(4)-r(3)+1, r(1), "
            "r(2), r(3), r(4))",
            "    f%whole = region_type(r(6)-r(5)+1, r(8)-r(7)+1, r(5), r(6), "
            "r(7), r(8))",
            "    if (allocated(f%data)) deallocate(f%data)",
            "    allocate(f%data(r(9), r(10)))", "    f%data = 0.0_go_wp",
            "  end subroutine setf", "end program c25_driver", ""]
    return "\n".join(out)


# ------------------------------------------------------------ mock regions
def mock_case(rnd, nx, ny, mode):
    """One mock grid + fields.  Returns dict(gx, gy, dmax, fields={name:
    dict(internal=(xs,xe,ys,ye), whole=(...), data=(nxd,nyd))}).

    mode 'D': every field has its own internal and whole regions and its own
    data extents, all pairwise distinct (a loop bounded by the wrong field or
    the wrong kind of region is visible).
    mode 'S': as dl_esm_inf guarantees, fields on the same grid-point type
    share their regions and every data array has the same extents (needed to
    judge loop fusion, which relies on that guarantee)."""
    gx, gy = nx + 1, ny + 1           # internal region of the grid: 2..gx
    fields = {}
    seen = set()

    def fresh_region():
        for _ in range(1000):
            xs = rnd.choice([1, 2, 2, 3])
            ys = rnd.choice([1, 2, 2, 3])
            xe = gx + rnd.choice([-1, 0, 0, 1, 2, 3])
            ye = gy + rnd.choice([-1, 0, 0, 1, 2, 3])
            r = (xs, xe, ys, ye)
            if r in seen or xe < xs or ye < ys:
                continue
            seen.add(r)
            return r
        raise RuntimeError("cannot find a fresh region")

    def fresh_extent():
        for _ in range(1000):
            e = (gx + rnd.randint(1, 5), gy + rnd.randint(1, 5))
            r = (1, e[0], 1, e[1])
            if r in seen:
                continue
            seen.add(r)
            return e
        raise RuntimeError("cannot find a fresh extent")

    if mode == "D":
        for f in ALLF:
            fields[f] = {"internal": fresh_region(), "whole": fresh_region(),
                         "data": fresh_extent()}
    else:
        ext = fresh_extent()
        per = {}
        for t in FIELDS:
            per[t] = (fresh_region(), fresh_region())
        for f in ALLF:
            fields[f] = {"internal": per[FTYPE[f]][0],
                         "whole": per[FTYPE[f]][1], "data": ext}
    dmax = max(max(v["data"]) for v in fields.values()) + 1
    return {"gx": gx, "gy": gy, "dmax": dmax, "mode": mode, "fields": fields}


def driver_input(cases):
    out = ["%d" % len(cases)]
    for c in cases:
        out.append("%d %d %d" % (c["gx"], c["gy"], c["dmax"]))
        for f in ALLF:
            v = c["fields"][f]
            out.append(" ".join(str(x) for x in
                                v["internal"] + v["whole"] + v["data"]))
    return "\n".join(out) + "\n"


def parse_log(stdout, ncases, ninvokes):
    """-> logs[case][invoke] = list of (kid, i, j, thread); None if the
    output is malformed/truncated."""
    logs = []
    cur = None
    cur_inv = None
    want = 0
    for line in stdout.split("\n"):
        if not line:
            continue
        if line[0] == "C":
            cur = [None] * ninvokes
            logs.append(cur)
            continue
        if line[0] == "I":
            if want != 0:
                return None
            _, idx, n = line.split()
            cur_inv = []
            cur[int(idx)] = cur_inv
            want = int(n)
            continue
        p = line.split()
        if len(p) != 4 or cur_inv is None:
            return None
        cur_inv.append((int(p[0]), int(p[1]), int(p[2]), int(p[3])))
        want -= 1
    if want != 0 or len(logs) != ncases:
        return None
    for c in logs:
        if any(x is None for x in c):
            return None
    return logs


# ------------------------------------------- iteration-space expressions
TOKEN = re.compile(r"\s*(\{start\}|\{stop\}|\d+|[-+*/()])")


def eval_bound(expr, start, stop):
    """My own evaluator of a config-file bound expression: integer literals,
    {start}, {stop}, + - * / (Fortran truncating division), unary +/-,
    parentheses."""
    toks = []
    pos = 0
    s = expr.strip()
    while pos < len(s):
        m = TOKEN.match(s, pos)
        if not m:
            raise ValueError("cannot tokenise %r at %d" % (expr, pos))
        toks.append(m.group(1))
        pos = m.end()
    idx = [0]

    def peek():
        return toks[idx[0]] if idx[0] < len(toks) else None

    def take():
        t = peek()
        idx[0] += 1
        return t

    def primary():
        t = take()
        if t == "{start}":
            return start
        if t == "{stop}":
            return stop
        if t == "(":
            v = addsub()
            if take() != ")":
                raise ValueError("missing ) in %r" % expr)
            return v
        if t is not None and t.isdigit():
            return int(t)
        raise ValueError("unexpected %r in %r" % (t, expr))

    def muldiv():
        v = primary()
        while peek() in ("*", "/"):
            op = take()
            w = primary()
            if op == "*":
                v = v * w
            else:
                q = abs(v) // abs(w)
                v = q if (v >= 0) == (w >= 0) else -q
        return v

    def addsub():
        # Fortran: a leading sign applies to the first term
        sign = 1
        if peek() in ("+", "-"):
            sign = -1 if take() == "-" else 1
        v = sign * muldiv()
        while peek() in ("+", "-"):
            op = take()
            w = muldiv()
            v = v + w if op == "+" else v - w
        return v

    v = addsub()
    if peek() is not None:
        raise ValueError("trailing %r in %r" % (peek(), expr))
    return v


BOUND_EXPRS = [
    "{start}", "{stop}", "{start}-1", "{stop}+1", "{start}", "{stop}",
    "{start}-1", "{stop}+1", "{start}+1", "{stop}-1", "1", "2", "3",
    "{start} - 1", "{stop} + 1", "({start}+{stop})/2", "{stop}/2+1",
    "2*{start}-1", "{stop}-{start}+1", "{stop}-({start}-1)", "{start}-2",
    "{stop}+2", "({stop}+1)", "2*{stop}-{stop}", "{start}*{start}-2",
    "-1+{start}", "{stop}-1+1",
]


def gen_space_line(rnd, offset, gtype, name):
    """One iteration-spaces line and its parsed form."""
    def pair():
        r = rnd.random()
        if r < 0.55:
            lo = rnd.choice(["{start}", "{start}-1", "{start}", "1", "2",
                             "{start} - 1", "{start}+1", "-1+{start}",
                             "2*{start}-1", "{start}-2"])
            hi = rnd.choice(["{stop}", "{stop}+1", "{stop}", "{stop}-1",
                             "{stop} + 1", "({stop}+1)", "{stop}+2",
                             "2*{stop}-{stop}", "{stop}-1+1"])
            return lo, hi
        if r < 0.7:                     # a single row/column
            e = rnd.choice(["{start}", "{stop}", "{start}-1", "{stop}+1",
                            "1", "2"])
            return e, e
        return rnd.choice(BOUND_EXPRS), rnd.choice(BOUND_EXPRS)
    os_, oe = pair()
    is_, ie = pair()
    line = ":".join([offset, gtype, name, os_, oe, is_, ie])
    return line, {"offset": offset, "gtype": gtype, "name": name,
                  "outer": (os_, oe), "inner": (is_, ie)}


def config_text(base_cfg_text, lines):
    """The repository's config file with an iteration-spaces key added to the
    [gocean] section."""
    if not lines:
        return base_cfg_text
    key = "iteration-spaces=" + "\n                 ".join(lines) + "\n"
    out = []
    done = False
    for l in base_cfg_text.split("\n"):
        out.append(l)
        if l.strip().lower() == "[gocean]" and not done:
            out.append(key)
            done = True
    if not done:
        raise ValueError("no [gocean] section")
    return "\n".join(out)


# ----------------------------------------------------------------- regions
def region_points(r):
    """Row-major (outer j, inner i) list of points of region (xs,xe,ys,ye)."""
    xs, xe, ys, ye = r
    return [(i, j) for j in range(ys, ye + 1) for i in range(xs, xe + 1)]
