"""C22 Distributed-memory LFRic code never reads a dirty halo.

Runtime monitoring of an abstract execution of the GENERATED PSy layer: the
emitted Fortran text of every invoke is read into an event trace (is_dirty
guards, halo exchanges, cell / DoF loops with their real bounds, the kernel
or built-in run by the loop, set_dirty / set_clean) and a halo-state shadow
(vf/c22_model.py, written from the developer guide) is advanced over that
trace from EVERY initial halo state of every field, both mesh-depth and
stencil-extent valuations, and both COMPUTE_ANNEXED_DOFS settings.
Checked: (i) every read finds the depth it needs clean (and the annexed DoFs
where the guide says they are read); (ii) after the set_dirty/set_clean calls
that follow a write the recorded state is no cleaner than the actual one.
"""
import os
import random
import shutil
import tempfile

from vf.core import Part

PROPERTY = "C22"
LEVEL = "exploration"

# the documentation sentence a failed rule contradicts (developer guide
# doc/developer_guide/APIs.rst unless stated otherwise)
DOC = {
    "read": "Halo Exchange Logic 3): 'continuous fields that are read from "
            "within loops that iterate over cells and modify a discontinuous "
            "field will access their annexed dofs ... a halo exchange will "
            "be required'; 1): 'any field that is read within such a loop "
            "must have its level-1 halo clean'; Dof iterators case 4)",
    "stencil": "Halo Exchange Logic 4): 'fields that have a stencil access "
               "will access the halo and need halo exchange calls added'",
    "inc": "Cell iterators: Continuous: 'a loop iterating to the level-n "
           "halo will result in a halo exchange to the level-(n-1) halo "
           "being added before the loop'; Halo Exchange Logic 1): 'A "
           "modified field (GH_INC) will require a halo exchange if its "
           "annexed dofs are not clean'",
    "readinc": "Cell iterators: Continuous: 'This is also the case for a "
               "modified field with GH_READINC access as readinc captures a "
               "kernel field whose data is read (into the level-1 halo) and "
               "then incremented'",
    "dofread": "Dof iterators: loops to the last annexed / halo DoF read "
               "those DoFs",
    "write": "Cell iterators: Continuous: 'the outermost halo of the "
             "modified field is dirty after redundant computation'; "
             "Discontinuous: only the cells iterated over are computed",
    "async": "Asynchronous Halo Exchanges: start and end 'can then be moved "
             "... as long as data dependencies are honoured'",
}


def alg_files():
    from vf.c22_drive import ALG_DIR
    out = []
    for f in sorted(os.listdir(ALG_DIR)):
        if (f.endswith(".f90") or f.endswith(".F90")) and \
                not f.lower().endswith("_mod.f90") and f[0].isdigit():
            out.append(f)
    return out


def excerpt(lines, lineno, before=14, after=4):
    out = []
    for no, l in lines:
        if lineno is None or lineno - before <= no <= lineno + after:
            if l:
                out.append("%5d  %s" % (no, l))
    return out[-60:] if lineno is None else out


def check_text(part, text, facts_by_invoke, annexed, label, hist_strs,
               only=None, replay=None, min_d=1):
    """Parse + execute every invoke subroutine of `text` (or only `only`).
    Returns number of invokes analysed."""
    from vf import c22_parse, c22_exec
    subs = c22_parse.split_invokes(text)
    done = 0
    for name, lines in subs.items():
        if only is not None and name != only:
            continue
        if name not in facts_by_invoke:
            continue
        part.count("invokes_seen")
        try:
            parsed = c22_parse.parse_invoke(lines)
            c22_parse.resolve(parsed, facts_by_invoke[name])
        except c22_parse.Unparsed as err:
            part.count("invokes_skipped_unparsed")
            part.count("unparsed:" + str(err).split(":")[0][:40])
            continue
        for k, v in parsed["stats"].items():
            part.count(k, v)
        counters = {}
        faults, info = c22_exec.analyse(parsed["events"], annexed, counters,
                                        min_d)
        for k, v in counters.items():
            part.count(k, v)
        if not info["valid_D"]:
            part.count("invokes_skipped_no_valid_mesh_depth")
            continue
        done += 1
        part.count("invokes_executed")
        nloops = sum(1 for e in parsed["events"] if e["t"] == "loop")
        part.case(key=(label, name, annexed, tuple(hist_strs)),
                  nontrivial=nloops > 0 and info["states"] > 0,
                  sample={"source": label, "invoke": name,
                          "annexed": annexed, "history": hist_strs,
                          "fields": info["fields"],
                          "mesh_halo_depths": info["valid_D"],
                          "initial_states": info["states"]}
                  if hist_strs and len(part.d["samples"]) < 2 else None)
        for f in faults:
            w = dict(f)
            w.update({
                "what": "%s %s (annexed=%s) after %s: field %s from initial "
                        "state %s (mesh halo depth %d): %s at line %s '%s'"
                        % (label, name, annexed, hist_strs or "no "
                           "transformation", f["field"], f["initial_state"],
                           f["mesh_halo_depth"], f["detail"],
                           f["event_line"], f["event_text"]),
                "source": label, "invoke": name, "annexed": annexed,
                "history": hist_strs,
                "psy_lines": excerpt(lines, f["event_line"]),
                "documentation": DOC.get(str(f["mechanism"]).split(":")[0]),
                "dedupe": (f["kind"], f["mechanism"])})
            if replay:
                w["replay"] = replay
            part.count("fault:" + str(f["mechanism"]))
            part.violation(w)
    return done


def run_case(part, info, annexed, label, rnd, nsteps, replay_base,
             fixed_hist=None, mutate=None):
    """One (file, history) case: new PSy object, random accepted history on
    one invoke, generate, analyse that invoke (all invokes if no history)."""
    from psyclone.errors import PSycloneError
    from vf import c22_drive as drv
    try:
        psy = drv.new_psy(info)
    except Exception as err:      # pylint: disable=broad-except
        part.count("psy_create_failed:" + type(err).__name__)
        return
    invs = psy.invokes.invoke_list
    if not invs:
        return
    hist = []
    target = None
    if fixed_hist is not None:
        target = invs[fixed_hist["invoke_index"]]
        for st in fixed_hist["steps"]:
            drv.apply_step(target.schedule, st)
            hist.append(st)
    elif nsteps:
        idx = rnd.randrange(len(invs))
        target = invs[idx]
        sched = target.schedule
        tries = 0
        while len(hist) < nsteps and tries < nsteps * 6:
            tries += 1
            st = drv.random_step(sched, rnd)
            if st is None:
                continue
            try:
                drv.apply_step(sched, st)
            except PSycloneError:
                part.count("refused:" + st["t"])
                # A refusal may leave the schedule partly changed (that is
                # property C26, not this one): rebuild it from the accepted
                # steps only, so that the code judged here is the result of
                # an ACCEPTED history.
                try:
                    psy = drv.new_psy(info)
                    invs = psy.invokes.invoke_list
                    target = invs[idx]
                    sched = target.schedule
                    for old in hist:
                        drv.apply_step(sched, old)
                except Exception:      # pylint: disable=broad-except
                    part.count("rebuild_after_refusal_failed")
                    return
                continue
            except (IndexError, KeyError, AttributeError, ValueError,
                    TypeError) as err:
                part.count("apply_crash:%s:%s" % (st["t"],
                                                  type(err).__name__))
                return
            part.count("accepted:" + st["t"])
            hist.append(st)
        if not drv.close_omp(sched, hist, part.count):
            part.count("history_left_orphan_omp_do")
            return
        replay_base = dict(replay_base, invoke_index=idx, steps=hist)
    try:
        text = str(psy.gen)
    except (PSycloneError, NotImplementedError) as err:
        # deliberate refusals at code-generation time (e.g. an OpenMP region
        # with children of different types)
        part.count("generation_refused")
        return
    except Exception as err:      # pylint: disable=broad-except
        part.count("generation_crash:" + type(err).__name__)
        if os.environ.get("VF_C22_DEBUG"):
            import traceback
            traceback.print_exc()
            print([drv.step_str(s) for s in hist], label)
        return
    if mutate is not None:
        text = mutate(text)
        if text is None:
            return
    facts = {}
    for inv in invs:
        if target is None or inv is target:
            facts[inv.name] = drv.kernel_facts(inv.schedule)
    hs = [drv.step_str(s) for s in hist]
    min_d = max([1] + [st["depth"] for st in hist
                       if st["t"] == "rc" and st["depth"]])
    check_text(part, text, facts, annexed, label, hs,
               only=target.name if target is not None else None,
               replay=replay_base, min_d=min_d)
    part.count("cases_with_history" if hist else "cases_without_history")


def selftest_mutation(rnd):
    """Returns a text mutator that breaks the generated PSy layer: deletes
    one halo_exchange call (with its guard) or raises one set_clean depth."""
    import re

    def mutate(text):
        lines = text.splitlines()
        hx = [i for i, l in enumerate(lines) if "%halo_exchange(" in l]
        sc = [i for i, l in enumerate(lines) if "%set_clean(" in l]
        if hx and (not sc or rnd.random() < 0.7):
            i = rnd.choice(hx)
            if i > 0 and "is_dirty" in lines[i - 1]:
                del lines[i - 1:i + 2]
            else:
                del lines[i]
        elif sc:
            i = rnd.choice(sc)
            lines[i] = re.sub(r"set_clean\((\d+)\)",
                              lambda m: "set_clean(%d)" % (int(m.group(1))
                                                           + 1), lines[i])
        else:
            return None
        return "\n".join(lines)
    return mutate


def batch(arg):
    from vf import c22_drive as drv
    part = Part()
    rnd = random.Random(arg["seed"])
    annexed = arg["annexed"]
    drv.set_annexed(annexed)
    selftest = bool(arg.get("selftest"))
    tmp = tempfile.mkdtemp(prefix="vf_c22_")
    try:
        sources = []
        for f in arg.get("files", []):
            sources.append((f, os.path.join(drv.ALG_DIR, f), None,
                            {"file": f}))
        if arg.get("generated"):
            from vf import c22_gen
            kdir = os.path.join(tmp, "kernels")
            c22_gen.write_kernels(kdir)
            for i in range(arg["generated"]):
                gseed = rnd.getrandbits(48)
                name = "gen_%012x" % gseed
                path = os.path.join(tmp, name + ".f90")
                with open(path, "w") as fh:
                    fh.write(c22_gen.algorithm(random.Random(gseed), name,
                                               kdir))
                sources.append((name, path, [kdir], {"gen_seed": gseed}))
        for label, path, kpaths, ident in sources:
            try:
                info = drv.create_psy(path, kpaths)
            except Exception as err:      # pylint: disable=broad-except
                part.count("alg_parse_failed")
                continue
            base = dict(ident, annexed=annexed)
            if not selftest:
                run_case(part, info, annexed, label, rnd, 0, base)
            for h in range(arg["histories"]):
                run_case(part, info, annexed, label, rnd,
                         rnd.randint(1, arg["maxlen"]), base,
                         mutate=selftest_mutation(rnd) if selftest else None)
    finally:
        shutil.rmtree(tmp, ignore_errors=True)
    return part


def replay(ctx, witness):
    """Re-run exactly the case of a witness (same source, annexed setting,
    invoke and transformation history)."""
    from vf import c22_drive as drv
    rep = witness["replay"]
    drv.set_annexed(rep["annexed"])
    part = Part()
    tmp = tempfile.mkdtemp(prefix="vf_c22_")
    try:
        if "file" in rep:
            label, path, kp = rep["file"], os.path.join(drv.ALG_DIR,
                                                        rep["file"]), None
        else:
            from vf import c22_gen
            kdir = os.path.join(tmp, "kernels")
            c22_gen.write_kernels(kdir)
            label = "gen_%012x" % rep["gen_seed"]
            path = os.path.join(tmp, label + ".f90")
            with open(path, "w") as fh:
                fh.write(c22_gen.algorithm(random.Random(rep["gen_seed"]),
                                           label, kdir))
            kp = [kdir]
        info = drv.create_psy(path, kp)
        fixed = None
        if rep.get("steps"):
            fixed = {"invoke_index": rep["invoke_index"],
                     "steps": rep["steps"]}
        run_case(part, info, rep["annexed"], label, random.Random(0), 0,
                 rep, fixed_hist=fixed)
    finally:
        shutil.rmtree(tmp, ignore_errors=True)
    ctx.merge(part.to_json())
    ctx.rule = "replay of one witness"


def main(ctx):
    files = alg_files()
    rnd = ctx.rng("files")
    halo = [f for f in files if f.startswith("14.")]
    must = halo + [f for f in files if f in (
        "1_single_invoke.f90", "1_single_invoke_w3.f90",
        "4_multikernel_invokes.f90", "4.8_multikernel_invokes.f90",
        "11_any_space.f90", "15.1.1_X_plus_Y_builtin.f90",
        "15.14.4_builtin_and_normal_kernel_invoke.f90",
        "19.7_multiple_stencils.f90", "19.1_single_stencil.f90",
        "8_vector_field.f90", "1.0.1_single_named_invoke.f90")]
    must = sorted(set(must))
    rest = [f for f in files if f not in must]
    rnd.shuffle(rest)
    nrest = 8 if ctx.quick else len(rest)
    chosen = must + rest[:nrest]
    selftest = bool(os.environ.get("VF_C22_SELFTEST"))
    ngen = 3 if ctx.quick else 12
    nh = 4 if ctx.quick else 6
    nchunks = 16 if ctx.quick else 32
    jobs = []
    for annexed in (False, True):
        for k in range(nchunks):
            jobs.append({"seed": ctx.rng("b", annexed, k).random(),
                         "annexed": annexed, "files": chosen[k::nchunks],
                         "generated": ngen, "histories": nh, "maxlen": 5,
                         "selftest": selftest})
    ctx.rule = (
        "cases = (algorithm, invoke, COMPUTE_ANNEXED_DOFS, transformation "
        "history); algorithms are %d of the repository's LFRic algorithm "
        "files (all 14.* halo files always) plus %d generated ones per "
        "worker that chain kernels from a generated metadata family (access "
        "x function space x stencil) and built-ins over a small field pool; "
        "histories are random ACCEPTED sequences (<= 5) of redundant "
        "computation (depth 1..3 / max), colouring, asynchronous halo "
        "exchange, move and OpenMP transformations, plus the untransformed "
        "invoke; each case is executed from every initial halo state of "
        "every field for two mesh halo depths and stencil extents 1,2; "
        "non-trivial = at least one loop executed; distinct by (source, "
        "invoke, annexed, history)" % (len(chosen), ngen))
    for res in ctx.pmap("vf.checks.c22", "batch", jobs,
                        timeout=1500 if ctx.quick else 7000):
        if res:
            ctx.merge(res)
    if not ctx.quick and not selftest:
        # validate the text executor against real runs on the stub
        # infrastructure (rank 0 of 2, logging overlay)
        try:
            from vf import c22_impl
            c22_impl.run(ctx, 10)
        except Exception as err:      # pylint: disable=broad-except
            ctx.count("impl_validation_crashed")
            ctx.extra["impl_validation"] = "crashed: %r" % (err,)
        ctx.extra["traces_validated_against_impl"] = ctx.counters.get(
            "traces_validated_against_impl", 0)
    c = ctx.counters
    if selftest:
        ctx.extra["selftest"] = ("VF_C22_SELFTEST: every generated PSy layer "
                                 "was deliberately broken; violations are "
                                 "EXPECTED")
    if c.get("reads_checked", 0) == 0 or c.get("writes_checked", 0) == 0:
        ctx.inconclusive("the shadow never checked a read and a write")
    if c.get("cases_with_history", 0) == 0:
        ctx.inconclusive("no transformed invoke was executed")
    sampled = c.get("invokes_with_sampled_extent_valuations", 0)
    ctx.extra["exhaustive"] = sampled == 0
    ctx.extra["exhaustive_bound"] = (
        "all initial (clean depth 0..D, annexed clean/dirty) states of every "
        "field component of every executed invoke, for the two smallest "
        "mesh halo depths D that are valid for the invoke and every stencil "
        "extent variable in {1,2}; the model has no cross-field coupling so "
        "per-field enumeration covers every joint state "
        "(joint_initial_states_covered)")
    ctx.assumptions += [
        "the oracle is my reading of doc/developer_guide/APIs.rst (cell "
        "iterators, dof iterators / annexed dofs, halo exchange logic) and "
        "the user guide's function-space continuity table; halo VALUES are "
        "not computed",
        "field accesses of coded kernels come from PSyclone's parsed kernel "
        "metadata objects (access, function space, stencil, vector size); "
        "built-in accesses come from the emitted assignment text",
        "invokes whose PSy layer contains a statement the reader does not "
        "know (inter-grid kernels, several kernels in one loop, user DoF "
        "kernels) are counted under invokes_skipped_unparsed and not judged",
        "operators carry no halo state (limited to depth 1 by design)",
        "WEAKENED: reads by a kernel whose updated arguments all have "
        "GH_WRITE access and include a continuous/any_space field do not "
        "need clean annexed DoFs over owned cells (guide 'Halo Exchange "
        "Logic' case 2 is ambiguous about the READ arguments and the "
        "repository test test_write_cont_dirty asserts no exchange)",
        "the mesh halo depth is at least every literal depth in the code and "
        "every depth the redundant-computation history asked for; a refused "
        "transformation is followed by rebuilding the schedule from the "
        "accepted steps (a refusal that leaves the schedule changed is C26)",
        "a halo exchange placed inside a loop over colours is executed once "
        "before the cell loop (counted: halo_exchange_inside_colours_loop)"]
