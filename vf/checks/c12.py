"""C12 Extraction regions record every input and output they need.

Monitor: the reference interpreter replays a region (consecutive top-level
statements of a kernel) from a state in which every variable that the real
CallTreeUtils.get_in_out_parameters does NOT report as input is poisoned.
A read of poison is a missing input; a variable modified in the region that
is not reported as output is a missing output; a reported output that still
holds poison (or differs from the real run) after the replay shows that the
recorded inputs do not reproduce the recorded outputs.
"""
import os
import random

from vf import flite, finterp, diffrun, scen, psy
from vf.core import Part

PROPERTY = "C12"
LEVEL = "exploration"


class RegionTracer(finterp.Tracer):
    def __init__(self, first, last, inputs_reported=None):
        self.first, self.last = first, last
        self.inputs = inputs_reported      # None = real run (no poisoning)
        self.interp = None
        self.inside = False
        self.written = {}       # id(cell) -> cell
        self.done = False
        self.frame = None
        self.entry_vals = None

    def stmt(self, s, phase):
        if s is self.first and phase == 0 and not self.done:
            self.inside = True
            rt, fr = self.interp.frames[-1]
            self.frame = fr
            if self.inputs is not None:
                for name, obj in fr.items():
                    if name in self.inputs:
                        continue
                    cells = obj.cells if isinstance(obj, finterp.Arr) \
                        else [obj]
                    for c in cells:
                        c.v = finterp.POISON
        if s is self.last and phase == 1 and self.inside:
            self.inside = False
            self.done = True
            raise RegionDone()

    def write(self, cell):
        if self.inside:
            self.written[id(cell)] = cell


class RegionDone(Exception):
    pass


def frame_values(fr):
    out = {}
    for name, obj in fr.items():
        cells = obj.cells if isinstance(obj, finterp.Arr) else [obj]
        out[name] = [c.v for c in cells]
    return out


def run_region(unit, seed, nn, first, last, inputs_reported):
    tr = RegionTracer(first, last, inputs_reported)
    it = finterp.Interp(unit, tracer=tr)
    tr.interp = it
    poisoned = None
    try:
        it.run_main(seed, nn)
    except RegionDone:
        pass
    except finterp.Poison as p:
        poisoned = p.cell
    except (finterp.Trap, RecursionError):
        return None
    if tr.frame is None:
        return None
    return {"frame": tr.frame, "written": tr.written, "poison": poisoned,
            "completed": tr.done}


def cond_write_fact(stmts, name):
    """AST fact: variable `name` is assigned inside an IF within the region
    (a write that happens on some paths only)."""
    hit = [False]

    def walk(body, in_if):
        for s in body:
            if s[0] == "assign" and s[1][1].lower() == name and in_if:
                hit[0] = True
            if s[0] == "if":
                for _, b in s[1]:
                    walk(b, True)
                if s[2]:
                    walk(s[2], True)
            elif s[0] == "do":
                walk(s[5], True)     # a loop body may execute zero times
    walk(stmts, False)
    return hit[0]


def batch(arg):
    from psyclone.psyir.nodes import Routine
    from psyclone.psyir.tools import CallTreeUtils
    part = Part()
    rnd = random.Random(arg["seed"])
    inputs = diffrun.INPUTS[:arg["ninputs"]]
    for n in range(arg["count"]):
        unit, _ = scen.make("region", rnd.random(), False)
        text = flite.module_text(unit)
        body = unit["routines"][0]["body"]
        try:
            tree = psy.read(text)
        except Exception:
            part.count("reader_failed")
            continue
        kern = tree.walk(Routine)[0]
        if len(kern.children) != len(body):
            part.count("statement_mapping_failed")
            continue
        regions = [(i, j) for i in range(len(body))
                   for j in range(i, min(len(body), i + 6))]
        rnd.shuffle(regions)
        nontrivial = False
        for (i, j) in regions[:arg["regions"]]:
            try:
                rwi = CallTreeUtils().get_in_out_parameters(
                    kern.children[i:j + 1])
                ins = {str(s).lower() for s in rwi.signatures_read}
                outs = {str(s).lower() for s in rwi.signatures_written}
            except Exception as err:
                part.count("in_out_raised:" + type(err).__name__)
                continue
            part.count("regions_analysed")
            rtxt = " ; ".join(l.strip() for l in flite.stmts(body[i:j + 1],
                                                             0))[:300]
            for seed, nn in inputs:
                real = run_region(unit, seed, nn, body[i], body[j], None)
                if real is None or not real["completed"] or real["poison"]:
                    continue            # invalid input for this program
                rep = run_region(unit, seed, nn, body[i], body[j], ins)
                part.count("replays")
                nontrivial = True
                if rep["poison"] is not None:
                    c = rep["poison"]
                    mech = None
                    if c.idx != () and any(w.name == c.name and w is not c
                                           for w in rep["written"].values()):
                        # another element of the same array was written
                        # earlier in the region
                        mech = "written_first.partial_array"
                    elif cond_write_fact(body[i:j + 1], c.name) and (
                            c.idx == () or not any(
                                w.name == c.name
                                for w in rep["written"].values())):
                        # the first (syntactic) access is an assignment inside
                        # an IF block or a DO loop that did not execute on
                        # this input (scalar, or an array none of whose
                        # elements has been written yet)
                        mech = "written_first.conditional"
                    part.violation({
                        "kind": "upward_exposed_read_not_in_inputs",
                        "mechanism": mech,
                        "what": "region [%s] reads the incoming value of %s%s"
                                " but inputs are %s (input seed=%d n=%d)" % (
                                    rtxt, c.name, list(c.idx) if c.idx else
                                    "", sorted(ins), seed, nn),
                        "source": text, "region": [i, j],
                        "dedupe": ("read", mech, c.idx == ())})
                    break
                bad = False
                for cid, c in real["written"].items():
                    if c.name not in outs and c.name in real["frame"]:
                        part.violation({
                            "kind": "write_not_in_outputs", "mechanism": None,
                            "what": "region [%s] modifies %s but outputs are "
                                    "%s" % (rtxt, c.name, sorted(outs)),
                            "source": text, "region": [i, j],
                            "dedupe": ("write", c.idx == ())})
                        bad = True
                        break
                if bad:
                    break
                rv = frame_values(real["frame"])
                pv = frame_values(rep["frame"])
                for name in sorted(outs):
                    if name not in rv:
                        continue
                    if rv[name] != pv[name]:
                        still = any(v is finterp.POISON for v in pv[name])
                        isarr = len(rv[name]) > 1 or isinstance(
                            real["frame"][name], finterp.Arr)
                        wrote = {c.idx for c in real["written"].values()
                                 if c.name == name}
                        mech = None
                        if still and name not in ins:
                            if isarr and 0 < len(wrote) < len(rv[name]):
                                mech = "written_first.partial_array"
                            elif isarr and not wrote and cond_write_fact(
                                    body[i:j + 1], name):
                                mech = "written_first.conditional"
                            elif not isarr and cond_write_fact(
                                    body[i:j + 1], name):
                                mech = "written_first.conditional"
                        part.violation({
                            "kind": "replay_does_not_reproduce_output",
                            "mechanism": mech,
                            "what": "region [%s]: output %s is not an input "
                                    "(inputs %s) yet keeps %s after a replay "
                                    "from the inputs (seed=%d n=%d)" % (
                                        rtxt, name, sorted(ins),
                                        "undefined elements" if still else
                                        "different values", seed, nn),
                            "source": text, "region": [i, j], "var": name,
                            "dedupe": ("replay", mech, isarr)})
                        bad = True
                        break
                if bad:
                    break
        part.case(key=text, nontrivial=nontrivial,
                  sample=text[:900] if n == 0 else None)
    return part


def struct_batch(arg):
    """Regions of statements whose designators go through derived types
    (outside the reference interpreter): the variables a region reads before
    it can have written them, and the ones it modifies, are known by
    construction (subscript variables are never written; structure bases are
    only ever written in part)."""
    from psyclone.psyir.nodes import Routine, CodeBlock
    from psyclone.psyir.tools import CallTreeUtils
    from vf.checks import c11
    part = Part()
    rnd = random.Random(arg["seed"])
    for n in range(arg["count"]):
        stmts = c11.struct_statements(rnd)
        text = c11.STRUCT_HEAD + "".join("    %s\n" % l for st in stmts
                                         for l in st[0]) + \
            "  end subroutine kern\nend module smod\n"
        try:
            tree = psy.read(text)
        except Exception:
            part.count("struct_reader_failed")
            continue
        kern = [r for r in tree.walk(Routine) if r.name == "kern"][0]
        if len(kern.children) != len(stmts):
            part.count("statement_mapping_failed")
            continue
        regions = [(i, j) for i in range(len(stmts))
                   for j in range(i, len(stmts))]
        rnd.shuffle(regions)
        for (i, j) in regions[:arg["regions"]]:
            nodes = kern.children[i:j + 1]
            if any(x.walk(CodeBlock) for x in nodes):
                continue
            try:
                rwi = CallTreeUtils().get_in_out_parameters(nodes)
                ins = {str(s_).lower().split("%")[0]
                       for s_ in rwi.signatures_read}
                outs = {str(s_).lower().split("%")[0]
                        for s_ in rwi.signatures_written}
            except NotImplementedError:
                part.count("in_out_declined:NotImplementedError")
                continue
            except Exception as err:
                part.count("in_out_raised:" + type(err).__name__)
                continue
            part.count("regions_analysed")
            part.count("struct_regions_analysed")
            exp_in, exp_out = set(), set()
            for lines, kind, rexp, wexp in stmts[i:j + 1]:
                exp_in |= set(rexp)
                exp_out |= set(wexp)
            exp_in.discard("d")
            exp_out.discard("d")
            rtxt = " ; ".join(st[0][0] for st in stmts[i:j + 1])[:300]
            for var in sorted(exp_in - ins):
                # known mechanism (same as the interpreter-based monitor):
                # the FIRST statement of the region that touches the base
                # writes (part of) it without reading it, a later one reads it
                first = [st for st in stmts[i:j + 1]
                         if var in st[2] or var in st[3]][0]
                wf = var in first[3] and var not in first[2]
                part.violation({
                    "kind": "upward_exposed_read_not_in_inputs",
                    "mechanism": "written_first.partial_array" if wf
                    else None,
                    "what": "region '%s' reads %s (subscript or base of a "
                            "structure access) but the inputs are %s" % (
                                rtxt, var, sorted(ins)),
                    "source": text, "dedupe": ("struct", "in")})
            for var in sorted(exp_out - outs):
                part.violation({
                    "kind": "modified_variable_not_an_output",
                    "mechanism": None,
                    "what": "region '%s' modifies %s but the outputs are %s"
                            % (rtxt, var, sorted(outs)),
                    "source": text, "dedupe": ("struct", "out")})
        part.case(key=("struct", text), nontrivial=True)
    return part


NL_ALG = """
program demo_alg
  use constants_mod, only: r_def
  use field_mod,     only: field_type
  use demo_kern_mod, only: demo_kern_type
  implicit none
  type(field_type) :: f1, f2
  real(r_def)      :: a
  call invoke(demo_kern_type(a, f1, f2))
end program demo_alg
"""

NL_KERN = """
module demo_kern_mod
  use argument_mod
  use fs_continuity_mod
  use kernel_mod
  implicit none
  type, extends(kernel_type) :: demo_kern_type
     type(arg_type), dimension(3) :: meta_args =        &
          (/ arg_type(gh_scalar, gh_real, gh_read),     &
             arg_type(gh_field,  gh_real, gh_inc,  w1), &
             arg_type(gh_field,  gh_real, gh_read, w2)  &
           /)
     integer :: operates_on = cell_column
   contains
     procedure, nopass :: code => demo_kern_code
  end type demo_kern_type
contains
  subroutine demo_kern_code(nlayers, ascalar, fld1, fld2,  &
                            ndf_w1, undf_w1, map_w1,       &
                            ndf_w2, undf_w2, map_w2)
    use constants_mod, only: i_def, r_def
    use shared_state_mod, only: %(only)s
    implicit none
    integer(kind=i_def), intent(in) :: nlayers
    integer(kind=i_def), intent(in) :: ndf_w1, ndf_w2
    integer(kind=i_def), intent(in) :: undf_w1, undf_w2
    integer(kind=i_def), intent(in), dimension(ndf_w1) :: map_w1
    integer(kind=i_def), intent(in), dimension(ndf_w2) :: map_w2
    real(kind=r_def), intent(in) :: ascalar
    real(kind=r_def), intent(inout), dimension(undf_w1) :: fld1
    real(kind=r_def), intent(in), dimension(undf_w2)  :: fld2
    integer :: current
    current = 0
%(calls)s
    fld1(map_w1(1)) = fld1(map_w1(1)) + ascalar*fld2(map_w2(1)) + current
  end subroutine demo_kern_code
end module demo_kern_mod
"""


def nonlocal_batch(arg):
    """Module variables reached only through the kernel's call tree
    (collect_non_local_symbols=True, the LFRic extraction path): a shared
    module holds 2-4 variables and 2-5 routines that read, write or update
    them; the kernel calls a random selection in random order.  By
    construction: a variable that some called routine modifies is an output;
    one whose first access along the call sequence is a read is an input."""
    import shutil
    import tempfile
    from psyclone.configuration import Config
    from psyclone.core import Signature
    from psyclone.parse import ModuleManager
    from psyclone.parse.algorithm import parse
    from psyclone.psyGen import PSyFactory
    from psyclone.psyir.tools import CallTreeUtils
    part = Part()
    rnd = random.Random(arg["seed"])
    for n in range(arg["count"]):
        nv = rnd.randint(2, 4)
        vars_ = ["gv%d" % k for k in range(nv)]
        routines = []
        for k in range(rnd.randint(2, 5)):
            acc = {}
            body = []
            for v in rnd.sample(vars_, rnd.randint(1, min(2, nv))):
                how = rnd.choice(["read", "write", "update"])
                acc[v] = how
                if how == "read":
                    body.append("    val = val + %s" % v)
                elif how == "write":
                    body.append("    %s = 7" % v)
                else:
                    body.append("    %s = %s + 1" % (v, v))
            routines.append(("r%d" % k, acc, body))
        # one routine may call another one (indirect access)
        nested = None
        if len(routines) > 2 and rnd.random() < 0.5:
            a, b = rnd.sample(range(len(routines)), 2)
            nested = (routines[a][0], routines[b][0])
        shared = ["module shared_state_mod", "  implicit none"]
        shared += ["  integer :: %s" % v for v in vars_]
        shared.append("contains")
        for name, acc, body in routines:
            shared += ["  subroutine %s(val)" % name,
                       "    integer, intent(inout) :: val"] + body
            if nested and nested[0] == name:
                shared.append("    call %s(val)" % nested[1])
            shared.append("  end subroutine %s" % name)
        shared.append("end module shared_state_mod")
        called = rnd.sample(routines, rnd.randint(1, len(routines)))
        rnd.shuffle(called)
        # expected sets from the dynamic call sequence
        byname = {r[0]: r for r in routines}
        seq = []
        for name, acc, body in called:
            seq.append(name)
            if nested and nested[0] == name:
                seq.append(nested[1])
        first, written = {}, set()
        for name in seq:
            for v, how in byname[name][1].items():
                if how in ("read", "update") and v not in first:
                    first[v] = "read"
                if how == "write" and v not in first:
                    first[v] = "write"
                if how in ("write", "update"):
                    written.add(v)
        exp_in = {v for v, h in first.items() if h == "read"}
        exp_out = written
        tmp = tempfile.mkdtemp(prefix="vf_c12nl_")
        try:
            # fparser keeps module information by name across parses: every
            # case gets its own module names
            uniq = "%d_%d" % (n, rnd.randrange(10 ** 6))
            files = {
                "demo_alg.f90": NL_ALG,
                "demo_kern_mod.f90": NL_KERN % {
                    "only": ", ".join(r[0] for r in called),
                    "calls": "\n".join("    call %s(current)" % r[0]
                                       for r in called)},
                "shared_state_mod.f90": "\n".join(shared) + "\n"}
            files = {k.replace("demo_kern_mod", "demo_kern%s_mod" % uniq)
                     .replace("shared_state_mod", "shared_state%s_mod" % uniq):
                     v.replace("demo_kern_mod", "demo_kern%s_mod" % uniq)
                     .replace("shared_state_mod", "shared_state%s_mod" % uniq)
                     for k, v in files.items()}
            shared_name = "shared_state%s_mod" % uniq
            for fn, src in files.items():
                with open(os.path.join(tmp, fn), "w") as fh:
                    fh.write(src)
            Config.get().api = "lfric"
            ModuleManager._instance = None
            try:
                _, info = parse(os.path.join(tmp, "demo_alg.f90"),
                                api="lfric", kernel_paths=[tmp])
                psy_ = PSyFactory("lfric",
                                  distributed_memory=False).create(info)
                sched = psy_.invokes.invoke_list[0].schedule
                mm = ModuleManager.get()
                mm.add_search_path(tmp)
                for mod in ["constants_mod", "argument_mod",
                            "fs_continuity_mod", "kernel_mod"]:
                    mm.add_ignore_module(mod)
                import contextlib
                import io
                with contextlib.redirect_stdout(io.StringIO()):
                    rwi = CallTreeUtils().get_in_out_parameters(
                        sched.children, collect_non_local_symbols=True)
            except Exception as err:
                part.count("nonlocal_setup_failed:" + type(err).__name__)
                continue
            ins = {str(sig) for m, sig in rwi.read_list
                   if m == shared_name}
            outs = {str(sig) for m, sig in rwi.write_list
                    if m == shared_name}
            part.count("regions_analysed")
            part.count("nonlocal_regions_analysed")
            desc = "kernel calls %s; routines %s%s" % (
                [r[0] for r in called],
                {r[0]: r[1] for r in routines},
                "; %s calls %s" % nested if nested else "")
            for v in sorted(exp_in - ins):
                part.violation({
                    "kind": "upward_exposed_read_not_in_inputs",
                    "mechanism": None,
                    "what": "non-local %s is read first but the inputs are "
                            "%s (%s)" % (v, sorted(ins), desc),
                    "source": "".join(files.values()),
                    "dedupe": ("nonlocal", "in")})
            for v in sorted(exp_out - outs):
                part.violation({
                    "kind": "modified_variable_not_an_output",
                    "mechanism": None,
                    "what": "non-local %s is modified but the outputs are "
                            "%s (%s)" % (v, sorted(outs), desc),
                    "source": "".join(files.values()),
                    "dedupe": ("nonlocal", "out")})
            part.case(key=("nonlocal", "\n".join(shared),
                           tuple(r[0] for r in called)), nontrivial=True)
        finally:
            ModuleManager._instance = None
            shutil.rmtree(tmp, ignore_errors=True)
    return part


def main(ctx):
    ctx.rule = ("kernels of 5-9 top-level statements (partial array writes, "
                "conditionally written scalars, loops over half an array, "
                "whole-array updates, SIZE reads); every contiguous region of "
                "<= 6 statements (sampled) is analysed by the real "
                "get_in_out_parameters and replayed by the reference "
                "interpreter from a poisoned state on up to 8 inputs; "
                "non-trivial = at least one replay ran; distinct by module "
                "text")
    rnd = ctx.rng("validate")
    nv = 0
    for k in range(8):
        unit, _ = scen.make("region", rnd.random(), False)
        good = diffrun.valid_inputs(unit, diffrun.INPUTS[:4])
        if not good:
            continue
        c, err, res = diffrun.run_all(os.path.join(ctx.tmp, "v%d" % k),
                                      flite.full_text(unit), sorted(good))
        if not c or any(res[x][0] != 0 or res[x][1] != good[x] for x in good):
            ctx.inconclusive("reference interpreter disagrees with gfortran")
            break
        nv += len(good)
    ctx.extra["traces_validated_against_impl"] = nv
    nb = 32 if ctx.quick else 160
    cnt = 12 if ctx.quick else 60
    jobs = [{"seed": ctx.rng("b", i).random(), "count": cnt,
             "ninputs": 4 if ctx.quick else 8,
             "regions": 8 if ctx.quick else 20} for i in range(nb)]
    for res in ctx.pmap("vf.checks.c12", "batch", jobs, timeout=3400):
        if res:
            ctx.merge(res)
    sjobs = [{"seed": ctx.rng("s", i).random(),
              "count": 40 if ctx.quick else 300, "regions": 6}
             for i in range(16)]
    for res in ctx.pmap("vf.checks.c12", "struct_batch", sjobs, timeout=3400):
        if res:
            ctx.merge(res)
    njobs = [{"seed": ctx.rng("n", i).random(),
              "count": 6 if ctx.quick else 60} for i in range(16)]
    for res in ctx.pmap("vf.checks.c12", "nonlocal_batch", njobs,
                        timeout=3400):
        if res:
            ctx.merge(res)
    if ctx.counters.get("replays", 0) == 0:
        ctx.inconclusive("no region was replayed")
    ctx.assumptions += [
        "lists come from CallTreeUtils.get_in_out_parameters (the API the "
        "extraction transformations use); variable-name granularity",
        "poison = 'value not provided'; a variable that the region never "
        "touches keeps poison harmlessly",
        "regions with structure accesses are judged against read/write sets "
        "known by construction (not replayed)"]
