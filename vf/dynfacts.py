"""Dynamic facts about the ORIGINAL program (reference-interpreter traces),
used to recognise known mechanisms independently of PSyclone:

 * zero_trip(unit, loop, input)        the loop body never ran
 * interchange_reverses_dependence     a dependence (i1,j1)->(i2,j2) of a
                                       2-deep nest with i1<i2 and j1>j2
 * fusion_violates_dependence          iteration j of loop 2 conflicts with a
                                       LATER iteration i>j of loop 1
"""
from vf import flite, finterp


def loops_preorder(unit):
    out = []

    def f(s):
        if s[0] == "do":
            out.append(s)
    flite.walk_stmts(unit["routines"][0]["body"], f)
    return out


def assigns_preorder(unit):
    out = []

    def f(s):
        if s[0] == "assign":
            out.append(s)
    flite.walk_stmts(unit["routines"][0]["body"], f)
    return out


def enclosing_loop(unit, stmt):
    """Innermost DO that contains stmt (by identity)."""
    found = [None]

    def walk(body, cur):
        for s in body:
            if s is stmt:
                found[0] = cur
            t = s[0]
            if t == "do":
                walk(s[5], s)
            elif t == "if":
                for _, b in s[1]:
                    walk(b, cur)
                if s[2]:
                    walk(s[2], cur)
    walk(unit["routines"][0]["body"], None)
    return found[0]


class NestTracer(finterp.Tracer):
    """Access sets per iteration of up to two target loops."""

    def __init__(self, loops):
        self.loops = loops              # list of loop stmt objects
        self.cur = {}                   # id(loop) -> current iteration no
        self.count = {id(l): 0 for l in loops}
        self.events = []                # (key, cellid, 'R'|'W')
        self.seq = {id(l): 0 for l in loops}
        self.cells = {}

    def iteration(self, loop, k, value):
        lid = id(loop)
        if lid not in self.count:
            return
        if k == -1:
            self.cur.pop(lid, None)
            return
        self.count[lid] += 1
        self.seq[lid] += 1
        self.cur[lid] = (k, self.seq[lid])

    def key(self):
        return tuple(self.cur.get(id(l)) for l in self.loops)

    def read(self, cell):
        if self.cur:
            self.cells[id(cell)] = cell
            self.events.append((self.key(), id(cell), "R"))

    def write(self, cell):
        if self.cur:
            self.cells[id(cell)] = cell
            self.events.append((self.key(), id(cell), "W"))


def trace(unit, loops, seed, n):
    tr = NestTracer(loops)
    it = finterp.Interp(unit, tracer=tr)
    try:
        it.run_main(seed, n)
    except (finterp.Trap, finterp.Poison, RecursionError):
        return None
    return tr


def zero_trip(unit, loop, seed, n):
    tr = trace(unit, [loop], seed, n)
    if tr is None:
        return None
    return tr.count[id(loop)] == 0


def interchange_reverses_dependence(unit, outer, inner, inputs):
    """True if on some input two iterations (o1,i1) executed before (o2,i2)
    conflict on a location (at least one write) with o1 < o2 and i1 > i2
    (inner index value order), so that interchange runs them in the opposite
    order.  Loop variables themselves are ignored."""
    lv = {outer[1].lower(), inner[1].lower()}
    for seed, n in inputs:
        tr = trace(unit, [outer, inner], seed, n)
        if tr is None:
            continue
        by_cell = {}
        for key, cid, rw in tr.events:
            if key[0] is None or key[1] is None:
                continue
            c = tr.cells[cid]
            if c.name in lv and c.idx == ():
                continue
            by_cell.setdefault(cid, []).append((key[0][0], key[1][0], rw))
        for cid, evs in by_cell.items():
            ws = [(o, i) for o, i, rw in evs if rw == "W"]
            if not ws:
                continue
            if tr.cells[cid].idx == () and _private_like(evs):
                continue
            allp = [(o, i) for o, i, rw in evs]
            for (o1, i1) in ws:
                for (o2, i2) in allp:
                    if (o1 < o2 and i1 > i2) or (o2 < o1 and i2 > i1):
                        return True
    return False


def _private_like(evs):
    """Scalar whose first access in every iteration is a write."""
    first = {}
    for o, i, rw in evs:
        first.setdefault((o, i), rw)
    return all(v == "W" for v in first.values())


def fusion_violates_dependence(unit, loop1, loop2, inputs):
    """True if on some input iteration j of loop 2 and a later iteration
    i > j of loop 1 touch the same location with at least one write."""
    lv = {loop1[1].lower(), loop2[1].lower()}
    for seed, n in inputs:
        tr = trace(unit, [loop1, loop2], seed, n)
        if tr is None:
            continue
        by_cell = {}
        for key, cid, rw in tr.events:
            c = tr.cells[cid]
            if c.name in lv and c.idx == ():
                continue
            if key[0] is not None and key[1] is None:
                by_cell.setdefault(cid, []).append((1, key[0][0], rw))
            elif key[1] is not None and key[0] is None:
                by_cell.setdefault(cid, []).append((2, key[1][0], rw))
        for cid, evs in by_cell.items():
            l1 = [(k, rw) for which, k, rw in evs if which == 1]
            l2 = [(k, rw) for which, k, rw in evs if which == 2]
            for k1, rw1 in l1:
                for k2, rw2 in l2:
                    if k1 > k2 and "W" in (rw1, rw2):
                        return True
    return False
