"""C01 Reading and re-writing Fortran preserves program behaviour.

Oracle: differential execution (gfortran -fcheck=all) of the original program
and of the text FortranWriter emits from FortranReader's PSyIR, on inputs the
reference interpreter accepts; the interpreter's own output must equal the
original's (else the case is inconclusive).
"""
import os
import random
import tempfile

from vf import fgen, flite, diffrun, psy, fx
from vf.core import Part

PROPERTY = "C01"
LEVEL = "exploration"

REDUCTIONS = {"sum", "product", "minval", "maxval", "dot_product", "matmul",
              "any", "all", "count"}


def facts(unit):
    """Facts about the *source* program computed from my own AST (never from
    PSyclone): which WHERE hazards it contains."""
    f = {"where": False, "select": False, "where_nonelemental": False,
         "where_mixed_notation": False, "where_stride": False,
         "where_elem_operand": False}

    def scan(s):
        if s[0] == "select":
            f["select"] = True
        if s[0] != "where":
            return
        f["where"] = True
        exprs = []
        for mask, body in s[1]:
            exprs.append(mask)
            for st in body:
                exprs += [st[1], st[2]]
        for st in (s[2] or []):
            exprs += [st[1], st[2]]
        bare = ranged = False

        def chk(e):
            nonlocal bare, ranged
            if e[0] == "icall" and e[1].lower() in REDUCTIONS:
                f["where_nonelemental"] = True
            if e[0] == "arr" and any(x[0] == "rng" for x in e[2]):
                ranged = True
                if any(x[0] == "rng" and x[3] is not None for x in e[2]):
                    f["where_stride"] = True
            if e[0] == "var" and e[1] in ARRAY_NAMES:
                bare = True
            if e[0] == "arr" and e[1] in ARRAY_NAMES and \
                    all(x[0] != "rng" for x in e[2]):
                f["where_elem_operand"] = True
        for e in exprs:
            flite.walk_expr(e, chk)
        if bare and ranged:
            f["where_mixed_notation"] = True
    for r in unit["routines"]:
        flite.walk_stmts(r["body"], scan)
    return f


ARRAY_NAMES = {"a", "b", "c", "ia", "ib", "lm"}
WHERE_HAZARDS = ["where_nonelemental", "where_mixed_notation", "where_stride",
                 "where_elem_operand"]


def hazard_free_twin(unit):
    """Same program with every WHERE construct written in the plain form
    (bare array names, unit stride, no non-elemental references)."""
    import copy
    u = copy.deepcopy(unit)

    def fix_expr(e):
        if e[0] == "icall" and e[1].lower() in REDUCTIONS:
            return ["lit", 1.0, "r"]
        if e[0] == "arr" and all(x[0] == "rng" for x in e[2]):
            return ["var", e[1]]
        if e[0] == "arr" and e[1] in ARRAY_NAMES:
            return ["lit", 1.0, "r"]
        if e[0] in ("bin", "cmp", "log"):
            e[2] = fix_expr(e[2])
            e[3] = fix_expr(e[3])
        elif e[0] in ("neg", "not"):
            e[1] = fix_expr(e[1])
        elif e[0] == "icall":
            e[2] = [fix_expr(a) for a in e[2]]
        return e

    def fix(s):
        if s[0] == "where":
            for cl in s[1]:
                cl[0] = fix_expr(cl[0])
                for st in cl[1]:
                    st[1] = fix_expr(st[1])
                    st[2] = fix_expr(st[2])
            for st in (s[2] or []):
                st[1] = fix_expr(st[1])
                st[2] = fix_expr(st[2])
    for r in u["routines"]:
        flite.walk_stmts(r["body"], fix)
    return u


def judge(unit, wd, part, tag, inputs, twin=False):
    """Returns a violation witness (dict) or None.  Counts into part."""
    text = flite.full_text(unit)
    good = diffrun.valid_inputs(unit, inputs)
    if not good:
        part.count("no_valid_input")
        return None
    ins = sorted(good)
    ok, err, ref = diffrun.run_all(os.path.join(wd, "o"), text, ins)
    if not ok:
        part.count("original_does_not_compile")
        part.inconclusive_case = True
        return None
    for k in ins:
        rc, out, serr = ref[k]
        if rc != 0 or out != good[k]:
            part.count("interpreter_disagrees_with_gfortran")
            return None
    part.count("interp_validated_runs", len(ins))
    text2, rerr = psy.roundtrip(text)
    if text2 is None:
        return {"kind": "reader_or_writer_raised", "what": rerr,
                "source": text}
    ok2, err2, got = diffrun.run_all(os.path.join(wd, "r"), text2, ins)
    if not ok2:
        return {"kind": "rewritten_does_not_compile",
                "what": err2.strip()[:400], "source": text,
                "rewritten": text2}
    for k in ins:
        rc, out, serr = got[k]
        if rc != 0:
            return {"kind": "rewritten_fails_at_runtime",
                    "what": "input %s: rc=%s %s" % (k, rc, serr[-200:]),
                    "source": text, "rewritten": text2, "input": list(k)}
        if out != ref[k][1]:
            a = ref[k][1].splitlines()
            b = out.splitlines()
            d = [(x, y) for x, y in zip(a, b) if x != y][:1]
            return {"kind": "output_differs",
                    "what": "input %s: original %r vs re-written %r" % (
                        k, d[0][0][:120] if d else "?",
                        d[0][1][:120] if d else "?"),
                    "source": text, "rewritten": text2, "input": list(k)}
    part.count("programs_equal")
    part.count("runs_compared", len(ins))
    return None


def batch(arg):
    part = Part()
    rnd = random.Random(arg["seed"])
    wd = tempfile.mkdtemp(prefix="vf_c01_")
    try:
        for n in range(arg["count"]):
            opts = {"nstmts": rnd.randint(3, 8),
                    "depth": rnd.choice([1, 2, 2, 3]),
                    "exitcycle": rnd.random() < 0.35,
                    "named": rnd.random() < 0.7,
                    "same_operands": rnd.random() < 0.5,
                    "where_hazard": rnd.choice(
                        [None, None, None, None, "nonelemental",
                         "mixed_notation", "stride", "elem_operand"])}
            unit, g = fgen.kernel_unit(rnd, opts)
            fc = facts(unit)
            w = judge(unit, wd, part, "gen", diffrun.INPUTS[:arg["ninputs"]])
            nontrivial = part.d["counters"].get("programs_equal", 0) > 0 \
                or w is not None
            if w is not None:
                mech = None
                present = [h for h in WHERE_HAZARDS if fc[h]]
                if present:
                    sub = Part()
                    tw = judge(hazard_free_twin(unit), wd, sub,
                               "twin", diffrun.INPUTS[:arg["ninputs"]],
                               twin=True)
                    part.count("twins_run")
                    if tw is None and sub.d["counters"].get("programs_equal"):
                        if len(present) == 1:
                            mech = present[0]
                    elif tw is not None:
                        tw["mechanism"] = None
                        tw["facts"] = "twin"
                        part.violation(tw)
                w["mechanism"] = mech
                w["facts"] = fc
                part.violation(w)
            part.case(key=flite.module_text(unit), nontrivial=True,
                      sample=flite.module_text(unit)[:1500] if n == 0
                      else None)
            for k, v in fc.items():
                if v:
                    part.count("programs_with_" + k)
    finally:
        diffrun.cleanup(wd)
    return part


def main(ctx):
    ctx.rule = ("random F-lite programs (module with a kernel using DO incl. "
                "zero-trip/negative step, IF/ELSE IF, SELECT CASE with lists "
                "and ranges, WHERE/ELSEWHERE, array sections, intrinsics, "
                "verbatim WRITE statements; plus a main program) run on up to "
                "8 inputs (seed, n) incl. n=0,1; distinct by module text; a "
                "case is judged only on inputs the reference interpreter "
                "accepts and on which it agrees with gfortran")
    nb = 32 if ctx.quick else 160
    cnt = 8 if ctx.quick else 32
    jobs = [{"seed": ctx.rng("b", i).random(), "count": cnt,
             "ninputs": 5 if ctx.quick else 8} for i in range(nb)]
    for res in ctx.pmap("vf.checks.c01", "batch", jobs, timeout=3000):
        if res:
            ctx.merge(res)
    c = ctx.counters
    ctx.extra["traces_validated_against_impl"] = c.get(
        "interp_validated_runs", 0)
    if c.get("programs_equal", 0) + len(ctx.violations) + \
            sum(ctx.known_hits.values()) == 0:
        ctx.inconclusive("no program reached the comparison")
    ctx.assumptions += [
        "programs are limited to what vf.fgen prints; comments/directives are "
        "dropped by this reader version and are not observed",
        "values stay exactly representable; -0.0 is printed as 0.0"]
