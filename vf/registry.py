"""Per-property registration used by vf.mkmanifest.  A property appears here
only once its check exists and has been run on the unchanged tree."""

CHECKS = {}
NOT_APPLICABLE = {}


def reg(pid, technique, text, note, design_ref, category="exploration"):
    CHECKS[pid] = dict(technique=technique, text=text, note=note,
                       design_ref=design_ref, category=category)


reg("C27",
    "icontract post-condition on the real sort_modules under exhaustive + "
    "random dependency maps",
    "Runtime contract (permutation of keys; dependencies-first when the known "
    "graph is acyclic; input untouched) evaluated on every call of the real "
    "ModuleManager.sort_modules while the workload enumerates every dependency "
    "map over <=4 modules with self loops and an unknown name (thorough: also "
    "all loop-free maps over 5 modules) and random maps up to 9 modules. "
    "Exhaustive within that bound, sampled beyond; not a proof.",
    "Trusts icontract to evaluate the condition on each call (evaluations are "
    "counted; zero => inconclusive) and my 15-line acyclicity test.",
    "DESIGN.md §5 C27")

reg("C17",
    "reference-evaluator monitor: every claim of the real SymbolicMaths is "
    "checked over integer valuations by an independent Fortran-integer "
    "evaluator (validated against gfortran each run)",
    "Each equal/never_equal/solve_equal_for/expand answer given by the real "
    "SymbolicMaths on generated near-identity pairs (size<=9, + - * / ** neg "
    "MOD MIN MAX ABS, index arrays) is refuted or not by evaluating both "
    "sides under Fortran INTEGER semantics on every valuation in [-6,6]^3 "
    "plus large ones. Sampled expression pairs, exhaustive small valuations; "
    "held-on-what-was-observed, not a proof.",
    "Trusts vf.iexpr (200 lines; compared with gfortran on 150+ "
    "expression/valuation samples per run, disagreement => inconclusive); "
    "known defects int_division_as_real and mod_floored_not_truncated are "
    "recognised by mechanism (claim true over rationals/floored Mod AND a "
    "truncating division / negative MOD operand at the witness).",
    "DESIGN.md §5 C17")

reg("C18",
    "output monitor: independent free-form continuation joiner + tokeniser "
    "compares logical lines of input and of the real limiter's output; "
    "limit, idempotence and no-exception monitors",
    "The real FortLineLength.process runs on generated texts (statements, "
    "declarations, calls with string literals, directives, comments, "
    "trailing comments) at limits 40..132; my joiner (F2008 3.3.2.4 incl. "
    "character context, !$omp&/!$acc& sentinels, '!& ' comments) must "
    "recover the same logical lines token for token. Sampled inputs.",
    "Trusts my joiner/tokeniser (it rejects what it cannot join: such inputs "
    "are counted, not judged). A raise on a line outside the generator's "
    "breakability guarantee is counted, not judged. Known defect "
    "trailing_comment_split needs the comment-free twin to pass.",
    "DESIGN.md §5 C18")
