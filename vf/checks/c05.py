"""C05 Accepted loop transformations preserve serial semantics.

Oracle: differential execution (vf.xform) of the re-written untransformed
module vs the module after ONE accepted generic loop transformation (no
force option), on inputs incl. n = 0, 1.
"""
import random
import tempfile

from vf import fgen, flite, diffrun, scen, xform
from vf.core import Part

PROPERTY = "C05"
LEVEL = "exploration"

TNAMES = ["LoopFuseTrans", "LoopSwapTrans", "ChunkLoopTrans",
          "LoopTiling2DTrans", "HoistTrans", "HoistLoopBoundExprTrans",
          "ReplaceInductionVariablesTrans",
          "FoldConditionalReturnExpressionsTrans"]


def attempts(tree):
    from psyclone.psyir.nodes import Loop, Assignment, Routine
    from psyclone.psyir import transformations as T
    out = []
    loops = tree.walk(Loop)
    for k, lp in enumerate(loops):
        par = lp.parent
        pos = lp.position
        if pos + 1 < len(par.children) and isinstance(par.children[pos + 1],
                                                      Loop):
            def f_fuse(t, k=k):
                l1 = t.walk(Loop)[k]
                T.LoopFuseTrans().apply(l1, l1.parent.children[l1.position + 1])
            out.append(xform.Attempt("LoopFuseTrans", "loop%d" % k, {},
                                     f_fuse))
        inner = [c for c in lp.loop_body.children]
        if len(inner) >= 1 and isinstance(inner[0], Loop):
            out.append(xform.Attempt(
                "LoopSwapTrans", "loop%d" % k, {},
                lambda t, k=k: T.LoopSwapTrans().apply(t.walk(Loop)[k])))
            for ts in (2, 3):
                out.append(xform.Attempt(
                    "LoopTiling2DTrans", "loop%d" % k, {"tilesize": ts},
                    lambda t, k=k, ts=ts: T.LoopTiling2DTrans().apply(
                        t.walk(Loop)[k], {"tilesize": ts})))
        for cs in (1, 2, 3, 32):
            out.append(xform.Attempt(
                "ChunkLoopTrans", "loop%d" % k, {"chunksize": cs},
                lambda t, k=k, cs=cs: T.ChunkLoopTrans().apply(
                    t.walk(Loop)[k], {"chunksize": cs})))
        out.append(xform.Attempt(
            "HoistLoopBoundExprTrans", "loop%d" % k, {},
            lambda t, k=k: T.HoistLoopBoundExprTrans().apply(
                t.walk(Loop)[k])))
        out.append(xform.Attempt(
            "ReplaceInductionVariablesTrans", "loop%d" % k, {},
            lambda t, k=k: T.ReplaceInductionVariablesTrans().apply(
                t.walk(Loop)[k])))
    for k, asg in enumerate(tree.walk(Assignment)):
        if asg.ancestor(Loop) is not None:
            out.append(xform.Attempt(
                "HoistTrans", "assign%d" % k, {},
                lambda t, k=k: T.HoistTrans().apply(t.walk(Assignment)[k])))
    for k, rt in enumerate(tree.walk(Routine)):
        out.append(xform.Attempt(
            "FoldConditionalReturnExpressionsTrans", "routine%d" % k, {},
            lambda t, k=k: T.FoldConditionalReturnExpressionsTrans().apply(
                t.walk(Routine)[k])))
    return out


def dynamic_mechanism(unit, r, inputs):
    """For kernels without a planted hazard: recognise a known mechanism from
    facts of the ORIGINAL program (AST + reference-interpreter traces)."""
    from vf import dynfacts as df
    t = r["tname"]
    tgt = r["target"]
    loops = df.loops_preorder(unit)
    fail = [tuple(x) for x in r.get("failing_inputs", [])]
    if not fail:
        return None

    def loop_of(tg):
        if tg.startswith("loop"):
            return loops[int(tg[4:])]
        if tg.startswith("assign"):
            a = df.assigns_preorder(unit)[int(tg[6:])]
            return df.enclosing_loop(unit, a)
        return None
    lp = loop_of(tgt)
    if lp is None:
        return None
    if t in ("ChunkLoopTrans", "LoopTiling2DTrans"):
        size = r["options"].get("chunksize", r["options"].get("tilesize"))
        cands = [lp]
        if t == "LoopTiling2DTrans" and lp[5] and lp[5][0][0] == "do":
            cands.append(lp[5][0])
        for c in cands:
            st = c[4]
            if st is not None and st[0] == "lit" and abs(st[1]) > 1 and \
                    size % abs(st[1]) != 0:
                return "chunk.size_not_multiple_of_step"
    if t in ("LoopSwapTrans", "LoopTiling2DTrans"):
        if lp[5] and lp[5][0][0] == "do":
            if df.interchange_reverses_dependence(unit, lp, lp[5][0],
                                                  inputs):
                return "swap.unchecked_dep"
    if t == "LoopFuseTrans":
        k = int(tgt[4:])
        # the next sibling loop in pre-order that is not nested in lp
        inner = set()
        flite.walk_stmts(lp[5], lambda s: inner.add(id(s)))
        nxt = [l for l in loops[k + 1:] if id(l) not in inner]
        if nxt and df.fusion_violates_dependence(unit, lp, nxt[0], inputs):
            return "fuse.unchecked_dep"
    if t in ("HoistTrans", "ReplaceInductionVariablesTrans"):
        zt = [df.zero_trip(unit, lp, s, n) for s, n in fail]
        ok = [df.zero_trip(unit, lp, s, n)
              for s, n in [tuple(x) for x in r.get("passing_inputs", [])]]
        if zt and all(z is True for z in zt) and \
                all(z is False for z in ok):
            # fails exactly when the loop does not execute at all
            return ("hoist.zero_trip" if t == "HoistTrans"
                    else "induction.zero_trip_post_value")
    return None


def judge_unit(unit, wd, part, inputs, rnd, hazard, twin_fn, tag):
    res = xform.run_case(unit, attempts, wd, part, inputs, rnd=rnd,
                         max_accepted=10)
    nontrivial = False
    for r in res:
        if r["status"] == "crash":
            part.count("crash_witness:" + r["what"][:80])
            continue
        if r["status"] == "equal":
            if r.get("changed"):
                nontrivial = True
            continue
        mech = None
        if hazard is None or twin_fn is None:
            try:
                mech = dynamic_mechanism(unit, r, inputs)
            except Exception:
                mech = None
            if mech:
                part.count("dynamic_facts:" + mech)
        if hazard is not None and twin_fn is not None:
            # hazard-free twin of the same shape must pass for the SAME
            # transformation
            sub = Part()
            tw = xform.run_case(twin_fn(), attempts, wd, sub, inputs,
                                max_accepted=40)
            part.count("twins_run")
            same_t = [x for x in tw if x["tname"] == r["tname"]]
            if same_t and all(x["status"] == "equal" for x in same_t):
                mech = hazard
            for x in same_t:
                if x["status"] == "violation":
                    part.violation({
                        "kind": x["kind"], "mechanism": None,
                        "transformation": x["tname"],
                        "what": "[twin of %s] %s %s %s: %s" % (
                            hazard, x["tname"], x["target"], x["options"],
                            x["what"]),
                        "source": flite.module_text(twin_fn()),
                        "transformed": x.get("transformed"),
                        "dedupe": (x["tname"], x["kind"], "twin")})
        part.violation({
            "kind": r["kind"], "mechanism": mech, "hazard": hazard,
            "transformation": r["tname"],
            "what": "%s on %s %s accepted; %s" % (r["tname"], r["target"],
                                                  r["options"], r["what"]),
            "source": flite.module_text(unit),
            "transformed": r.get("transformed"),
            "input": r.get("input"),
            "dedupe": (r["tname"], r["kind"], hazard or tag)})
        nontrivial = True
    return nontrivial


def batch(arg):
    part = Part()
    rnd = random.Random(arg["seed"])
    wd = tempfile.mkdtemp(prefix="vf_c05_")
    inputs = diffrun.INPUTS[:arg["ninputs"]]
    try:
        for n in range(arg["count"]):
            x = rnd.random()
            if x < 0.65:
                name = rnd.choice(scen.C05_SCEN)
                sseed = rnd.random()
                hazard_on = rnd.random() < 0.35
                unit, hz = scen.make(name, sseed, hazard_on)
                twin_fn = (lambda name=name, sseed=sseed:
                           scen.make(name, sseed, False)[0])
                tag = "scen:" + name
            else:
                opts = {"select": False, "where": False, "verb": False,
                        "nstmts": rnd.randint(2, 5), "depth": 2,
                        "intrinsics": rnd.random() < 0.5}
                unit, g = fgen.kernel_unit(rnd, opts)
                hz, twin_fn, tag = None, None, "generic"
            nt = judge_unit(unit, wd, part, inputs, rnd, hz, twin_fn, tag)
            part.count("units:" + tag)
            part.case(key=flite.module_text(unit), nontrivial=nt,
                      sample={"scenario": tag, "hazard": hz,
                              "module": flite.module_text(unit)[:1200]}
                      if n == 0 else None)
    finally:
        diffrun.cleanup(wd)
    return part


def main(ctx):
    ctx.rule = ("kernels from 7 scenario generators (fuse, swap, hoist, "
                "induction, chunk/tile, conditional return, bound "
                "expressions; 35% with one planted hazard) and generic random "
                "kernels; every applicable (transformation, target, option) "
                "attempt is made on a fresh tree (<=10 accepted per kernel) "
                "and each accepted result is compiled (-fcheck=all) and run "
                "on inputs (seed,n) incl. n=0,1; a case is non-trivial when "
                "an accepted transformation changed the text; distinct by "
                "module text")
    nb = 32 if ctx.quick else 160
    cnt = 4 if ctx.quick else 30
    jobs = [{"seed": ctx.rng("b", i).random(), "count": cnt,
             "ninputs": 5 if ctx.quick else 8} for i in range(nb)]
    for res in ctx.pmap("vf.checks.c05", "batch", jobs, timeout=3400):
        if res:
            ctx.merge(res)
    acc = sum(v for k, v in ctx.counters.items() if k.startswith("accepted:"))
    ctx.extra["accepted_applications"] = acc
    ctx.extra["traces_validated_against_impl"] = ctx.counters.get(
        "interp_validated_runs", 0)
    if acc == 0:
        ctx.inconclusive("no transformation was accepted")
    missing = [t for t in TNAMES if not ctx.counters.get("accepted:" + t)]
    ctx.extra["transformations_never_accepted"] = missing
    ctx.assumptions += [
        "loop variables are not observed after a loop (fusion documents "
        "that side effect); only dummy arguments of the kernel are printed",
        "one transformation per tree (histories are exercised by C04/C10)"]
