"""C29 interposition (E8 worker side).  NOT part of PSyclone.

This directory is put on the PYTHONPATH of the real `psyclone` CLI processes
started by vf/checks/c29.py.  It is inert unless

    SVALAT_PSYCLONE_VERIF=1   and   VF_C29_FDS=<event_fd>,<ctl_fd>

are both set.  When active it installs a sys.meta_path finder that wraps the
loader of `psyclone.psyGen`; right after that module has been executed its
global names `os` and `open` are rebound to proxies.  The proxies intercept
exactly the calls CodedKern.rename_and_write makes on the kernel output
directory:

    os.open(path, O_CREAT|O_EXCL|...)  -> pause "before_create"; real call;
                                          on success pause "after_create",
                                          on failure re-raise (op "create_failed")
    os.write(fd, data) on such an fd   -> pause "before_write"; real call
    os.close(fd)       on such an fd   -> real call; pause "after_close"
    open(path, "r") of a file in the output directory
                                       -> pause "before_readback"; real call

A *pause* writes one JSON line to the event fd and blocks reading one line
from the control fd; the controller thereby decides the interleaving of the
runs.  Non-pausing "op" lines report what the real call did (fd, bytes,
errno) and are used for the strace cross-check.

Self-test (off by default, never set by the framework itself):
    VF_C29_SELFTEST=drop_excl   the proxy strips O_EXCL from the flags given
                                to the real os.open, emulating an
                                implementation that forgot the exclusive
                                create.  Used to show the check can fail.
    VF_C29_SELFTEST=slow_write  the proxy writes the kernel in two halves
                                with an extra pause "mid_write" in between
                                (emulates a non-atomic write; shows that a
                                partial file is detected by the checker).
"""
import os as _os
import sys as _sys

_ACTIVE = (_os.environ.get("SVALAT_PSYCLONE_VERIF") == "1"
           and bool(_os.environ.get("VF_C29_FDS")))

if _ACTIVE:
    import builtins as _builtins
    import importlib.abc as _abc
    import json as _json

    _EV_FD, _CTL_FD = (int(x) for x in _os.environ["VF_C29_FDS"].split(","))
    _RUN = _os.environ.get("VF_C29_RUN", "?")
    _OUTDIR = _os.path.realpath(_os.environ.get("VF_C29_OUTDIR", "/nonexistent"))
    _SELFTEST = _os.environ.get("VF_C29_SELFTEST", "")
    _TARGET = "psyclone.psyGen"
    _real_open = _builtins.open

    def _send(msg):
        msg["run"] = _RUN
        msg["pid"] = _os.getpid()
        data = (_json.dumps(msg) + "\n").encode()
        while data:
            n = _os.write(_EV_FD, data)
            data = data[n:]

    def _pause(point, path, **extra):
        msg = {"t": "pause", "point": point, "path": path}
        msg.update(extra)
        _send(msg)
        # block until the controller releases us (one line), EOF = abort
        buf = b""
        while not buf.endswith(b"\n"):
            chunk = _os.read(_CTL_FD, 1)
            if not chunk:
                _os._exit(97)       # controller went away
            buf += chunk

    def _op(what, path, **extra):
        msg = {"t": "op", "op": what, "path": path}
        msg.update(extra)
        _send(msg)

    def _in_outdir(path):
        try:
            return _os.path.realpath(_os.path.dirname(
                _os.fspath(path))) == _OUTDIR
        except Exception:      # pylint: disable=broad-except
            return False

    class OsProxy:
        """Stands in for the name `os` inside psyclone.psyGen."""

        def __init__(self, real):
            object.__setattr__(self, "_real", real)
            object.__setattr__(self, "_fds", {})

        def __getattr__(self, name):
            return getattr(self._real, name)

        def open(self, path, flags, *args, **kwargs):
            real = self._real
            # every creating open is observed, whatever its other flags (a
            # create without O_EXCL is exactly what must not go unnoticed)
            if not flags & real.O_CREAT:
                return real.open(path, flags, *args, **kwargs)
            spath = _os.fspath(path)
            _pause("before_create", spath)
            use_flags = flags
            if _SELFTEST == "drop_excl":
                use_flags = flags & ~real.O_EXCL
            try:
                fd = real.open(path, use_flags, *args, **kwargs)
            except OSError as err:
                _op("create_failed", spath, errno=err.errno)
                raise
            self._fds[fd] = spath
            _op("created", spath, fd=fd, excl=bool(flags & real.O_EXCL),
                trunc=bool(flags & real.O_TRUNC))
            _pause("after_create", spath)
            return fd

        def write(self, fd, data):
            real = self._real
            if fd not in self._fds:
                return real.write(fd, data)
            spath = self._fds[fd]
            _pause("before_write", spath, nbytes=len(data))
            if _SELFTEST == "slow_write" and len(data) > 1:
                half = len(data) // 2
                n1 = real.write(fd, data[:half])
                _op("write", spath, fd=fd, nbytes=n1)
                _pause("mid_write", spath)
                n2 = real.write(fd, data[half:])
                _op("write", spath, fd=fd, nbytes=n2)
                return n1 + n2
            n = real.write(fd, data)
            _op("write", spath, fd=fd, nbytes=n, asked=len(data))
            return n

        def close(self, fd):
            real = self._real
            if fd not in self._fds:
                return real.close(fd)
            spath = self._fds.pop(fd)
            res = real.close(fd)
            _op("close", spath, fd=fd)
            _pause("after_close", spath)
            return res

    def open_proxy(file, mode="r", *args, **kwargs):
        """Stands in for the builtin `open` inside psyclone.psyGen."""
        if isinstance(file, (str, bytes, _os.PathLike)) and _in_outdir(file):
            spath = _os.fspath(file)
            if "r" in mode and "+" not in mode:
                _pause("before_readback", spath)
                fobj = _real_open(file, mode, *args, **kwargs)
                try:
                    size = _os.fstat(fobj.fileno()).st_size
                except OSError:
                    size = -1
                _op("readback_open", spath, size=size)
                return fobj
            # any other access to the output directory from psyGen is not
            # part of the protocol as calibrated: report it, do not pause
            _op("other_open", spath, mode=mode)
        return _real_open(file, mode, *args, **kwargs)

    class _Loader(_abc.Loader):
        def __init__(self, inner):
            self._inner = inner

        def __getattr__(self, name):
            return getattr(self._inner, name)

        def create_module(self, spec):
            return self._inner.create_module(spec)

        def exec_module(self, module):
            self._inner.exec_module(module)
            module.os = OsProxy(module.os)
            module.open = open_proxy
            _op("patched", _TARGET)

    class _Finder(_abc.MetaPathFinder):
        def __init__(self):
            self._busy = False

        def find_spec(self, fullname, path, target=None):
            if fullname != _TARGET or self._busy:
                return None
            self._busy = True
            try:
                spec = None
                for finder in _sys.meta_path:
                    if finder is self:
                        continue
                    fs = getattr(finder, "find_spec", None)
                    if fs is None:
                        continue
                    spec = fs(fullname, path, target)
                    if spec is not None:
                        break
            finally:
                self._busy = False
            if spec is None or spec.loader is None:
                return None
            spec.loader = _Loader(spec.loader)
            return spec

    _sys.meta_path.insert(0, _Finder())
