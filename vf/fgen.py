"""E1 (generators): random F-lite kernels in an exactly-representable value
domain.  Programs may still be invalid for some inputs (index out of bounds,
division by zero, read of an undefined local): the reference interpreter
filters those before anything is judged.
"""
from vf.flite import (I, R, Lg, V, A, RNG, B, C, IC, decl, std_main)

NMAX = 7


class G:
    """Generation context for one kernel."""

    def __init__(self, rnd, opts=None):
        self.rnd = rnd
        self.o = dict(select=True, where=True, sections=True, intrinsics=True,
                      calls=False, verb=True, logical=True, twod=True,
                      exitcycle=False, depth=2, nstmts=6, negstep=True,
                      where_hazard=None)
        if opts:
            self.o.update(opts)
        # dummies of the kernel (all initialised by main)
        self.int_scal = ["s1", "s2"]
        self.real_scal = ["x1", "x2"]
        self.int_arr = ["ia", "ib"]
        self.real_arr = ["a", "b", "c"]
        self.real_2d = ["m2"] if self.o["twod"] else []
        self.log_arr = ["lm"] if self.o["logical"] else []
        self.loopvars = ["i", "j", "k"]
        self.locals_i = ["t1", "t2"]
        self.locals_r = ["r1", "r2"]
        self.defined = set()        # locals written on every path so far
        self.active_loops = []      # [(var, lo, hi)] enclosing loops

    # ------------------------------------------------------ expressions
    def idx(self, allow_off=True):
        """An index expression that stays within 1..n whenever n >= 1 (loops
        record the offsets their range leaves room for)."""
        r = self.rnd
        if self.active_loops and r.random() < 0.8:
            var, room = r.choice(self.active_loops)[0::2]
            v = V(var)
            x = r.random()
            if room is None:
                return IC("max", I(1), IC("min", V("n"), v))
            if not allow_off or x < 0.55 or room == 0:
                return v if x < 0.85 or room is None else \
                    B("+", B("-", V("n"), v), I(1))
            if x < 0.72:
                return B("+", v, I(1))
            if x < 0.9:
                return B("-", v, I(1))
            return B("+", B("-", V("n"), v), I(1))
        x = r.random()
        if x < 0.4:
            return I(1)
        if x < 0.7:
            return V("n")
        return IC("max", I(1), IC("min", V("n"), IC("abs", V(r.choice(
            self.int_scal)))))

    def iexpr(self, d=0):
        r = self.rnd
        if d >= self.o["depth"] or r.random() < 0.3:
            x = r.random()
            if x < 0.3:
                return I(r.randint(-3, 4))
            if x < 0.55:
                return V(r.choice(self.int_scal))
            if x < 0.7 and self.active_loops:
                return V(r.choice(self.active_loops)[0])
            if x < 0.8 and self.defined & set(self.locals_i):
                return V(r.choice(sorted(self.defined & set(self.locals_i))))
            return A(r.choice(self.int_arr), self.idx())
        x = r.random()
        if x < 0.55:
            op = r.choice(["+", "-", "*", "+", "-"])
            return B(op, self.iexpr(d + 1), self.iexpr(d + 1))
        if x < 0.65:
            return B("/", self.iexpr(d + 1), I(r.choice([2, 3, -2])))
        if x < 0.7:
            return ["neg", self.iexpr(d + 1)]
        if x < 0.75:
            return B("**", self.iexpr(d + 1), I(r.choice([2, 2, 3])))
        if not self.o["intrinsics"]:
            return B("+", self.iexpr(d + 1), I(1))
        name = r.choice(["abs", "mod", "min", "max", "sign", "int", "size",
                         "sum", "maxval"])
        if name == "abs":
            return IC("abs", self.iexpr(d + 1))
        if name == "mod":
            return IC("mod", self.iexpr(d + 1), I(r.choice([2, 3, 5, -3])))
        if name in ("min", "max"):
            args = [self.iexpr(d + 1) for _ in range(r.choice([2, 2, 3]))]
            return IC(name, *args)
        if name == "sign":
            return IC("sign", self.iexpr(d + 1), self.iexpr(d + 1))
        if name == "int":
            return IC("int", self.rexpr(d + 1))
        if name == "size":
            return IC("size", V(r.choice(self.real_arr + self.int_arr)))
        return IC(name, V(r.choice(self.int_arr)))

    def rexpr(self, d=0):
        r = self.rnd
        if d >= self.o["depth"] or r.random() < 0.3:
            x = r.random()
            if x < 0.25:
                return R(r.choice([0.5, 1.0, 2.0, -1.0, 3.0, 0.25, -2.5]))
            if x < 0.5:
                return V(r.choice(self.real_scal))
            if x < 0.6 and self.defined & set(self.locals_r):
                return V(r.choice(sorted(self.defined & set(self.locals_r))))
            if x < 0.7 and self.real_2d:
                return A(r.choice(self.real_2d), self.idx(), self.idx())
            return A(r.choice(self.real_arr), self.idx())
        x = r.random()
        if self.o.get("same_operands") and x < 0.08:
            # both operands are the same sub-expression (structurally equal
            # siblings): (a - b) - (a - b), a * b / (a * b)
            import copy
            e = B(r.choice(["+", "-", "*"]), self.rexpr(d + 1),
                  self.rexpr(d + 1))
            return B(r.choice(["-", "-", "+", "*"]), e, copy.deepcopy(e))
        if x < 0.55:
            op = r.choice(["+", "-", "*", "+", "-"])
            return B(op, self.rexpr(d + 1), self.rexpr(d + 1))
        if x < 0.65:
            return B("/", self.rexpr(d + 1), R(r.choice([2.0, 4.0, -2.0])))
        if x < 0.7:
            return ["neg", self.rexpr(d + 1)]
        if x < 0.75:
            return B("**", self.rexpr(d + 1), I(2))
        if not self.o["intrinsics"]:
            return B("+", self.rexpr(d + 1), R(1.0))
        name = r.choice(["abs", "min", "max", "sign", "real", "sum", "merge",
                         "minval", "dot_product"])
        if name == "abs":
            return IC("abs", self.rexpr(d + 1))
        if name in ("min", "max"):
            return IC(name, *[self.rexpr(d + 1)
                              for _ in range(r.choice([2, 2, 3]))])
        if name == "sign":
            return IC("sign", self.rexpr(d + 1), self.rexpr(d + 1))
        if name == "real":
            return IC("real", self.iexpr(d + 1), I(8))
        if name == "merge":
            return IC("merge", self.rexpr(d + 1), self.rexpr(d + 1),
                      self.lexpr(d + 1))
        if name == "dot_product":
            return IC("dot_product", V(r.choice(self.real_arr)),
                      V(r.choice(self.real_arr)))
        return IC(name, V(r.choice(self.real_arr)))

    def lexpr(self, d=0):
        r = self.rnd
        x = r.random()
        if d >= self.o["depth"] or x < 0.6:
            op = r.choice(["==", "/=", "<", "<=", ">", ">="])
            if r.random() < 0.5:
                return C(op, self.iexpr(d + 1), self.iexpr(d + 1))
            return C(op, self.rexpr(d + 1), self.rexpr(d + 1))
        if x < 0.8:
            return ["log", r.choice([".and.", ".or."]), self.lexpr(d + 1),
                    self.lexpr(d + 1)]
        if x < 0.9 and self.log_arr:
            return A(r.choice(self.log_arr), self.idx())
        return ["not", self.lexpr(d + 1)]

    # ---------------------------------------------------------- statements
    def scalar_assign(self):
        r = self.rnd
        x = r.random()
        if x < 0.3:
            return ["assign", A(r.choice(self.real_arr), self.idx()),
                    self.rexpr()]
        if x < 0.45:
            return ["assign", A(r.choice(self.int_arr), self.idx()),
                    self.iexpr()]
        if x < 0.55 and self.real_2d:
            return ["assign", A(r.choice(self.real_2d), self.idx(),
                                self.idx()), self.rexpr()]
        if x < 0.7:
            nm = r.choice(self.locals_r)
            s = ["assign", V(nm), self.rexpr()]
            self.defined.add(nm)
            return s
        if x < 0.8:
            nm = r.choice(self.locals_i)
            s = ["assign", V(nm), self.iexpr()]
            self.defined.add(nm)
            return s
        if x < 0.9:
            return ["assign", V(r.choice(self.real_scal)), self.rexpr()]
        return ["assign", V(r.choice(self.int_scal)), self.iexpr()]

    def array_assign(self):
        """Whole-array / section assignment with conformable operands."""
        r = self.rnd
        x = r.random()
        if x < 0.35:
            # whole arrays (all real 1-D dummies have extent n)
            rhs = self.arr_rexpr(None)
            return ["assign", V(r.choice(self.real_arr)), rhs]
        if x < 0.75 and self.o["sections"]:
            # sections of equal extent: lo:hi with a shift
            sh = r.choice([0, 1, -1, 2])
            lo1 = 2 if sh < 0 else 1
            sec = lambda nm, off: A(nm, RNG(
                B("+", I(lo1), I(off)) if off else I(lo1),
                B("+", B("-", V("n"), I(2)), I(off)) if off
                else B("-", V("n"), I(2))))
            dst = r.choice(self.real_arr)
            src = r.choice(self.real_arr)
            rhs = sec(src, sh)
            if r.random() < 0.5:
                rhs = B(r.choice(["+", "*", "-"]), rhs,
                        r.choice([R(2.0), sec(r.choice(self.real_arr), 0)]))
            return ["assign", sec(dst, 0), rhs]
        if self.real_2d and x < 0.85:
            nm = self.real_2d[0]
            return ["assign", A(nm, RNG(), self.idx(False)),
                    self.arr_rexpr(None)]
        return ["assign", V(r.choice(self.int_arr)),
                B(r.choice(["+", "*"]), V(r.choice(self.int_arr)),
                  I(r.randint(1, 3)))]

    def arr_rexpr(self, _, d=0):
        r = self.rnd
        if d >= 2 or r.random() < 0.4:
            x = r.random()
            if x < 0.7:
                return V(r.choice(self.real_arr))
            if x < 0.85:
                return R(r.choice([1.0, 2.0, 0.5]))
            return V(r.choice(self.real_scal))
        x = r.random()
        if x < 0.7:
            return B(r.choice(["+", "-", "*"]), self.arr_rexpr(None, d + 1),
                     self.arr_rexpr(None, d + 1))
        if x < 0.8:
            return IC("abs", self.arr_rexpr(None, d + 1))
        if x < 0.9:
            return IC("max", self.arr_rexpr(None, d + 1),
                      self.arr_rexpr(None, d + 1))
        return ["neg", self.arr_rexpr(None, d + 1)]

    def where_stmt(self):
        r = self.rnd
        hz = self.o["where_hazard"]
        if not hasattr(self, "_wstyle"):
            self._wstyle = r.choice(["whole", "whole", "colon", "bounds"])
        style = "mixed" if hz == "mixed_notation" else self._wstyle

        def arr():
            nm = r.choice(self.real_arr)
            st = style if style != "mixed" else r.choice(
                ["whole", "colon", "bounds"])
            if st == "whole":
                return V(nm)
            if st == "colon":
                return A(nm, RNG())
            return A(nm, RNG(I(1), V("n")))

        def operand():
            x = r.random()
            if x < 0.7:
                return arr()
            if x < 0.8:
                return R(r.choice([1.0, 2.0, 0.5]))
            if x < 0.9 or hz != "elem_operand":
                return V(r.choice(self.real_scal))
            return A(r.choice(self.real_arr), I(1))     # scalar element

        def rhs(d=0):
            x = r.random()
            if d >= 2 or x < 0.35:
                return operand()
            if x < 0.8:
                return B(r.choice(["+", "-", "*"]), rhs(d + 1), rhs(d + 1))
            if x < 0.85:
                return IC("abs", rhs(d + 1))
            if x < 0.9:
                return IC(r.choice(["max", "min"]), rhs(d + 1), rhs(d + 1))
            return ["neg", rhs(d + 1)]
        if hz == "stride" and r.random() < 0.6:
            # mask reading *other* elements than the one assigned
            mask = C(">", A(r.choice(self.real_arr), RNG(V("n"), I(1), I(-1))),
                     R(0.0))
        else:
            mask = C(r.choice([">", "<", ">=", "/="]), arr(),
                     r.choice([R(0.0), R(1.0), arr()]))
        if self.log_arr and r.random() < 0.2 and style == "whole":
            mask = V(self.log_arr[0])

        def body():
            out = []
            for _ in range(r.randint(1, 2)):
                e = rhs()
                if hz == "nonelemental" and r.random() < 0.6:
                    e = B("+", e, IC(r.choice(["sum", "maxval", "minval"]),
                                     arr()))
                out.append(["assign", arr(), e])
            return out
        clauses = [[mask, body()]]
        if r.random() < 0.3:
            clauses.append([C(r.choice([">", "<"]), arr(), R(0.0)), body()])
        els = body() if r.random() < 0.5 else None
        return ["where", clauses, els]

    def select_stmt(self, depth):
        r = self.rnd
        sel = self.iexpr(1)
        saved = set(self.defined)
        cases = []
        used = set()
        vals = list(range(-4, 8))
        r.shuffle(vals)
        for _ in range(r.randint(1, 3)):
            items = []
            for _ in range(r.randint(1, 2)):
                if not vals:
                    break
                v = vals.pop()
                if r.random() < 0.7:
                    items.append(["v", I(v)])
                    used.add(v)
                else:
                    # a closed range that does not overlap used values
                    if v + 1 in used or v in used:
                        items.append(["v", I(v)])
                        used.add(v)
                    else:
                        items.append(["r", I(v), I(v + 1)])
                        used.update((v, v + 1))
                        if v + 1 in vals:
                            vals.remove(v + 1)
            if items:
                self.defined = set(saved)
                cases.append([items, self.block(depth + 1, 2)])
        if r.random() < 0.3:
            big = max(used) + 1 if used else 9
            self.defined = set(saved)
            cases.append([[["r", I(big + 1), None]],
                          self.block(depth + 1, 1)])
        self.defined = set(saved)
        dflt = self.block(depth + 1, 2) if r.random() < 0.6 else None
        self.defined = saved
        return ["select", sel, cases, dflt]

    def loop(self, depth):
        r = self.rnd
        free = [v for v in self.loopvars
                if v not in [l[0] for l in self.active_loops]]
        if not free:
            return self.scalar_assign()
        var = free[0]
        x = r.random()
        room = 0
        if x < 0.5:
            lo, hi, st = I(1), V("n"), None
        elif x < 0.7:
            lo, hi, st = I(2), B("-", V("n"), I(1)), None
            room = 1
        elif x < 0.8 and self.o["negstep"]:
            lo, hi, st = V("n"), I(1), I(-1)
        elif x < 0.9:
            lo, hi, st = I(1), V("n"), I(2)
        else:
            lo, hi, st = I(r.randint(1, 3)), I(r.randint(0, 4)), None
            room = None
        saved = set(self.defined)
        cname = None
        if self.o.get("named") and r.random() < 0.5:
            self.nnames = getattr(self, "nnames", 0) + 1
            cname = "lp%d_%s" % (self.nnames, var)
        self.loop_names = getattr(self, "loop_names", []) + [cname]
        self.active_loops.append((var, lo, room))
        body = self.block(depth + 1, r.randint(1, 3), in_loop=True)
        self.active_loops.pop()
        self.loop_names = self.loop_names[:-1]
        # definitions made inside a possibly zero-trip loop do not count
        self.defined = saved
        if cname:
            return ["do", var, lo, hi, st, body, cname]
        return ["do", var, lo, hi, st, body]

    def if_stmt(self, depth):
        r = self.rnd
        saved = set(self.defined)
        clauses = []
        defs = []
        for _ in range(r.choice([1, 1, 2])):
            self.defined = set(saved)
            cond = self.lexpr(1)
            b = self.block(depth + 1, r.randint(1, 2))
            clauses.append([cond, b])
            defs.append(set(self.defined))
        els = None
        if r.random() < 0.5:
            self.defined = set(saved)
            els = self.block(depth + 1, r.randint(1, 2))
            defs.append(set(self.defined))
            self.defined = set.intersection(*defs)
        else:
            self.defined = saved
        return ["if", clauses, els]

    def block(self, depth, n, in_loop=False):
        r = self.rnd
        out = []
        for _ in range(n):
            x = r.random()
            if depth < 2 and x < 0.22:
                out.append(self.loop(depth))
            elif depth < 3 and x < 0.36:
                out.append(self.if_stmt(depth))
            elif self.o["select"] and depth < 2 and x < 0.44:
                out.append(self.select_stmt(depth))
            elif self.o["where"] and x < 0.52 and not self.active_loops:
                out.append(self.where_stmt())
            elif x < 0.64 and not self.active_loops:
                out.append(self.array_assign())
            elif self.o["verb"] and x < 0.67 and depth == 0:
                out.append(["verb", "write(*,'(A)') 'marker %d'" %
                            r.randint(0, 99)])
            elif self.o["exitcycle"] and in_loop and x < 0.72:
                verb = [r.choice(["exit", "cycle"])]
                names = [c for c in getattr(self, "loop_names", []) if c]
                if names and r.random() < 0.7:
                    verb.append(r.choice(names))
                out.append(["if", [[self.lexpr(1), [verb]]], None])
            else:
                out.append(self.scalar_assign())
        return out


def kernel_unit(rnd, opts=None, body=None, extra_routines=(), name="kern"):
    """A module with one kernel subroutine `kern(n, ...)` + std main."""
    g = G(rnd, opts)
    if body is None:
        body = g.block(0, g.o["nstmts"])
    decls = [decl("n", "i", intent="in")]
    for nm in g.int_scal:
        decls.append(decl(nm, "i", intent="inout"))
    for nm in g.real_scal:
        decls.append(decl(nm, "r", intent="inout"))
    for nm in g.int_arr:
        decls.append(decl(nm, "i", [[None, V("n")]], intent="inout"))
    for nm in g.real_arr:
        decls.append(decl(nm, "r", [[None, V("n")]], intent="inout"))
    for nm in g.real_2d:
        decls.append(decl(nm, "r", [[None, V("n")], [None, V("n")]],
                          intent="inout"))
    for nm in g.log_arr:
        decls.append(decl(nm, "l", [[None, V("n")]], intent="inout"))
    for nm in g.loopvars + g.locals_i:
        decls.append(decl(nm, "i"))
    for nm in g.locals_r:
        decls.append(decl(nm, "r"))
    args = ["n"] + g.int_scal + g.real_scal + g.int_arr + g.real_arr + \
        g.real_2d + g.log_arr
    kern = {"kind": "subroutine", "name": name, "args": args, "decls": decls,
            "body": body, "result": None}
    unit = {"module": "kmod", "routines": [kern] + list(extra_routines)}
    unit["main"] = make_main(g, name, args)
    return unit, g


def make_main(g, name, args):
    actuals = []
    for nm in g.int_scal:
        actuals.append(decl(nm, "i"))
    for nm in g.real_scal:
        actuals.append(decl(nm, "r"))
    for nm in g.int_arr:
        actuals.append(decl(nm, "i", [[1, NMAX]]))
    for nm in g.real_arr:
        actuals.append(decl(nm, "r", [[1, NMAX]]))
    for nm in g.real_2d:
        actuals.append(decl(nm, "r", [[1, NMAX], [1, NMAX]]))
    for nm in g.log_arr:
        actuals.append(decl(nm, "l", [[1, NMAX]]))
    m = std_main("kmod", {"name": name, "call_args": args}, actuals, None,
                 [a["name"] for a in actuals],
                 extra_decls=[decl("n", "i")])
    # main reads "seed n"
    m["body"][0] = ["verb", "read(*,*) seed, n"]
    return m
