"""C22, thorough tier: validate the PSy-layer text executor against reality.

A few distributed-memory PSy layers (repository kernels + built-ins, random
accepted redundant-computation / colouring / asynchronous / move histories)
are compiled against the repository's stub LFRic infrastructure, built with a
logging overlay on is_dirty / set_dirty / set_clean / halo_exchange*, and run
as rank 0 of 2 (mesh halo depth 2) from random initial halo flags.  The
sequence of run-time halo calls (operation, field, depth, is_dirty result)
must equal the sequence the text executor predicts for the same initial
flags.  A mismatch is a HARNESS fault (inconclusive), never a verdict on
PSyclone.
"""
import os
import random
import re
import shutil

from vf import lfric
from vf.c22_drive import ALG_DIR

LOG = "HALOLOG"


def overlay(rel, text):
    rel = rel.replace("\\", "/")
    if rel.endswith("field/field_parent_mod.f90"):
        t = text
        t = t.replace(
            "    nullify( mesh )\n  end function is_dirty",
            "    write(*,'(A,1X,I0,1X,I0,1X,L1)') '%s is_dirty', "
            "loc(self%%halo_dirty), depth, dirtiness\n"
            "    nullify( mesh )\n  end function is_dirty" % LOG)
        t = t.replace(
            "    self%halo_dirty(:) = 1\n\n  end subroutine set_dirty",
            "    self%%halo_dirty(:) = 1\n"
            "    write(*,'(A,1X,I0)') '%s set_dirty', loc(self%%halo_dirty)\n"
            "\n  end subroutine set_dirty" % LOG)
        t = t.replace(
            "    self%halo_dirty(1:depth) = 0\n    nullify( mesh )\n"
            "  end subroutine set_clean",
            "    self%%halo_dirty(1:depth) = 0\n"
            "    write(*,'(A,1X,I0,1X,I0)') '%s set_clean', "
            "loc(self%%halo_dirty), depth\n    nullify( mesh )\n"
            "  end subroutine set_clean" % LOG)
        if t.count(LOG) != 3:
            raise lfric.HarnessError("logging overlay did not apply to "
                                     "field_parent_mod.f90")
        return t
    if rel.endswith("field/field_r64_mod.f90"):
        t = text
        for name, op, clean in (("halo_exchange", "exchange", True),
                                ("halo_exchange_start", "exchange_start",
                                 False),
                                ("halo_exchange_finish", "exchange_finish",
                                 True)):
            new = ""
            if clean:
                # real LFRic marks the exchanged depth clean; the stub's
                # exchange is an empty routine
                new += "    self%halo_dirty(1:depth) = 0\n"
            new += ("    write(*,'(A,1X,I0,1X,I0)') '%s %s', "
                    "loc(self%%halo_dirty), depth\n" % (LOG, op))
            pat = re.compile(r"(\n\s*end subroutine %s\s*\n)" % name)
            if len(pat.findall(t)) != 1:
                raise lfric.HarnessError("overlay: end subroutine " + name)
            t = pat.sub(lambda m, new=new: "\n" + new + m.group(1)[1:], t)
        return t
    return None


FIELDS = [("f1", "W0"), ("f2", "W0"), ("f3", "W3"), ("f4", "W2"),
          ("f5", "W2"), ("f6", "Wtheta"), ("f7", "W0")]
KERNELS = ["testkern_w0", "testkern_w0_readinc", "testkern_w2_only",
           "testkern_stencil_w3", "testkern_wtheta"]
CALLS = [
    "setval_c(f1, 0.5_r_def)", "setval_c(f4, 1.0_r_def)",
    "setval_x(f2, f1)", "inc_x_plus_y(f2, f7)", "x_plus_y(f7, f1, f2)",
    "testkern_w0_type(f1, f2)", "testkern_w0_type(f2, f7)",
    "testkern_w0_readinc_type(f1, f2)", "testkern_w0_readinc_type(f7, f1)",
    "testkern_w2_only_type(f4, f5)", "testkern_w2_only_type(f5, f4)",
    "testkern_stencil_w3_type(f3, f4, 1)",
    "testkern_stencil_w3_type(f3, f5, 2)",
    "testkern_wtheta_type(f6, f3)", "inc_a_times_x(0.5_r_def, f4)",
]
HD = 2


def make_case(rnd, name):
    calls = [rnd.choice(CALLS) for _ in range(rnd.randint(2, 4))]
    used = sorted({m for c in calls for m in re.findall(r"\bf\d\b", c)})
    init = {f: rnd.randint(0, HD) for f in used}
    code = []
    for f in used:
        code.append("%s_proxy = %s%%get_proxy()" % (f, f))
        code.append("write(*,'(A,1X,A,1X,I0)') 'ADDR', '%s', "
                    "loc(%s_proxy%%halo_dirty)" % (f, f))
    code.append("write(*,'(A)') 'SETUP'")
    for f in used:
        code.append("call %s_proxy%%set_dirty()" % f)
        if init[f]:
            code.append("call %s_proxy%%set_clean(%d)" % (f, init[f]))
    code.append("write(*,'(A)') 'BEGIN'")
    kmods = sorted({m for c in calls for m in KERNELS
                    if c.startswith(m + "_type(")})
    desc = {"name": name, "ranks": 2, "halo_depth": HD, "nlayers": 2,
            "fields": [{"name": f, "space": s, "type": "real", "init": "df",
                        "scale": 3} for f, s in FIELDS if f in used],
            "scalars": [],
            "kernels": [{"module": k + "_mod", "type": k + "_type"}
                        for k in kmods],
            "steps": [{"code": "\n".join(code)},
                      {"invoke": calls, "name": "probe"},
                      {"code": "write(*,'(A)') 'END'"}]}
    return desc, calls, init, kmods


def run(ctx, ncases):
    """Build the overlaid infrastructure once and validate `ncases` cases.
    Counts traces_validated_against_impl; mismatches => inconclusive."""
    from psyclone.parse.algorithm import parse
    from psyclone.psyGen import PSyFactory
    from psyclone.alg_gen import Alg
    from psyclone.errors import PSycloneError
    from vf import c22_drive as drv, c22_parse
    from vf.c22_model import run_field
    scratch = os.path.join(ctx.tmp, "impl")
    os.makedirs(scratch, exist_ok=True)
    try:
        infra = lfric.build_infrastructure(scratch, overlay=overlay)
    except lfric.HarnessError as err:
        ctx.count("impl_infrastructure_build_failed")
        ctx.extra["impl_validation"] = "skipped: " + str(err)[:300]
        return
    rnd = ctx.rng("impl")
    for i in range(ncases):
        annexed = bool(i % 2)
        drv.set_annexed(annexed)
        name = "c22impl%d" % i
        desc, calls, init, kmods = make_case(rnd, name)
        cdir = os.path.join(scratch, name)
        os.makedirs(cdir, exist_ok=True)
        x90 = os.path.join(cdir, name + ".x90")
        with open(x90, "w") as fh:
            fh.write(lfric.algorithm_program(desc))
        try:
            alg_ast, info = parse(x90, api="lfric", kernel_paths=[ALG_DIR])
            psy = PSyFactory("lfric", distributed_memory=True).create(info)
            sched = psy.invokes.invoke_list[0].schedule
            hist = []
            for _ in range(rnd.randint(0, 4)):
                st = drv.random_step(sched, rnd, maxdepth=HD)
                if st is None or st["t"].startswith("omp"):
                    continue
                if st["t"] == "rc" and st["depth"] and st["depth"] > HD:
                    continue
                try:
                    drv.apply_step(sched, st)
                    hist.append(st)
                except PSycloneError:
                    psy = PSyFactory("lfric",
                                     distributed_memory=True).create(info)
                    sched = psy.invokes.invoke_list[0].schedule
                    for old in hist:
                        drv.apply_step(sched, old)
            psy_text = str(psy.gen)
            alg_text = str(Alg(alg_ast, psy).gen)
            facts = drv.kernel_facts(sched)
        except Exception as err:      # pylint: disable=broad-except
            ctx.count("impl_generation_failed")
            continue
        inv_name = psy.invokes.invoke_list[0].name
        try:
            subs = c22_parse.split_invokes(psy_text)
            parsed = c22_parse.parse_invoke(subs[inv_name])
            c22_parse.resolve(parsed, facts)
        except (c22_parse.Unparsed, KeyError):
            ctx.count("impl_case_unparsed")
            continue
        sources = []
        for k in kmods:
            with open(os.path.join(ALG_DIR, k + "_mod.f90")) as fh:
                sources.append((k + "_mod.f90", fh.read()))
        sources.append((name + "_psy.f90", psy_text))
        sources.append((name + "_alg.f90", alg_text))
        res = lfric.compile_and_run(cdir, sources,
                                    infra["inc"] + infra["lib"])
        if not res["ok"]:
            ctx.count("impl_compile_or_run_failed:" + str(res["stage"]))
            ctx.extra.setdefault("impl_failures", []).append(
                (res["stderr"] or "")[-300:])
            continue
        addr = {}
        real = []
        on = False
        for ln in res["stdout"].splitlines():
            p = ln.split()
            if not p:
                continue
            if p[0] == "ADDR":
                addr[p[2]] = p[1] + "_proxy"
            elif p[0] == "BEGIN":
                on = True
            elif p[0] == "END":
                on = False
            elif p[0] == LOG and on:
                f = addr.get(p[2], "?" + p[2])
                op = p[1]
                d = int(p[3]) if len(p) > 3 else None
                r = None
                if op == "is_dirty":
                    r = p[4] == "T"
                real.append((op, f, d, r))
        exp = []
        for f, k in init.items():
            log = []
            run_field(parsed["events"], f + "_proxy", HD,
                      {"max_halo_depth_mesh": HD}, k, True, None, log=log,
                      nofault=True)
            exp += [(ln, op, f + "_proxy", d, r) for ln, op, d, r in log]
        exp.sort(key=lambda e: e[0])
        exp = [e[1:] for e in exp]
        if exp == real and real:
            ctx.count("traces_validated_against_impl")
            ctx.count("impl_halo_calls_compared", len(real))
        else:
            ctx.count("impl_trace_mismatch")
            ctx.extra.setdefault("impl_mismatches", []).append({
                "calls": calls, "history": [drv.step_str(s) for s in hist],
                "initial_flags": init, "annexed": annexed,
                "expected": exp[:40], "observed": real[:40]})
            ctx.inconclusive("text executor and real run disagree on the "
                             "halo call sequence (harness fault)")
    shutil.rmtree(scratch, ignore_errors=True)
