"""Integer expression mini-AST with Fortran semantics (independent of PSyIR).

Nodes are tuples:
  ("lit", int) ("var", name) ("neg", e) ("bin", op, a, b) with op in + - * / **
  ("call", NAME, [args]) NAME in MOD MIN MAX ABS
  ("arr", name, [idx...])
"""
from fractions import Fraction


class Undefined(Exception):
    """Evaluation has no defined Fortran value (division by zero, overflow,
    negative exponent...) - the valuation is skipped, never judged."""


LIMIT = 2 ** 31 - 1


SALT = [0]      # selects one of several array CONTENTS (see valuations())


def arr_value(name, idx):
    """Arrays are pseudo-random integer functions of their indices; the
    module-level SALT selects the content: 0 and 2 are two different
    pseudo-random fillings, 1 is the constant array (all elements equal),
    so that claims such as never_equal(a(1), a(2)) are refuted."""
    if SALT[0] == 1:
        return 3
    h = 7 + 13 * SALT[0]
    for c in name:
        h = (h * 31 + ord(c)) % 1000003
    for i in idx:
        h = (h * 1000003 + (i % 65537) * 8191 + 12345) % 2147483647
    return h % 13 - 6


def tdiv(a, b):
    if b == 0:
        raise Undefined("div0")
    q = abs(a) // abs(b)
    return q if (a >= 0) == (b >= 0) else -q


def fmod(a, p):
    if p == 0:
        raise Undefined("mod0")
    return a - tdiv(a, p) * p


def ev(e, env, stats=None):
    """Fortran INTEGER semantics.  stats (dict) collects mechanism facts:
    'inexact_div' (a division truncated), 'neg_mod' (MOD with a negative
    operand)."""
    t = e[0]
    if t == "lit":
        return e[1]
    if t == "var":
        return env[e[1]]
    if t == "neg":
        return -ev(e[1], env, stats)
    if t == "arr":
        return arr_value(e[1], [ev(i, env, stats) for i in e[2]])
    if t == "call":
        args = [ev(a, env, stats) for a in e[2]]
        n = e[1]
        if n == "MOD":
            if stats is not None and (args[0] < 0 or args[1] < 0):
                stats["neg_mod"] = True
            return fmod(args[0], args[1])
        if n == "MIN":
            return min(args)
        if n == "MAX":
            return max(args)
        if n == "ABS":
            return abs(args[0])
        raise ValueError(n)
    if t == "bin":
        op = e[1]
        a = ev(e[2], env, stats)
        b = ev(e[3], env, stats)
        if op == "+":
            r = a + b
        elif op == "-":
            r = a - b
        elif op == "*":
            r = a * b
        elif op == "/":
            r = tdiv(a, b)
            if stats is not None and r * b != a:
                stats["inexact_div"] = True
        elif op == "**":
            if b < 0:
                raise Undefined("negexp")
            if b > 8:
                raise Undefined("bigexp")
            r = a ** b
        else:
            raise ValueError(op)
        if abs(r) > LIMIT:
            raise Undefined("overflow")
        return r
    raise ValueError(t)


def ev_real(e, env):
    """The same expression over the rationals ('/' exact, MOD floored as in
    SymPy).  Used only to *classify* a disagreement by mechanism."""
    t = e[0]
    if t == "lit":
        return Fraction(e[1])
    if t == "var":
        return Fraction(env[e[1]])
    if t == "neg":
        return -ev_real(e[1], env)
    if t == "arr":
        idx = [ev_real(i, env) for i in e[2]]
        if any(i.denominator != 1 for i in idx):
            # SymPy sees an uninterpreted function applied to a rational:
            # any fixed value will do for classifying the mechanism
            flat = []
            for i in idx:
                flat += [i.numerator, i.denominator]
            return Fraction(arr_value(e[1] + "_frac", flat))
        return Fraction(arr_value(e[1], [int(i) for i in idx]))
    if t == "call":
        args = [ev_real(a, env) for a in e[2]]
        n = e[1]
        if n == "MOD":
            if args[1] == 0:
                raise Undefined("mod0")
            return args[0] - args[1] * (args[0] // args[1])   # floored
        if n == "MIN":
            return min(args)
        if n == "MAX":
            return max(args)
        if n == "ABS":
            return abs(args[0])
    if t == "bin":
        op = e[1]
        a = ev_real(e[2], env)
        b = ev_real(e[3], env)
        if op == "+":
            return a + b
        if op == "-":
            return a - b
        if op == "*":
            return a * b
        if op == "/":
            if b == 0:
                raise Undefined("div0")
            return a / b
        if op == "**":
            if b.denominator != 1 or b < 0 or b > 8:
                raise Undefined("exp")
            return a ** int(b)
    raise ValueError(t)


PREC = {"+": 1, "-": 1, "*": 2, "/": 2, "**": 4}


def fortran(e, full=True):
    """Fully parenthesised Fortran text (unambiguous by construction)."""
    t = e[0]
    if t == "lit":
        return str(e[1]) if e[1] >= 0 else "(%d)" % e[1]
    if t == "var":
        return e[1]
    if t == "neg":
        return "(-%s)" % fortran(e[1])
    if t == "arr":
        return "%s(%s)" % (e[1], ", ".join(fortran(i) for i in e[2]))
    if t == "call":
        return "%s(%s)" % (e[1], ", ".join(fortran(a) for a in e[2]))
    if t == "bin":
        return "(%s %s %s)" % (fortran(e[2]), e[1], fortran(e[3]))
    raise ValueError(t)


def size(e):
    t = e[0]
    if t in ("lit", "var"):
        return 1
    if t == "neg":
        return 1 + size(e[1])
    if t in ("arr", "call"):
        return 1 + sum(size(a) for a in e[2])
    return 1 + size(e[2]) + size(e[3])


def variables(e, acc=None):
    acc = set() if acc is None else acc
    t = e[0]
    if t == "var":
        acc.add(e[1])
    elif t == "neg":
        variables(e[1], acc)
    elif t in ("arr", "call"):
        for a in e[2]:
            variables(a, acc)
    elif t == "bin":
        variables(e[2], acc)
        variables(e[3], acc)
    return acc


def has(e, pred):
    if pred(e):
        return True
    t = e[0]
    if t == "neg":
        return has(e[1], pred)
    if t in ("arr", "call"):
        return any(has(a, pred) for a in e[2])
    if t == "bin":
        return has(e[2], pred) or has(e[3], pred)
    return False
